"""probe: exhaustive path exploration with feasibility pruning; relu / selu / max / maxpool"""
import numpy as np, z3, time, sys
import symf
from symf import S, symarr, vjp, EXP, ONE
from synapgrad import cpu_ops

class Explorer:
    def __init__(self, pre=()):
        self.pre = list(pre); self.queue = [[]]; self.paths = 0; self.solver_calls = 0
    def run(self, fn):
        results = []
        while self.queue:
            self.script = self.queue.pop(); self.pos = 0; self.pc = []; self.pc_pairs = []
            self.s = z3.Solver(); self.s.set('timeout', 5000); self.s.add(*self.pre)
            results.append((fn(), list(self.pc) + [l != r for l, r in self.pc_pairs])); self.paths += 1
        return results
    def decide(self, c):
        if self.pos < len(self.script):
            v = self.script[self.pos]
        else:
            self.solver_calls += 2
            self.s.push(); self.s.add(c); rt = self.s.check(); self.s.pop()
            self.s.push(); self.s.add(z3.Not(c)); rf = self.s.check(); self.s.pop()
            if rt == z3.sat and rf == z3.sat:
                v = True; self.queue.append(self.script[:self.pos] + [False])
            else: v = (rt == z3.sat)
            self.script = self.script[:self.pos] + [v]
        self.pos += 1
        lit = c if v else z3.Not(c)
        self.pc.append(lit); self.s.add(lit)
        return v
EX = None
class B:
    def __init__(s, c, l, r): s.c = c; s.l = l; s.r = r
    def __bool__(s):
        c = z3.simplify(s.c)
        if z3.is_true(c): return True
        if z3.is_false(c): return False
        v = EX.decide(c); EX.pc_pairs.append((s.l, s.r)); return v
def cmp(op):
    def f(s, o):
        if isinstance(o, float) and o == float('-inf'): return {'gt': True, 'ge': True, 'lt': False, 'le': False, 'eq': False, 'ne': True}[op.__name__]
        o = S.of(o)
        # denominators: use z3 division (fine for feasibility queries)
        return B(op(s.term(), o.term()), s.term(), o.term())
    return f
import operator
S.__gt__ = cmp(operator.gt); S.__ge__ = cmp(operator.ge); S.__lt__ = cmp(operator.lt); S.__le__ = cmp(operator.le)
S.__eq__ = cmp(operator.eq); S.__ne__ = cmp(operator.ne); S.__hash__ = None

def strict(pc):
    out = []
    for l in pc:
        a = l.arg(0) if z3.is_not(l) else l
        out.append(a.arg(0) != a.arg(1))
    return out
def check(name, fwd, bwd, shape, pre=(), axioms=lambda atoms: []):
    global EX
    t = time.time(); a = symarr('a', shape)
    EX = Explorer(pre)
    def run():
        out = fwd(a); g = symarr('g', np.shape(out)); ga = bwd(g, a, out); return out, g, ga
    res = EX.run(run); nobl = 0; bad = 0
    for (out, g, ga), pc in res:
        spec = vjp(np.asarray(out, dtype=object), g, a)
        for k in np.ndindex(*a.shape):
            x = S.of(ga[k]); y = spec[k]
            s = z3.Solver(); s.set('timeout', 10000); s.add(*pre, *pc); s.add(x.n * y.d != y.n * x.d)
            r = s.check(); nobl += 1
            if r != z3.unsat: bad += 1
    print(f"{name} {shape}: paths={EX.paths} solver_calls={EX.solver_calls} obligations={nobl} undischarged={bad} {time.time()-t:.2f}s", flush=True)

check('relu', cpu_ops.relu_forward, lambda g,a,o: cpu_ops.relu_backward(g,a), (2,2))
check('relu', cpu_ops.relu_forward, lambda g,a,o: cpu_ops.relu_backward(g,a), (2,3))
sl = z3.Real('slope')
check('leaky', lambda a: cpu_ops.leaky_relu_forward(a, S(sl)), lambda g,a,o: cpu_ops.leaky_relu_backward(g,a,S(sl)), (3,), pre=[sl >= 0, sl < 1])
check('max dim1', lambda a: cpu_ops.max_forward(a,1,False), lambda g,a,o: cpu_ops.max_backward(g,a,1,False), (2,3))
check('max None', lambda a: cpu_ops.max_forward(a,None,False), lambda g,a,o: cpu_ops.max_backward(g,a,None,False), (2,2))
def mp(k,s,p):
    st = {}
    def f(a):
        o, sh, w = cpu_ops.max_pool2d_forward(a,k,s,p,1); st['w']=w; st['sh']=sh; return o
    def b(g,a,o): return cpu_ops.max_pool2d_backward(g,k,s,p,1,st['sh'],st['w'])
    return f,b
f,b = mp(2,2,0); check('maxpool2d k2 s2', f, b, (1,1,2,2))
f,b = mp(2,1,0); check('maxpool2d k2 s1', f, b, (1,1,2,3))
f,b = mp(2,1,1); check('maxpool2d k2 s1 p1', f, b, (1,1,2,2))
