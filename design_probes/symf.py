"""probe 2: values are formal fractions num/den of z3 polynomial terms over atoms; no z3 division in obligations"""
import z3, numpy as np
from fractions import Fraction
R = z3.RealSort()
EXP = z3.Function('exp', R, R); LOG = z3.Function('log', R, R); SQRT = z3.Function('sqrt', R, R); TANH = z3.Function('tanh', R, R)
ONE = z3.RealVal(1); ZERO = z3.RealVal(0)
def isc(e, v=None):
    return z3.is_rational_value(e) and (v is None or e.as_fraction() == v)
def mul(a, b):
    if isc(a, 0) or isc(b, 0): return ZERO
    if isc(a, 1): return b
    if isc(b, 1): return a
    if isc(a) and isc(b): return z3.RealVal(str(a.as_fraction() * b.as_fraction()))
    return a * b
def add(a, b):
    if isc(a, 0): return b
    if isc(b, 0): return a
    if isc(a) and isc(b): return z3.RealVal(str(a.as_fraction() + b.as_fraction()))
    return a + b
def neg(a):
    if isc(a): return z3.RealVal(str(-a.as_fraction()))
    return -a
class S:
    pass
    pass
    def __init__(s, n, d=ONE): s.n = n; s.d = d
    @staticmethod
    def of(x):
        if isinstance(x, S): return x
        if isinstance(x, (bool, np.bool_, int, np.integer)): return S(z3.RealVal(int(x)))
        if isinstance(x, (float, np.floating)): return S(z3.RealVal(str(Fraction(float(x)))))
        raise TypeError(type(x))
    def term(s):
        return s.n if isc(s.d, 1) else s.n / s.d
    def __add__(s, o):
        if isinstance(o, np.ndarray): return NotImplemented
        o = S.of(o)
        if s.d.eq(o.d): return S(add(s.n, o.n), s.d)
        return S(add(mul(s.n, o.d), mul(o.n, s.d)), mul(s.d, o.d))
    __radd__ = __add__
    def __neg__(s): return S(neg(s.n), s.d)
    def __sub__(s, o):
        if isinstance(o, np.ndarray): return NotImplemented
        return s + (-S.of(o))
    def __rsub__(s, o): return S.of(o) + (-s)
    def __mul__(s, o):
        if isinstance(o, np.ndarray): return NotImplemented
        o = S.of(o); return S(mul(s.n, o.n), mul(s.d, o.d))
    __rmul__ = __mul__
    def inv(s): return S(s.d, s.n)
    def __truediv__(s, o):
        if isinstance(o, np.ndarray): return NotImplemented
        return s * S.of(o).inv()
    def __rtruediv__(s, o): return S.of(o) * s.inv()
    def __pow__(s, n):
        if float(n).is_integer():
            n = int(n); b = s if n >= 0 else s.inv(); r = S(ONE)
            for _ in range(abs(n)): r = r * b
            return r
        if float(n * 2).is_integer():
            return s.sqrt() ** int(n * 2)
        raise NotImplementedError
    def exp(s): return S(EXP(s.term()))
    def log(s): return S(LOG(s.term()))
    def sqrt(s): return S(SQRT(s.term()))
    def tanh(s): return S(TANH(s.term()))
    def conjugate(s): return s
    @property
    def real(s): return s
def symarr(name, shape):
    a = np.empty(shape, dtype=object)
    for idx in np.ndindex(*shape): a[idx] = S(z3.Real(name + ''.join(map(str, idx))))
    return a

# derivative on fractions: d(n/d) = (dn*d - n*dd)/d^2
def dterm(e, x, memo):
    k = e.get_id()
    if k in memo: return memo[k]
    r = _dterm(e, x, memo); memo[k] = r; return r
def _dterm(e, x, memo):
    """returns S"""
    if z3.is_rational_value(e): return S(ZERO)
    if z3.is_const(e): return S(ONE) if e.eq(x) else S(ZERO)
    kind = e.decl().kind(); ch = e.children()
    if kind == z3.Z3_OP_ADD:
        r = S(ZERO)
        for c in ch: r = r + dterm(c, x, memo)
        return r
    if kind == z3.Z3_OP_UMINUS: return -dterm(ch[0], x, memo)
    if kind == z3.Z3_OP_SUB:
        r = dterm(ch[0], x, memo)
        for c in ch[1:]: r = r - dterm(c, x, memo)
        return r
    if kind == z3.Z3_OP_MUL:
        r = S(ZERO)
        for i, c in enumerate(ch):
            t = dterm(c, x, memo)
            if isc(t.n, 0): continue
            for j, o in enumerate(ch):
                if j != i: t = t * S(o)
            r = r + t
        return r
    if kind == z3.Z3_OP_DIV:
        a, b = ch; return (dterm(a, x, memo) * S(b) - S(a) * dterm(b, x, memo)) * S(ONE, mul(b, b))
    if kind == z3.Z3_OP_UNINTERPRETED:
        name = e.decl().name(); a = ch[0]; da = dterm(a, x, memo)
        if isc(da.n, 0): return S(ZERO)
        if name == 'exp': return S(e) * da
        if name == 'log': return da * S(ONE, a) if not a.decl().kind()==z3.Z3_OP_DIV else da * S(a.arg(1), a.arg(0))
        if name == 'sqrt': return da * S(ONE, mul(z3.RealVal(2), e))
        if name == 'tanh': return (S(ONE) - S(e) * S(e)) * da
    raise NotImplementedError(str(e.decl()))
def dS(s, x, memo):
    dn = dterm(s.n, x, memo)
    if isc(s.d): return dn * S(ONE, s.d)
    dd = dterm(s.d, x, memo)
    return (dn * S(s.d) - S(s.n) * dd) * S(ONE, mul(s.d, s.d))
def vjp(out, g, x):
    res = np.empty(x.shape, dtype=object)
    outs = list(zip(out.ravel(), g.ravel()))
    for k in np.ndindex(*x.shape):
        acc = S(ZERO); memo = {}
        for o, gi in outs: acc = acc + gi * dS(S.of(o), x[k].n, memo)
        res[k] = acc
    return res
def prove(name, impl, spec, pre=(), timeout=60000, rel=()):
    import time
    t = time.time(); n = 0; bad = 0
    for k in np.ndindex(*spec.shape):
        a = S.of(impl[k]); b = spec[k]
        s = z3.Solver(); s.set('timeout', timeout)
        s.add(*pre); s.add(*rel); s.add(a.n * b.d != b.n * a.d); r = s.check(); n += 1
        if r != z3.unsat:
            bad += 1; print('   ', name, k, r, flush=True)
    print(f"{name}: {n} obligations, {bad} not discharged, {time.time()-t:.2f}s", flush=True)

# numpy-scalar duck typing for 0-d results
S.shape = (); S.ndim = 0; S.size = 1
def _sum(s, axis=None, keepdims=False, **kw): return s
S.sum = _sum; S.mean = _sum; S.max = _sum; S.min = _sum
S.reshape = lambda s, *shape: np.array(s, dtype=object).reshape(*shape)
S.squeeze = lambda s, *a: s
S.copy = lambda s: s
S.astype = lambda s, *a, **k: s
S.item = lambda s: s
S.__slots__ = ()
