import numpy as np, torch, sys, warnings, traceback
warnings.filterwarnings('ignore')
import synapgrad as sg
from synapgrad import Tensor, nn, optim
import synapgrad.nn.init as init
def T(a, rg=True, dt=np.float32): return Tensor(np.array(a, dtype=dt), requires_grad=rg)
def show(name, f):
    try: print(f"[{name}]", f())
    except Exception as e: print(f"[{name}] EXC {type(e).__name__}: {str(e)[:150]}")
rng = np.random.default_rng(0)
def vs_torch(name, sgf, tf, shapes, g=None):
    xs = [rng.standard_normal(s).astype(np.float64) for s in shapes]
    a = [Tensor(x.copy(), requires_grad=True) for x in xs]; b = [torch.tensor(x, requires_grad=True) for x in xs]
    try:
        o = sgf(*a); ot = tf(*b)
        gg = rng.standard_normal(ot.shape)
        o.backward(Tensor(gg.copy())); ot.backward(torch.tensor(gg))
        ok = all(np.allclose(p.grad.data, q.grad.numpy(), atol=1e-6) and p.grad.shape == tuple(q.grad.shape) for p, q in zip(a, b))
        print(f"[{name}] fwd_ok={np.allclose(o.data, ot.detach().numpy(), atol=1e-6)} grad_ok={ok}")
    except Exception as e: print(f"[{name}] EXC {type(e).__name__}: {str(e)[:150]}")
vs_torch('movedim(0,2)', lambda x: x.movedim(0,2), lambda x: x.movedim(0,2), [(2,3,4)])
vs_torch('mean dim=(-1,)', lambda x: x.mean(dim=(-1,)), lambda x: x.mean(dim=(-1,)), [(2,3)])
vs_torch('mean dim=(0,1)', lambda x: x.mean(dim=(0,1)), lambda x: x.mean(dim=(0,1)), [(2,3)])
vs_torch('mean dim=-1', lambda x: x.mean(dim=-1), lambda x: x.mean(dim=-1), [(2,3)])
vs_torch('slice repeated', lambda x: x[[0,0,1]], lambda x: x[[0,0,1]], [(2,3)])
vs_torch('max tuple', lambda x: x.max(dim=(0,1)), lambda x: x.amax(dim=(0,1)), [(2,3)])
vs_torch('squeeze tuple', lambda x: x.squeeze((0,)), lambda x: x.squeeze((0,)), [(1,3)])
vs_torch('softmax dim0', lambda x: sg.softmax(x,0), lambda x: torch.softmax(x,0), [(2,3)])
vs_torch('softmax 3d dim1', lambda x: sg.softmax(x,1), lambda x: torch.softmax(x,1), [(2,3,2)])
vs_torch('softmax 1d', lambda x: sg.softmax(x,0), lambda x: torch.softmax(x,0), [(3,)])
vs_torch('log_softmax dim-1 2d', lambda x: sg.log_softmax(x,-1), lambda x: torch.log_softmax(x,-1), [(2,3)])
vs_torch('mse both', lambda x,y: sg.mse_loss(x,y), lambda x,y: (x-y)**2, [(2,3),(2,3)])
vs_torch('pow0', lambda x: x**0, lambda x: x**0, [(2,)])
vs_torch('unfold_dim', lambda x: x.unfold(1,2,2), lambda x: x.unfold(1,2,2), [(2,5,3)])
vs_torch('sub bcast', lambda x,y: x-y, lambda x,y: x-y, [(2,1,3),(4,1)])
vs_torch('matmul bcast', lambda x,y: x@y, lambda x,y: x@y, [(2,1,3,4),(5,4,2)])
vs_torch('flatten(1,2) 4d', lambda x: x.flatten(1,2), lambda x: x.flatten(1,2), [(2,3,2,2)])
vs_torch('flatten(0,-2)', lambda x: x.flatten(0,-2), lambda x: x.flatten(0,-2), [(2,3,2)])
show('flatten(5,7) on 3d', lambda: sg.flatten(T(np.zeros((2,3,2))),5,7).shape)
show('flatten 0d', lambda: sg.flatten(T(1.0)).shape)
# BN eval
def bn_eval():
    m = nn.BatchNorm1d(3); m.running_mean.data[:] = [1,2,3]; m.running_var.data[:] = [4,9,16]; m.eval()
    mt = torch.nn.BatchNorm1d(3); mt.running_mean[:] = torch.tensor([1.,2,3]); mt.running_var[:] = torch.tensor([4.,9,16]); mt.eval()
    x = rng.standard_normal((4,3)).astype(np.float32); a = Tensor(x.copy(), requires_grad=True); b = torch.tensor(x, requires_grad=True)
    o = m(a); ot = mt(b); o.backward(Tensor(np.ones_like(x))); ot.backward(torch.ones(4,3))
    return np.allclose(o.data, ot.detach().numpy(), atol=1e-5), np.allclose(a.grad.data, b.grad.numpy(), atol=1e-5)
show('bn eval fwd/grad ok', bn_eval)
# contexts
def ctx():
    T_ = sys.modules['synapgrad.tensor']
    c = sg.no_grad()
    with sg.no_grad():
        with c: pass
        inner = T_.gradient__
    return 'mode after inner exit (should be False):', inner, 'after all:', T_.gradient__
show('no_grad stale prev', ctx)
sys.modules['synapgrad.tensor'].gradient__ = True
def leafroot():
    x = T([1.,2.]); g = Tensor(np.array([1.,1.],dtype=np.float32)); x.backward(g); x.backward(g); return x.grad.data, 'g aliased:', x._grad is g.data
show('leaf root twice (torch: [2,2])', leafroot)
def retained():
    x = T([1.,2.]); y = x*2; y.retain_grad(); y.backward(Tensor(np.ones(2,dtype=np.float32))); z = y*3; z.backward(Tensor(np.ones(2,dtype=np.float32))); return x.grad.data, '(true: 2+6=8)'
show('retained leak', retained)
def galias():
    x = T([1.,2.]); g = Tensor(np.ones(2,dtype=np.float32)); x.backward(g); (x*2).backward(Tensor(np.ones(2,dtype=np.float32))); return 'caller g now', g.data
show('caller grad mutated', galias)
show('f64 sum dtype', lambda: (T([1.,2.],dt=np.float64).sum().dtype, T([[1.,2.]],dt=np.float64)[0,0].dtype, T([1.,2.],dt=np.float64).mean().dtype))
def f64grad():
    x = T([1.,2.]); y = x*2; y.backward(Tensor(np.ones(2,dtype=np.float64))); return x.grad.dtype, y.grad.dtype
show('grad dtype w/ f64 upstream', f64grad)
def sgdmax():
    p = T([1.0]); pt = torch.tensor([1.0], requires_grad=True)
    o = optim.SGD([p], lr=0.1, weight_decay=0.5, maximize=True); ot = torch.optim.SGD([pt], lr=0.1, weight_decay=0.5, maximize=True)
    p._grad = np.array([2.0],dtype=np.float32); pt.grad = torch.tensor([2.0]); o.step(); ot.step(); return p.data, pt.data
show('sgd maximize+wd', sgdmax)
def sgdalias():
    p = T([1.0]); o = optim.SGD([p], lr=0.1, momentum=0.9); p._grad = np.array([2.0],dtype=np.float32); o.step(); return 'buffer is grad:', o.momentum_buffer[0] is p._grad
show('sgd momentum alias', sgdalias)
def frozen():
    p = T([1.0]); q = T([1.0], rg=False); o = optim.SGD([p,q], lr=0.1, weight_decay=0.5); o.zero_grad(); p._grad[:] = 1; o.step(); return q.data, q._grad
show('frozen param under wd', frozen)
def xn():
    sg.manual_seed(0); w = sg.empty(200,300); init.xavier_normal_(w, gain=1.0); return 'std', w.data.std(), 'doc', np.sqrt(2/500)
show('xavier_normal', xn)
def kn():
    sg.manual_seed(0); w = sg.empty(200,300); init.kaiming_normal_(w, a=0, mode='fan_in', nonlinearity='relu'); return 'std', w.data.std(), 'doc', np.sqrt(2)/np.sqrt(300)
show('kaiming_normal', kn)
def nest():
    t = T([[1.,2.],[3.,4.]], rg=False); return [(float(a.data), float(b.data)) for r in t for a in r for b in r][:8], 'outer rows seen:', len([1 for r in t for _ in t])
show('nested iter', nest)
show('F.unfold int kernel', lambda: sg.unfold(T(np.zeros((1,1,3,3))), 2).shape)
def deep():
    x = T([1.0]); y = x
    for _ in range(3000): y = y + 1.0
    y.backward(); return x.grad.data
show('deep chain 3000', deep)
def weak():
    import weakref, gc
    x = T([1.0], rg=False); r = weakref.ref(x); y = x * 2; del x; gc.collect(); return 'operand alive:', r() is not None
show('untracked keeps operand', weak)
show('bcel(100)', lambda: sg.binary_cross_entropy_with_logits(T([100.,-100.]), T([1.,0.],rg=False)).data)
def selug():
    x = T([100.]); y = sg.selu(x); y.backward(); return y.data, x.grad.data
show('selu grad(100)', selug)
def ce():
    x = T([[0., 1000.]]); l = sg.cross_entropy(x, Tensor(np.array([0]))); l.backward(); return l.data, x.grad.data
show('CE wide logits (true 1000)', ce)
def lsm():
    x = T([[0., 40.]]); y = sg.log_softmax(x,1); y.backward(Tensor(np.array([[1.,0.]],dtype=np.float32))); return y.data, x.grad.data, '(true grad [1,-1])'
show('log_softmax grad tiny prob', lsm)
def shared():
    class M(nn.Module):
        def __init__(s, l): super().__init__(); s.l = l
        def forward(s,x): return s.l(x)
    l = nn.Linear(2,2)
    p = nn.Module(); p.a = M(l); p.b = M(l); return len(p.parameters()), p.num_params()
show('shared submodule params (should be 2 / 6)', shared)
def reassign():
    l = nn.Linear(2,2); l.bias = None; return len(l.parameters())
show('bias=None after registration (should be 1)', reassign)
def dl():
    import importlib.util
    spec = importlib.util.spec_from_file_location('d', '/repo/synapgrad/nn/utils/data.py'); D = importlib.util.module_from_spec(spec); spec.loader.exec_module(D)
    X = np.arange(10); y = np.arange(10); return [b for b in D.DataLoader(X, y, 3)]
show('DataLoader no transform', dl)
