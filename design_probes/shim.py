"""probe: np proxy shim + symbolic epsilon; unfold_dim_backward, bce_with_logits, bce, cross_entropy, log"""
import numpy as np, z3, time, types
exec(open('paths.py').read().split("check('relu'")[0])
from synapgrad import cpu_ops
AX = []
def lift_arr(x):
    if isinstance(x, np.ndarray) and x.dtype == object:
        out = np.empty(x.shape, dtype=object)
        for i in np.ndindex(*x.shape): out[i] = S.of(x[i])
        return out
    if isinstance(x, (int, float)) : return S.of(x)
    return x
class NP:
    def __getattr__(self, k): return getattr(np, k)
    def zeros(self, shape, dtype=None, **kw):
        if dtype is None:
            a = np.empty(shape, dtype=object); a[...] = 0; return a
        return np.zeros(shape, dtype=dtype, **kw)
    def exp(self, x): return np.exp(lift_arr(x))
    def log(self, x): return np.log(lift_arr(x))
proxy = NP(); cpu_ops.np = proxy
EPS = z3.Real('EPS'); cpu_ops.epsilon = S(EPS)
_oexp = S.exp
def _exp(s):
    r = _oexp(s); t = s.term(); e = r.n
    ax = [e > 0, (e > 1) == (t > 0), (e == 1) == (t == 0)]; AX.extend(ax)
    if EX is not None: EX.s.add(*ax)
    return r
S.exp = _exp
def run(name, fn, pre=(), at_zero=False):
    global EX
    t = time.time(); EX = Explorer(list(pre) + [EPS >= 0]); res = EX.run(fn); nobl = bad = 0
    for (impl, spec), pc in res:
        for k in np.ndindex(*spec.shape):
            x = S.of(impl[k]); y = spec[k]
            f = x.n * y.d != y.n * x.d
            if at_zero: f = z3.substitute(f, (EPS, z3.RealVal(0)))
            s = z3.Solver(); s.set('timeout', 10000); s.add(*AX, *pre, *pc, EPS >= 0); s.add(f)
            r = s.check(); nobl += 1; bad += (r != z3.unsat)
    print(f"{name}: paths={EX.paths} obligations={nobl} undischarged={bad} at_zero={at_zero} {time.time()-t:.2f}s", flush=True)
def unf():
    a = symarr('a', (2,5)); out = cpu_ops.unfold_dim_forward(a, 1, 2, 2); g = symarr('g', out.shape)
    return cpu_ops.unfold_dim_backward(g, a.shape, 1, 2, 2), vjp(out, g, a)
run('unfold_dim(1,2,2)', unf)
def unf2():
    a = symarr('a', (4,2,3)); out = cpu_ops.unfold_dim_forward(a, 0, 3, 1); g = symarr('g', out.shape)
    return cpu_ops.unfold_dim_backward(g, a.shape, 0, 3, 1), vjp(out, g, a)
run('unfold_dim(0,3,1) overlapping', unf2)
def lg():
    a = symarr('a', (2,)); out = cpu_ops.log_forward(a); g = symarr('g', out.shape)
    return cpu_ops.log_backward(g, a), vjp(out, g, a)
run('log (all EPS)', lg)
def bcel():
    x = symarr('x', (2,)); t = symarr('t', (2,)); out = cpu_ops.bce_with_logits_loss_forward(x, t); g = symarr('g', out.shape)
    return cpu_ops.bce_with_logits_loss_backward(g, x, t), vjp(out, g, x)
run('bce_with_logits (all EPS)', bcel)
run('bce_with_logits (EPS:=0)', bcel, at_zero=True)
def bce():
    p = symarr('p', (2,)); t = symarr('t', (2,)); out = cpu_ops.bce_loss_forward(p, t); g = symarr('g', out.shape)
    return cpu_ops.bce_loss_backward(g, p, t), vjp(out, g, p)
pp = [z3.Real('p0') > 0, z3.Real('p0') < 1, z3.Real('p1') > 0, z3.Real('p1') < 1]
run('bce (all EPS)', bce, pre=pp)
run('bce (EPS:=0)', bce, pre=pp, at_zero=True)
def ce():
    x = symarr('x', (2,3)); y = np.array([0,2]); out = cpu_ops.cross_entropy_loss_forward(x, y); g = symarr('g', out.shape)
    return cpu_ops.cross_entropy_loss_backward(g, x, y), vjp(out, g, x)
run('cross_entropy (all EPS)', ce)
run('cross_entropy (EPS:=0)', ce, at_zero=True)
