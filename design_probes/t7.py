import z3, time
# conv output size lemma: code computes int(floor((Lp - d*(k-1) - 1)/s + 1)) with real division; spec floor-div
L,k,s,p,d = z3.Ints('L k s p d')
m = z3.Int('m')  # m = d*(k-1) abstracted
Lp = L + 2*p
code = z3.ToInt(z3.ToReal(Lp - m - 1)/z3.ToReal(s) + 1)
# python floor-div spec: q with q*s <= x < (q+1)*s
x = Lp - m - 1
q = z3.Int('q')
sol = z3.Solver(); sol.add(s >= 1, q*s <= x, x < (q+1)*s, code != q + 1)
t=time.time(); print('conv size lemma', sol.check(), round(time.time()-t,3))
# second formula in extract_windows: (in - ((k-1)*d+1)) // s + 1  == same
sol = z3.Solver(); q2 = z3.Int('q2'); y = Lp - (m + 1)
sol.add(s>=1, q*s <= x, x < (q+1)*s, q2*s <= y, y < (q2+1)*s, q2 != q)
print('two formulas agree', sol.check())
# window in-bounds: last window last element index (lW-1)*s + (k-1)*d <= Lp-1 when lW>=1
lW = q + 1
sol = z3.Solver(); sol.add(s>=1, k>=1, d>=1, m == d*(k-1), q*s <= x, x < (q+1)*s, lW >= 1, (lW-1)*s + m > Lp - 1)
t=time.time(); print('in-bounds', sol.check(), round(time.time()-t,3))
# flatten: seq slicing
n = z3.Int('n'); sh = z3.Const('sh', z3.SeqSort(z3.IntSort()))
def pyslice(sq, lo, hi):
    ln = z3.Length(sq)
    def norm(i): 
        j = z3.If(i < 0, i + ln, i); return z3.If(j < 0, 0, z3.If(j > ln, ln, j))
    a, b = norm(lo), norm(hi)
    return z3.If(b > a, z3.SubSeq(sq, a, b - a), z3.Empty(z3.SeqSort(z3.IntSort())))
start, end = z3.Ints('start end')
ln = z3.Length(sh)
st = z3.If(start != -1, start, ln); en = z3.If(end != -1, end, ln)
res = z3.Concat(pyslice(sh, 0, st), z3.Unit(z3.IntVal(-1)), pyslice(sh, en+1, ln))
# torch spec for legal args: 0<=s'<e'<n : shape[:s'] + [-1] + shape[e'+1:]
sp = z3.If(start < 0, start + ln, start); ep = z3.If(end < 0, end + ln, end)
spec = z3.Concat(z3.SubSeq(sh, 0, sp), z3.Unit(z3.IntVal(-1)), z3.SubSeq(sh, ep+1, ln-ep-1))
sol = z3.Solver(); sol.set('timeout', 20000)
sol.add(ln >= 1, start >= -ln, start < ln, end >= -ln, end < ln, sp < ep, st < en, res != spec)
t=time.time(); r = sol.check(); print('flatten legal&accepted => equal:', r, round(time.time()-t,2))
if r == z3.sat: print(sol.model())
# legal but rejected?
sol = z3.Solver(); sol.set('timeout', 20000)
sol.add(ln >= 1, start >= -ln, start < ln, end >= -ln, end < ln, sp <= ep, st > en)
r = sol.check(); print('legal but rejected exists:', r, sol.model() if r==z3.sat else '')
