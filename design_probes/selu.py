import numpy as np, z3, time
exec(open('paths.py').read().split("check('relu'")[0])
AX = []
_oexp = S.exp
def _exp(s):
    r = _oexp(s); t = s.term(); e = r.n
    ax = [e > 0, (e > 1) == (t > 0), (e == 1) == (t == 0)]
    AX.extend(ax)
    if EX is not None: EX.s.add(*ax)
    return r
S.exp = _exp
alpha, scale = 1.6732632423543772, 1.0507009873554805
def check2(name, fwd, bwd, shape):
    global EX
    t = time.time(); a = symarr('a', shape); EX = Explorer([])
    def run():
        out = fwd(a); g = symarr('g', np.shape(out)); ga = bwd(g, a, out); return out, g, ga
    res = EX.run(run); nobl = bad = 0
    for (out, g, ga), pc in res:
        spec = vjp(np.asarray(out, dtype=object), g, a)
        for k in np.ndindex(*a.shape):
            x = S.of(ga[k]); y = spec[k]
            s = z3.Solver(); s.set('timeout', 10000); s.add(*AX, *pc); s.add(x.n * y.d != y.n * x.d)
            r = s.check(); nobl += 1; bad += (r != z3.unsat)
    print(f"{name} {shape}: paths={EX.paths} obligations={nobl} undischarged={bad} {time.time()-t:.2f}s")
check2('selu', lambda a: cpu_ops.selu_forward(a, alpha, scale), lambda g,a,o: cpu_ops.selu_backward(g,a,alpha,scale), (2,))
check2('selu', lambda a: cpu_ops.selu_forward(a, alpha, scale), lambda g,a,o: cpu_ops.selu_backward(g,a,alpha,scale), (2,2))
