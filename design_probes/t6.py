import numpy as np, z3, time, sys
from symf import *
import synapgrad
from synapgrad import utils, Tensor, cpu_ops
import sys; T = sys.modules["synapgrad.tensor"]
_orig = utils.is_floating_point
utils.is_floating_point = lambda a: True if a.dtype == object else _orig(a)
T.default_type__ = object
x = Tensor(symarr('x',(2,3)), requires_grad=True)
w = Tensor(symarr('w',(4,3)), requires_grad=True)
b = Tensor(symarr('b',(4,)), requires_grad=True)
y = synapgrad.linear(x, w, b)
z = (y * y).sum(dim=1)
h = z / 3.0 - x[:,0]
g = Tensor(symarr('g', h.shape))
h.backward(g)
print(x.grad.shape, w.grad.shape, b.grad.shape, type(x.grad.data[0,0]))
from symf import vjp, prove
prove('pipeline.x', x.grad.data, vjp(h.data, g.data, x.data))
prove('pipeline.w', w.grad.data, vjp(h.data, g.data, w.data))
prove('pipeline.b', b.grad.data, vjp(h.data, g.data, b.data))
s = (x*x).sum(); s.backward(); print('scalar root ok', type(s.data), x.grad.shape)
from synapgrad.optim import SGD, Adam
lr, mom, damp, wd = [S(z3.Real(n)) for n in ('lr','mom','damp','wd')]
p = Tensor(symarr('p',(2,)), requires_grad=True)
try:
    opt = SGD([p], lr=lr, momentum=mom, dampening=damp, weight_decay=wd)
    p._grad = symarr('g1',(2,)); opt.step(); print('sgd step1', z3.simplify(p.data[0].n))
    p._grad = symarr('g2',(2,)); opt.step(); print('sgd step2 ok')
except Exception as e:
    import traceback; traceback.print_exc(limit=4)
try:
    p = Tensor(symarr('p',(2,)), requires_grad=True)
    b1, b2, eps = [S(z3.Real(n)) for n in ('b1','b2','eps')]
    opt = Adam([p], lr=lr, betas=(b1,b2), eps=eps, weight_decay=wd)
    p._grad = symarr('g1',(2,)); opt.step(); print('adam step1', str(z3.simplify(p.data[0].term()))[:300])
except Exception as e:
    import traceback; traceback.print_exc(limit=4)
