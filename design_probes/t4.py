import numpy as np, z3, time, sys
from symf import *
from synapgrad import cpu_ops
shape = eval(sys.argv[1])
x = symarr('x', shape); gamma = symarr('ga', (shape[1],)); beta = symarr('be', (shape[1],)); g = symarr('g', shape)
t0 = time.time()
out, rm, rv, mean, var = cpu_ops.batch_norm_forward(x, gamma, beta, None, None, True, 0.1, 1e-5)
gx, gg, gb = cpu_ops.batch_norm_backward(g, x, gamma, beta, False, True, 1e-5, mean, var)
spec = vjp(out, g, x)
print('bn', shape, 'symexec+diff', round(time.time()-t0,2), flush=True)
prove(f'bn{shape}.gamma', gg, vjp(out, g, gamma), timeout=20000)
prove(f'bn{shape}.beta', gb, vjp(out, g, beta), timeout=20000)
prove(f'bn{shape}.x', gx, spec, timeout=int(sys.argv[2]))
