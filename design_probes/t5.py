import numpy as np, z3, time, sys
from symf import *
import symf
from synapgrad import cpu_ops
def prove2(name, impl, spec, pre=(), timeout=20000):
    t = time.time(); n = 0; res = {}
    for k in np.ndindex(*spec.shape):
        a = S.of(impl[k]); b = spec[k]
        s = z3.Solver(); s.set('timeout', timeout)
        s.add(*pre); s.add(a.n * b.d != b.n * a.d); r = s.check(); n += 1
        res[str(r)] = res.get(str(r), 0) + 1
        if r == z3.sat and res['sat'] == 1:
            m = s.model(); print('   cex', k, {str(d): m[d] for d in m.decls() if d.arity()==0})
    print(f"{name}: {n} obligations {res} {time.time()-t:.2f}s", flush=True)
# eval-mode BN
shape=(2,2)
x = symarr('x', shape); gamma = symarr('ga', (2,)); beta = symarr('be', (2,)); g = symarr('g', shape)
rm = symarr('rm',(2,)); rv = symarr('rv',(2,))
out, _, _, mean, var = cpu_ops.batch_norm_forward(x, gamma, beta, rm, rv, False, 0.1, 1e-5)
gx, gg, gb = cpu_ops.batch_norm_backward(g, x, gamma, beta, True, False, 1e-5, mean, var)
pre = [v.n > 0 for v in rv]
sq = [SQRT(v.n + z3.RealVal(str(Fraction(1e-5)))) for v in rv]
pre += [q > 0 for q in sq]
prove2('bn-eval.x', gx, vjp(out, g, x), pre)
prove2('bn-eval.gamma', gg, vjp(out, g, gamma), pre)
# training BN with mutated backward (drop /n term)
out, rm_, rv_, mean, var = cpu_ops.batch_norm_forward(x, gamma, beta, None, None, True, 0.1, 1e-5)
gx, gg, gb = cpu_ops.batch_norm_backward(g, x, gamma, beta, False, True, 1e-5, mean, var)
gx2 = gx.copy(); gx2[0,0] = gx2[0,0] * 2
prove2('bn-train-mutant', gx2, vjp(out, g, x))
# movedim
a = symarr('a', (2,3,4)); out = cpu_ops.movedim_forward(a, 0, 2); g = symarr('g', out.shape)
ga = cpu_ops.movedim_backward(g, 0, 2)
print('movedim: operand', a.shape, 'grad', ga.shape)
a = symarr('a', (2,2,2)); out = cpu_ops.movedim_forward(a, 0, 2); g = symarr('g', out.shape)
ga = cpu_ops.movedim_backward(g, 0, 2)
prove2('movedim(0,2) cube', ga, vjp(out, g, a))
# conv2d
img = symarr('i',(1,2,3,3)); w = symarr('w',(2,2,2,2)); bi = symarr('bi',(2,))
t=time.time()
out, windows = cpu_ops.conv2d_forward(img,w,bi,(1,2),(1,0),1)
g = symarr('g', out.shape)
gi, gw, gb = cpu_ops.conv2d_backward(g,img.shape,w,bi,(1,2),(1,0),1,windows)
print('conv symexec', time.time()-t)
prove2('conv2d.x', gi, vjp(out,g,img)); prove2('conv2d.w', gw, vjp(out,g,w)); prove2('conv2d.b', gb, vjp(out,g,bi))
