"""./check --replay <file>: show a replay record and, where the record carries enough to re-run the failing case on the
current /repo tree, re-run that property's check restricted to the failing function (quick tier)."""
import json
import os
import subprocess
import sys

from .report import ROOT


def main(path):
    p = path if os.path.isabs(path) else os.path.join(ROOT, path)
    if not os.path.exists(p):
        print("no such replay file: %s" % path)
        return 3
    rec = json.load(open(p))
    print("property   : %s" % rec.get("property"))
    print("obligation : %s" % rec.get("obligation"))
    print("what       : %s" % rec.get("what"))
    print("config     : %s" % json.dumps(rec.get("config"))[:1000])
    print("reproduced : %s" % rec.get("reproduced"))
    rp = rec.get("replay") or {}
    for k in ("inputs", "actual", "expected", "native_exception", "counter_model", "native_replay", "static", "verifier_output"):
        if k in rp:
            print("%-11s: %s" % (k, json.dumps(rp[k])[:1500]))
    pid = rec.get("property")
    case = (rec.get("config") or {}).get("case") or rec.get("function")
    if pid and case and isinstance(case, str):
        print("\nre-running ./check %s --only %s on the current tree ..." % (pid, case))
        r = subprocess.run([os.path.join(ROOT, "check"), pid, "--tier", "quick", "--only", case], cwd=ROOT)
        return r.returncode
    return 1 if rec.get("reproduced") else 2
