"""pyvc - verification-condition generation from the AST of the real source.

The function's source is re-read from /repo on every run (ast.parse of the file, selected by qualified name) and executed
symbolically path by path over z3 values.  Every path ends in an outcome  returns(v) | raises(E);  a contract
(requires / ensures over the entry state, the outcome and the exit state) is then discharged per path with z3:
                 requires and path-condition  =>  ensures
Callees are replaced by their contracts/models (modular: a caller is checked against the callee's contract, not its body).

Encoding (what of Python's semantics is assumed): int -> z3 Int (exact); float -> z3 Real (rounding ignored); bool -> z3
Bool; // and % with floor semantics; int() truncates; tuples -> fixed-length Python tuples of values or z3 Seq Int when the
length is symbolic; None / str constants as Python constants; objects as attribute maps; exceptions as outcomes.
Constructs outside the subset raise Unsupported: the function is then NOT claimed (never reported as a violation) -
except where a contract explicitly opts into `havoc` for named callees, which returns an unconstrained fresh value
(sound over-approximation under the stated frame assumption that the callee does not write tracked state).
"""
import ast
import copy
import itertools
import os

import z3

REPO = os.environ.get("VERIF_REPO", "/repo")      # /repo for every registered command; scratch worktrees only for the seeded-change matrix


class Unsupported(Exception):
    pass


# ----------------------------------------------------------------------------------------------------- values
class Obj:
    """mutable object: attribute map lives in the state's heap (so that forking copies it)"""
    _n = 0

    def __init__(self, cls, oid=None):
        Obj._n += 1
        self.cls = cls
        self.oid = oid or "%s#%d" % (cls, Obj._n)

    def __repr__(self):
        return "<%s>" % self.oid


class Opaque:
    """a value the executor does not interpret (result of a havoc'ed call, a string expression, a lambda ...)"""
    _n = 0

    def __init__(self, label=""):
        Opaque._n += 1
        self.label = "%s$%d" % (label, Opaque._n)
        self.truth = z3.Bool("truth(%s)" % self.label)

    def __repr__(self):
        return "<opaque %s>" % self.label


UNBOUND = object()      # a local that exists in the function but has not been assigned on this path (e.g. the target of a loop that did not iterate)


class LoopContract:
    """sidecar contract of one `for` loop (see Executor._for_with_contract)"""

    def __init__(self, name, count, inv, havoc, bind, frame=(), after=None):
        self.name = name
        self.count = count          # state -> z3 Int: number of iterations (>= 0)
        self.inv = inv              # (state, k) -> [(label, z3 Bool)]: invariant after k iterations, over ghost state / heap attributes
        self.havoc = havoc          # (state, k) -> None: overwrite every location the body may change with fresh symbols
        self.bind = bind            # (state, k) -> value bound to the loop target in iteration k
        self.frame = tuple(frame)   # prefixes of glob keys / "oid.attr" heap locations the body may change
        self.after = after or (lambda state, n: None)

    def in_frame(self, loc):
        return any(loc == f or loc.startswith(f) for f in self.frame)


class Closure:
    def __init__(self, node, env):
        self.node = node
        self.env = env


class Raised:
    def __init__(self, exc, msg=None):
        self.exc = exc
        self.msg = msg

    def __repr__(self):
        return "raises(%s)" % self.exc


class Returned:
    def __init__(self, value):
        self.value = value

    def __repr__(self):
        return "returns(%r)" % (self.value,)


def is_z3(v):
    return isinstance(v, z3.ExprRef)


def is_int(v):
    return (isinstance(v, int) and not isinstance(v, bool)) or (is_z3(v) and z3.is_int(v))


def is_real(v):
    return isinstance(v, float) or (is_z3(v) and z3.is_real(v))


def is_bool(v):
    return isinstance(v, bool) or (is_z3(v) and z3.is_bool(v))


def is_seq(v):
    return is_z3(v) and z3.is_seq(v)


def to_z3(v):
    if is_z3(v):
        return v
    if isinstance(v, bool):
        return z3.BoolVal(v)
    if isinstance(v, int):
        return z3.IntVal(v)
    if isinstance(v, float):
        from fractions import Fraction
        return z3.RealVal(str(Fraction(v)))
    raise Unsupported("cannot lift %r to z3" % (v,))


def py_floordiv(a, b):
    a, b = to_z3(a), to_z3(b)
    if z3.is_int(a) and z3.is_int(b):
        return z3.If(b > 0, a / b, (-a) / (-b))
    q = z3.ToReal(z3.ToInt(z3.ToReal(a) / z3.ToReal(b)) if False else z3.ToInt(_real(a) / _real(b)))
    return q


def py_mod(a, b):
    a, b = to_z3(a), to_z3(b)
    if z3.is_int(a) and z3.is_int(b):
        return a - b * py_floordiv(a, b)
    raise Unsupported("float modulo")


def _real(x):
    x = to_z3(x)
    return z3.ToReal(x) if z3.is_int(x) else x


def py_int(x):
    """int(): truncation toward zero"""
    if isinstance(x, (int, float)) and not is_z3(x):
        return int(x)
    x = to_z3(x)
    if z3.is_int(x):
        return x
    return z3.If(x >= 0, z3.ToInt(x), -z3.ToInt(-x))


def py_floor(x):
    x = to_z3(x)
    if z3.is_int(x):
        return x
    return z3.ToInt(x)


# ----------------------------------------------------------------------------------------------------- state
class State:
    def __init__(self):
        self.env = {}
        self.glob = {}
        self.heap = {}          # oid -> {attr: value}
        self.pc = []
        self.notes = []
        self.global_names = set()

    def fork(self):
        s = State()
        s.env = dict(self.env)
        s.glob = dict(self.glob)
        s.heap = {k: dict(v) for k, v in self.heap.items()}
        s.pc = list(self.pc)
        s.notes = list(self.notes)
        s.global_names = set(self.global_names)
        return s

    def attrs(self, obj):
        return self.heap.setdefault(obj.oid, {})


class Executor:
    def __init__(self, models=None, attr_models=None, class_models=None, havoc=(), max_paths=4000, timeout_ms=10000):
        self.models = models or {}              # dotted callee name -> fn(ex, state, args, kwargs) -> value | [(state, value|Raised)]
        self.attr_models = attr_models or {}    # (cls, attr) -> fn(ex, state, obj) -> value      (properties)
        self.setattr_models = {}                # (cls, attr) -> fn(ex, state, obj, value) -> None | Raised   (property setters)
        self.class_models = class_models or {}
        self.havoc = set(havoc)
        self.max_paths = max_paths
        self.timeout_ms = timeout_ms
        self.solver_calls = 0
        self.paths = 0
        self.havocs_used = []

    # ------------------------------------------------------------------------------------------ feasibility
    def feasible(self, state, cond):
        if isinstance(cond, bool):
            return cond
        c = z3.simplify(cond)
        if z3.is_true(c):
            return True
        if z3.is_false(c):
            return False
        s = z3.Solver()
        s.set("timeout", self.timeout_ms)
        s.add(*state.pc)
        s.add(c)
        self.solver_calls += 1
        return s.check() != z3.unsat

    def sat(self, state):
        """is the path condition of this state satisfiable?"""
        sv = z3.Solver()
        sv.set("timeout", self.timeout_ms)
        sv.add(*[to_z3(c) for c in state.pc])
        self.solver_calls += 1
        return sv.check() != z3.unsat

    def truth(self, state, v):
        """z3 Bool (or python bool) for the truthiness of v"""
        if isinstance(v, bool):
            return v
        if v is None:
            return False
        if is_z3(v):
            if z3.is_bool(v):
                return v
            if z3.is_int(v) or z3.is_real(v):
                return v != 0
            if z3.is_seq(v):
                return z3.Length(v) > 0
        if isinstance(v, (int, float)):
            return v != 0
        if isinstance(v, str):
            return len(v) > 0
        if isinstance(v, (tuple, list)):
            return len(v) > 0
        if isinstance(v, Opaque):
            return v.truth
        if isinstance(v, Obj):
            m = self.attr_models.get((v.cls, "__bool__"))
            if m is not None:
                return self.truth(state, m(self, state, v))
            if v.cls in getattr(self, "foreign_classes", ()):
                # an object of a class the CALLER supplies (a transform, a callback, a loss ...): it may define __bool__ / __len__ as it likes, so its
                # truthiness is unconstrained; only `is None` / `is not None` tests are decided for it
                return z3.Bool("truth(%s)" % v.oid)
            return True
        if isinstance(v, Closure):
            return True
        raise Unsupported("truthiness of %r" % (v,))

    def branch(self, state, cond):
        """split a state on a condition; returns [(state, bool)] for the feasible sides"""
        c = self.truth(state, cond)
        if isinstance(c, bool):
            return [(state, c)]
        out = []
        ft = self.feasible(state, c)
        ff = self.feasible(state, z3.Not(c))
        if ft and ff:
            s2 = state.fork()
            state.pc.append(c)
            s2.pc.append(z3.Not(c))
            return [(state, True), (s2, False)]
        if ft:
            state.pc.append(c)
            return [(state, True)]
        if ff:
            state.pc.append(z3.Not(c))
            return [(state, False)]
        return []

    # ------------------------------------------------------------------------------------------ statements
    def exec_block(self, stmts, state):
        """returns list of (state, outcome) with outcome None | Returned | Raised | 'break' | 'continue'"""
        live = [(state, None)]
        for st in stmts:
            nxt = []
            for s, out in live:
                if out is not None:
                    nxt.append((s, out))
                    continue
                nxt.extend(self.exec_stmt(st, s))
            live = nxt
            if len(live) > self.max_paths:
                raise Unsupported("path explosion")
        return live

    def exec_stmt(self, st, state):
        m = getattr(self, "st_" + type(st).__name__, None)
        if m is None:
            raise Unsupported("statement %s (line %d)" % (type(st).__name__, st.lineno))
        return m(st, state)

    def st_Pass(self, st, state):
        return [(state, None)]

    def st_While(self, st, state):
        """`while` loops are outside the subset unless the target supplies a SUMMARY for them (sidecar keyed by the source text of the test): a function that overwrites the
        state with the loop's total effect.  A summary is an assumption about the loop, not a proof of it -- every use is recorded in self.assumed_summaries and reported."""
        text = ast.unparse(st.test)
        ws = getattr(self, "while_summaries", {})
        sm = ws.get(text) or next((v for k, v in ws.items() if hasattr(k, "fullmatch") and k.fullmatch(text)), None)
        if sm is None:
            raise Unsupported("while loop (line %d); needs a summary" % st.lineno)
        if not hasattr(self, "assumed_summaries"):
            self.assumed_summaries = []
        self.assumed_summaries.append("while %s (line %d)" % (ast.unparse(st.test), st.lineno))
        # every name the loop body binds (assignment targets, loop variables, lists it appends to) is unknown afterwards; the summary adds what IS known
        names = set()
        for n_ in ast.walk(st):
            if isinstance(n_, ast.Name) and isinstance(n_.ctx, ast.Store):
                names.add(n_.id)
            if isinstance(n_, ast.Call) and isinstance(n_.func, ast.Attribute) and n_.func.attr in ("append", "add", "pop", "extend", "update") and isinstance(n_.func.value, ast.Name):
                names.add(n_.func.value.id)
        for nm in sorted(names):
            state.env[nm] = Opaque("after-while:%s" % nm)
        r = sm(self, state)
        return r if isinstance(r, list) else [(state, None)]

    def st_Delete(self, st, state):
        out = [(state, None)]
        for t in st.targets:
            nxt = []
            for s, o in out:
                if o is not None:
                    nxt.append((s, o))
                    continue
                if isinstance(t, ast.Name):
                    s.env[t.id] = UNBOUND
                    nxt.append((s, None))
                elif isinstance(t, ast.Attribute):
                    for s2, ob in self.eval(t.value, s):
                        if isinstance(ob, Raised):
                            nxt.append((s2, ob))
                        elif isinstance(ob, Obj):
                            dm = getattr(self, "delattr_models", {}).get((ob.cls, t.attr))
                            if dm is not None:
                                dm(self, s2, ob)
                            else:
                                s2.attrs(ob).pop(t.attr, None)
                            nxt.append((s2, None))
                        else:
                            raise Unsupported("del of an attribute of %r (line %d)" % (ob, st.lineno))
                else:
                    raise Unsupported("del target %s (line %d)" % (type(t).__name__, st.lineno))
            out = nxt
        return out

    def st_Global(self, st, state):
        state.global_names.update(st.names)
        return [(state, None)]

    st_Nonlocal = st_Global

    def st_Import(self, st, state):
        return [(state, None)]

    st_ImportFrom = st_Import

    def st_FunctionDef(self, st, state):
        state.env[st.name] = Closure(st, state.env)
        return [(state, None)]

    def st_Expr(self, st, state):
        if isinstance(st.value, ast.Constant):
            return [(state, None)]
        return [(s, v if isinstance(v, Raised) else None) for s, v in self.eval(st.value, state)]

    def st_Return(self, st, state):
        if st.value is None:
            return [(state, Returned(None))]
        return [(s, v if isinstance(v, Raised) else Returned(v)) for s, v in self.eval(st.value, state)]

    def st_Raise(self, st, state):
        name = "Exception"
        e = st.exc
        if isinstance(e, ast.Call):
            e = e.func
        if isinstance(e, ast.Name):
            name = e.id
        elif isinstance(e, ast.Attribute):
            name = e.attr
        return [(state, Raised(name))]

    def st_Assert(self, st, state):
        out = []
        for s, v in self.eval(st.test, state):
            if isinstance(v, Raised):
                out.append((s, v))
                continue
            for s2, b in self.branch(s, v):
                out.append((s2, None if b else Raised("AssertionError")))
        return out

    def st_If(self, st, state):
        out = []
        for s, v in self.eval(st.test, state):
            if isinstance(v, Raised):
                out.append((s, v))
                continue
            for s2, b in self.branch(s, v):
                out.extend(self.exec_block(st.body if b else st.orelse, s2))
        return out

    def st_Assign(self, st, state):
        out = []
        for s, v in self.eval(st.value, state):
            if isinstance(v, Raised):
                out.append((s, v))
                continue
            res = [(s, None)]
            for t in st.targets:
                nxt = []
                for s2, o in res:
                    if o is not None:
                        nxt.append((s2, o))
                    else:
                        nxt.extend(self.assign(t, v, s2))
                res = nxt
            out.extend(res)
        return out

    def st_AnnAssign(self, st, state):
        if st.value is None:
            return [(state, None)]
        out = []
        for s, v in self.eval(st.value, state):
            out.extend([(s, v)] if isinstance(v, Raised) else self.assign(st.target, v, s))
        return out

    def st_AugAssign(self, st, state):
        load = copy.copy(st.target)
        load.ctx = ast.Load()
        expr = ast.BinOp(left=load, op=st.op, right=st.value)
        ast.copy_location(expr, st)
        out = []
        for s, v in self.eval(expr, state):
            out.extend([(s, v)] if isinstance(v, Raised) else self.assign(st.target, v, s))
        return out

    def assign(self, target, value, state):
        if isinstance(target, ast.Name):
            if target.id in state.global_names:
                state.glob[target.id] = value
            else:
                state.env[target.id] = value
            return [(state, None)]
        if isinstance(target, ast.Attribute):
            out = []
            for s, o in self.eval(target.value, state):
                if isinstance(o, Raised):
                    out.append((s, o))
                    continue
                if isinstance(o, Obj):
                    sm = self.setattr_models.get((o.cls, target.attr))
                    if sm is not None:
                        r = sm(self, s, o, value)
                        if isinstance(r, list):
                            out.extend(r)
                        else:
                            out.append((s, r))
                    else:
                        s.attrs(o)[target.attr] = value
                        out.append((s, None))
                elif isinstance(o, Opaque):
                    s.notes.append("write to attribute of opaque value ignored: %s" % target.attr)
                    out.append((s, None))
                elif o is None:
                    out.append((s, Raised("AttributeError")))
                else:
                    raise Unsupported("attribute assignment on %r" % (o,))
            return out
        if isinstance(target, ast.Subscript) and not isinstance(target.slice, ast.Slice):
            # container[key] = value on a modelled object: dispatched to the container's __setitem__ contract
            out = []
            for s, o in self.eval(target.value, state):
                if isinstance(o, Raised):
                    out.append((s, o))
                    continue
                for s2, k in self.eval(target.slice, s):
                    if isinstance(k, Raised):
                        out.append((s2, k))
                    elif isinstance(o, Obj) and ("%s.__setitem__" % o.cls) in self.models:
                        r = self.models["%s.__setitem__" % o.cls](self, s2, [o, k, value], {})
                        out.extend([(s3, v if isinstance(v, Raised) else None) for s3, v in (r if isinstance(r, list) else [(s2, r)])])
                    else:
                        raise Unsupported("subscript assignment on %r" % (o,))
            return out
        if isinstance(target, ast.Starred):
            return self.assign(target.value, value, state)
        if isinstance(target, (ast.Tuple, ast.List)):
            if isinstance(value, Opaque):
                vals = [Opaque(value.label + "[%d]" % i) for i in range(len(target.elts))]
            elif any(isinstance(t, ast.Starred) for t in target.elts):
                raise Unsupported("starred unpacking of a concrete value")
            else:
                vals = self.as_tuple(value, len(target.elts))
            res = [(state, None)]
            for t, v in zip(target.elts, vals):
                nxt = []
                for s2, o in res:
                    nxt.extend([(s2, o)] if o is not None else self.assign(t, v, s2))
                res = nxt
            return res
        raise Unsupported("assignment target %s" % type(target).__name__)

    def as_tuple(self, value, n=None):
        if isinstance(value, (tuple, list)):
            if n is not None and len(value) != n:
                raise Unsupported("unpack length mismatch")
            return list(value)
        if is_seq(value) and n is not None:
            return [value[i] for i in range(n)]
        raise Unsupported("cannot unpack %r" % (value,))

    def st_For(self, st, state):
        out = []
        if self._loop_contract_for(st) is not None:         # the iterable is described by the contract (count / bind), it is not evaluated
            return self._for_with_contract(st, state, None, self._loop_contract_for(st))
        for s, it in self.eval(st.iter, state):
            if isinstance(it, Raised):
                out.append((s, it))
                continue
            if isinstance(it, (tuple, list)):
                items = list(it)
            elif isinstance(it, range):
                items = list(it)
            elif is_seq(it):
                # a sequence whose length is provably bounded on this path: complete case split on the length (no invariant needed)
                n_ = z3.Length(it)
                bound = next((b for b in range(0, 9) if not self.feasible(s, n_ > b)), None)
                if bound is None:
                    raise Unsupported("for over a sequence of unbounded length (line %d); needs an invariant" % st.lineno)
                for L in range(bound + 1):
                    if not self.feasible(s, n_ == L):
                        continue
                    sL = s.fork()
                    sL.pc.append(n_ == L)
                    out.extend(self._for_items(st, sL, [it[i] for i in range(L)]))
                continue
            elif self._loop_contract_for(st) is not None:
                out.extend(self._for_with_contract(st, s, it, self._loop_contract_for(st)))
                continue
            elif isinstance(it, Opaque) and getattr(it, "contract", None) is not None:
                out.extend(self._for_with_contract(st, s, it, it.contract))
                continue
            elif isinstance(it, Opaque) and self._loop_is_local_arithmetic(st):
                # an unknown number of iterations of a body that only re-assigns local names with call-free expressions: its whole effect is
                # over-approximated by havoc'ing those names (sound: nothing else can change), no invariant needed
                names = {t.id for n_ in ast.walk(st) for t in ([n_.target] if isinstance(n_, (ast.AugAssign, ast.For)) else (n_.targets if isinstance(n_, ast.Assign) else []))
                         if isinstance(t, ast.Name)}
                names |= {b_.value.func.value.id for b_ in st.body if isinstance(b_, ast.Expr) and isinstance(b_.value, ast.Call) and isinstance(b_.value.func, ast.Attribute)
                          and b_.value.func.attr == "append" and isinstance(b_.value.func.value, ast.Name)}
                for nm in sorted(names):
                    s.env[nm] = Opaque("loop:%s@%d" % (nm, st.lineno))
                out.append((s, None))
                continue
            else:
                raise Unsupported("for over non-concrete iterable (line %d); needs an invariant" % st.lineno)
            out.extend(self._for_items(st, s, items))
        return out

    # ---- loops under contract (sidecar: keyed by the source text of the iterable, e.g. "enumerate(train_loader)")
    def _loop_contract_for(self, st):
        """sidecar lookup: the key is the source text of the iterable, or a compiled regular expression matched against it (so that renaming a local does not lose the contract)"""
        lc = getattr(self, "loop_contracts", None)
        if not lc:
            return None
        text = ast.unparse(st.iter)
        if text in lc:
            return lc[text]
        for k, v in lc.items():
            if hasattr(k, "fullmatch") and k.fullmatch(text):
                return v
        return None

    def _for_with_contract(self, st, s, it, c):
        """Hoare rule for  `for target in iterable: body`  with an inductive invariant over ghost state:
             (1) inv(0) on entry;  (2) havoc the frame, assume 0 <= k < n and inv(k), bind the target, run the body ONCE, show inv(k+1) on every normal exit
             (return / raise paths leave the loop as they are);  (3) continue after the loop: unchanged state if n == 0, else a havoc'ed state with inv(n).
           Verification conditions (path condition folded in) are collected in self.vcs; the harness discharges them with the target's own clauses.
           Frame check: whatever the body changes in glob / heap beyond the declared frame makes the run leave the subset."""
        if not hasattr(self, "vcs"):
            self.vcs = []
        c.node = st                 # the contract may look at the loop it is attached to (which locals it assigns, under which tests) instead of naming them
        try:
            return self._for_with_contract_checked(st, s, it, c)
        except (KeyError, AttributeError, IndexError, TypeError) as e:
            # the sidecar contract does not fit the loop as it is written now (a local it speaks about is gone): the function is no longer under THIS contract -- undecided
            raise Unsupported("the loop contract '%s' does not fit the loop at line %d any more (%s: %s)" % (c.name, st.lineno, type(e).__name__, e))

    def _for_with_contract_checked(self, st, s, it, c):
        n = c.count(s)
        conj = lambda pc: z3.And(*[to_z3(x) for x in pc]) if pc else z3.BoolVal(True)
        for nm, g in c.inv(s, z3.IntVal(0)):
            self.vcs.append(("%s.holds_on_entry[%s]" % (c.name, nm), z3.Implies(conj(s.pc), to_z3(g))))
        names = {t.id for n_ in ast.walk(st) for t in ([n_.target] if isinstance(n_, (ast.AugAssign, ast.For)) else (n_.targets if isinstance(n_, ast.Assign) else [])) if isinstance(t, ast.Name)}
        names |= {n_.id for n_ in ast.walk(st.target) if isinstance(n_, ast.Name)}
        same = lambda x, y: x is y or (is_z3(x) and is_z3(y) and x.eq(y))
        out = []
        # (2) an arbitrary iteration
        self._loop_n = getattr(self, "_loop_n", 0) + 1
        k = z3.Int("%s$k%d" % (c.name, self._loop_n))
        b = s.fork()
        b.pc += [k >= 0, k < n]
        for nm in sorted(names):
            if nm in b.env:
                b.env[nm] = Opaque("loop:%s" % nm)
        c.havoc(b, k)
        b.pc += [to_z3(g) for _, g in c.inv(b, k)]
        if self.sat(b):
            snap_glob = dict(b.glob)
            snap_heap = {oid: dict(at) for oid, at in b.heap.items()}
            for b1, o1 in self.assign(st.target, c.bind(b, k), b):
                if o1 is not None:
                    out.append((b1, o1))
                    continue
                for b2, o2 in self.exec_block(st.body, b1):
                    if isinstance(o2, (Returned, Raised)):
                        out.append((b2, o2))
                        continue
                    if o2 == "break":
                        raise Unsupported("break inside a loop under contract (line %d)" % st.lineno)
                    changed = [kk for kk, vv in b2.glob.items() if kk in snap_glob and not same(vv, snap_glob[kk])] + [kk for kk in b2.glob if kk not in snap_glob]
                    changed += ["%s.%s" % (oid, a_) for oid, at in b2.heap.items() for a_, vv in at.items() if oid in snap_heap and (a_ not in snap_heap[oid] or not same(vv, snap_heap[oid][a_]))]
                    outside = [x for x in changed if not c.in_frame(x)]
                    if outside:
                        raise Unsupported("loop body changes %s, which the loop contract's frame does not cover (line %d)" % (outside[:4], st.lineno))
                    for nm, g in c.inv(b2, k + 1):
                        self.vcs.append(("%s.preserved[%s]" % (c.name, nm), z3.Implies(conj(b2.pc), to_z3(g))))
        # (3) after the loop
        zero = s.fork()
        zero.pc.append(n == 0)
        for nm in names:
            if nm not in zero.env:
                zero.env[nm] = UNBOUND
        if self.sat(zero):
            out.append((zero, None))            # no iteration: nothing changed, loop variables stay as they were (possibly unbound)
        s.pc.append(n > 0)
        if self.sat(s):
            for nm in sorted(names):
                s.env[nm] = Opaque("loop:%s" % nm)
            c.havoc(s, n)
            s.pc += [to_z3(g) for _, g in c.inv(s, n)]
            c.after(s, n)
            out.append((s, None))
        return out

    @staticmethod
    def _loop_is_local_arithmetic(st):
        if st.orelse or not isinstance(st.target, ast.Name):
            return False
        # `xs.append(<call-free expression or attribute/method of the loop variable>)` on a local list counts as re-assigning xs
        body = []
        for b_ in st.body:
            if (isinstance(b_, ast.Expr) and isinstance(b_.value, ast.Call) and isinstance(b_.value.func, ast.Attribute) and b_.value.func.attr == "append"
                    and isinstance(b_.value.func.value, ast.Name) and len(b_.value.args) == 1 and not b_.value.keywords):
                arg = b_.value.args[0]
                ok_arg = isinstance(arg, ast.Name) or (isinstance(arg, ast.Call) and isinstance(arg.func, ast.Attribute) and isinstance(arg.func.value, ast.Name)
                                                       and arg.func.value.id == st.target.id and not arg.args and not arg.keywords)
                if not ok_arg:
                    return False
                body.append(ast.Assign(targets=[ast.Name(id=b_.value.func.value.id, ctx=ast.Store())], value=ast.Constant(value=None)))
            else:
                body.append(b_)
        for n_ in ast.walk(ast.Module(body=body, type_ignores=[])):
            if isinstance(n_, (ast.Call, ast.Attribute, ast.Subscript, ast.Return, ast.Raise, ast.Break, ast.Continue, ast.While, ast.With, ast.Try, ast.Global, ast.Nonlocal,
                               ast.Yield, ast.YieldFrom, ast.Await, ast.Lambda, ast.FunctionDef, ast.ClassDef, ast.Delete, ast.Import, ast.ImportFrom, ast.NamedExpr)):
                return False
            if isinstance(n_, (ast.Assign, ast.AugAssign)):
                tg = n_.targets if isinstance(n_, ast.Assign) else [n_.target]
                if not all(isinstance(t, ast.Name) for t in tg):
                    return False
        return True

    def _for_items(self, st, s, items):
        if True:
            out = []
            live = [(s, None)]
            for item in items:
                nxt = []
                for s2, o in live:
                    if o is not None:
                        nxt.append((s2, o))
                        continue
                    for s3, o3 in self.assign(st.target, item, s2):
                        if o3 is not None:
                            nxt.append((s3, o3))
                            continue
                        for s4, o4 in self.exec_block(st.body, s3):
                            if o4 == "continue":
                                o4 = None
                            nxt.append((s4, o4))
                live = nxt
            fin = []
            for s2, o in live:
                if o == "break":
                    fin.append((s2, None))
                elif o is None and st.orelse:
                    fin.extend(self.exec_block(st.orelse, s2))
                else:
                    fin.append((s2, o))
            out.extend(fin)
        return out

    def st_Break(self, st, state):
        return [(state, "break")]

    def st_Continue(self, st, state):
        return [(state, "continue")]

    def st_With(self, st, state):
        # context managers under contract: enter; body; exit (normal and exceptional)
        if len(st.items) != 1:
            raise Unsupported("with: several items")
        item = st.items[0]
        out = []
        for s, cm in self.eval(item.context_expr, state):
            if isinstance(cm, Raised):
                out.append((s, cm))
                continue
            for s1, ev in self.call_method(cm, "__enter__", [], {}, s):
                if isinstance(ev, Raised):
                    out.append((s1, ev))
                    continue
                if item.optional_vars is not None:
                    res = self.assign(item.optional_vars, ev, s1)
                else:
                    res = [(s1, None)]
                for s2, o in res:
                    for s3, o3 in self.exec_block(st.body, s2):
                        for s4, xv in self.call_method(cm, "__exit__", [None, None, None], {}, s3):
                            out.append((s4, xv if isinstance(xv, Raised) else o3))
        return out

    # ----------------------------------------------------------------------------------------- expressions
    def eval(self, e, state):
        """returns list of (state, value | Raised)"""
        m = getattr(self, "ex_" + type(e).__name__, None)
        if m is None:
            raise Unsupported("expression %s (line %d)" % (type(e).__name__, getattr(e, "lineno", 0)))
        return m(e, state)

    def eval_many(self, exprs, state):
        """evaluate a list of expressions left to right; returns [(state, [values]) | (state, Raised)]"""
        res = [(state, [])]
        for e in exprs:
            nxt = []
            for s, vals in res:
                if isinstance(vals, Raised):
                    nxt.append((s, vals))
                    continue
                for s2, v in self.eval(e, s):
                    nxt.append((s2, v if isinstance(v, Raised) else vals + [v]))
            res = nxt
        return res

    def ex_Constant(self, e, state):
        return [(state, e.value)]

    def ex_JoinedStr(self, e, state):
        return [(state, Opaque("str"))]

    def ex_Name(self, e, state):
        n = e.id
        if state.env.get(n, None) is UNBOUND:
            return [(state, Raised("UnboundLocalError", n))]
        if n in state.global_names and n in state.glob:
            return [(state, state.glob[n])]
        if n in state.env:
            return [(state, state.env[n])]
        if n in state.glob:
            return [(state, state.glob[n])]
        if n in ("True", "False", "None"):
            return [(state, {"True": True, "False": False, "None": None}[n])]
        return [(state, ("builtin", n))]

    def ex_Tuple(self, e, state):
        out = []
        for s, vals in self.eval_many(e.elts, state):
            out.append((s, vals if isinstance(vals, Raised) else tuple(vals)))
        return out

    def ex_List(self, e, state):
        out = []
        for s, vals in self.eval_many(e.elts, state):
            out.append((s, vals if isinstance(vals, Raised) else list(vals)))
        return out

    def ex_Set(self, e, state):
        # set displays are not interpreted (membership and iteration over them stay outside the subset): the elements are evaluated for their effects
        out = []
        for s, vals in self.eval_many(e.elts, state):
            out.append((s, vals if isinstance(vals, Raised) else Opaque("set")))
        return out

    def ex_Dict(self, e, state):
        # dictionaries are not interpreted: a fresh object (so that identity / "is the returned history the stored one" can be stated), its content stays abstract
        return [(state, Obj("dict"))]

    def ex_Lambda(self, e, state):
        return [(state, Opaque("lambda"))]

    def ex_IfExp(self, e, state):
        out = []
        for s, c in self.eval(e.test, state):
            if isinstance(c, Raised):
                out.append((s, c))
                continue
            for s2, b in self.branch(s, c):
                out.extend(self.eval(e.body if b else e.orelse, s2))
        return out

    def ex_UnaryOp(self, e, state):
        out = []
        for s, v in self.eval(e.operand, state):
            if isinstance(v, Raised):
                out.append((s, v))
            elif isinstance(e.op, ast.Not):
                t = self.truth(s, v)
                out.append((s, (not t) if isinstance(t, bool) else z3.Not(t)))
            elif isinstance(e.op, ast.USub):
                out.append((s, -v if not isinstance(v, Opaque) else Opaque("neg")))
            elif isinstance(e.op, ast.UAdd):
                out.append((s, v))
            else:
                raise Unsupported("unary op")
        return out

    def ex_BoolOp(self, e, state):
        # value semantics for boolean-typed operands; short-circuit evaluation order is respected by forking
        is_and = isinstance(e.op, ast.And)
        res = []

        def rec(i, s, acc):
            if i == len(e.values):
                res.append((s, acc))
                return
            for s2, v in self.eval(e.values[i], s):
                if isinstance(v, Raised):
                    res.append((s2, v))
                    continue
                if i == len(e.values) - 1:
                    res.append((s2, v))
                    continue
                for s3, b in self.branch(s2, v):
                    if (is_and and not b) or (not is_and and b):
                        res.append((s3, v if not is_z3(v) or not z3.is_bool(v) else b))
                    else:
                        rec(i + 1, s3, None)
        rec(0, state, None)
        return res

    def ex_Compare(self, e, state):
        out = []
        for s, vals in self.eval_many([e.left] + list(e.comparators), state):
            if isinstance(vals, Raised):
                out.append((s, vals))
                continue
            conj = []
            for op, a, b in zip(e.ops, vals[:-1], vals[1:]):
                conj.append(self.compare(op, a, b, s))
            if all(isinstance(c, bool) for c in conj):
                out.append((s, all(conj)))
            else:
                zs = [to_z3(c) for c in conj]
                out.append((s, zs[0] if len(zs) == 1 else z3.And(*zs)))
        return out

    def compare(self, op, a, b, state):
        if isinstance(op, (ast.Is, ast.IsNot)):
            if a is None or b is None:
                other = b if a is None else a
                if isinstance(other, Opaque):
                    r = z3.Bool("isnone(%s)" % other.label)
                elif is_z3(other) and hasattr(other, "_maybe_none"):
                    r = other._maybe_none
                else:
                    r = other is None
            elif isinstance(a, Obj) and isinstance(b, Obj):
                # an object bound by a loop contract may stand for "some element of the sequence", possibly a known object: its contract then carries a symbolic identity table
                tab = state.attrs(a).get("__is__") or {}
                tab2 = state.attrs(b).get("__is__") or {}
                r = tab[b.oid] if b.oid in tab else (tab2[a.oid] if a.oid in tab2 else a.oid == b.oid)
            elif isinstance(a, Opaque) and isinstance(b, Opaque):
                # two uninterpreted values (e.g. an array returned by a havoc'ed kernel and an operand's array): whether they are the same object is unknown
                r = True if a is b else z3.Bool("same_object(%s,%s)" % tuple(sorted((a.label, b.label))))
            elif isinstance(a, bool) and isinstance(b, bool):
                r = a is b
            elif is_bool(a) and is_bool(b):
                r = to_z3(a) == to_z3(b)
            else:
                r = a is b
            if isinstance(op, ast.IsNot):
                return (not r) if isinstance(r, bool) else z3.Not(r)
            return r
        if isinstance(op, (ast.In, ast.NotIn)):
            if isinstance(b, tuple) and len(b) == 2 and b[0] == "objdict" and isinstance(b[1], Obj) and isinstance(a, str):
                r = a in state.attrs(b[1])           # 'attr' in obj.__dict__
            elif isinstance(b, (tuple, list, range)):
                cs = [self.compare(ast.Eq(), a, x, state) for x in b]
                if all(isinstance(c, bool) for c in cs):
                    r = any(cs)
                else:
                    r = z3.Or(*[to_z3(c) for c in cs]) if cs else False
            elif is_seq(b):
                r = z3.Contains(b, z3.Unit(to_z3(a)))
            else:
                raise Unsupported("in on %r" % (b,))
            if isinstance(op, ast.NotIn):
                return (not r) if isinstance(r, bool) else z3.Not(r)
            return r
        if isinstance(a, Opaque) or isinstance(b, Opaque):
            return z3.Bool("cmp$%d" % id(op)) if False else Opaque("cmp").truth
        if isinstance(op, (ast.Eq, ast.NotEq)):
            if isinstance(a, str) or isinstance(b, str) or a is None or b is None:
                if is_z3(a) or is_z3(b):
                    r = False
                else:
                    r = a == b
            elif isinstance(a, (tuple, list)) and isinstance(b, (tuple, list)):
                if len(a) != len(b):
                    r = False
                else:
                    cs = [self.compare(ast.Eq(), x, y, state) for x, y in zip(a, b)]
                    r = all(cs) if all(isinstance(c, bool) for c in cs) else z3.And(*[to_z3(c) for c in cs])
            elif isinstance(a, Obj) or isinstance(b, Obj):
                r = isinstance(a, Obj) and isinstance(b, Obj) and a.oid == b.oid
            elif is_z3(a) or is_z3(b):
                za, zb = to_z3(a), to_z3(b)
                if z3.is_bool(za) != z3.is_bool(zb):
                    za = z3.If(za, 1, 0) if z3.is_bool(za) else za
                    zb = z3.If(zb, 1, 0) if z3.is_bool(zb) else zb
                if z3.is_int(za) and z3.is_real(zb):
                    za = z3.ToReal(za)
                if z3.is_real(za) and z3.is_int(zb):
                    zb = z3.ToReal(zb)
                r = za == zb
            else:
                r = a == b
            if isinstance(op, ast.NotEq):
                return (not r) if isinstance(r, bool) else z3.Not(r)
            return r
        fn = {ast.Lt: lambda x, y: x < y, ast.LtE: lambda x, y: x <= y, ast.Gt: lambda x, y: x > y, ast.GtE: lambda x, y: x >= y}[type(op)]
        if is_z3(a) or is_z3(b):
            za, zb = to_z3(a), to_z3(b)
            if z3.is_int(za) and z3.is_real(zb):
                za = z3.ToReal(za)
            if z3.is_real(za) and z3.is_int(zb):
                zb = z3.ToReal(zb)
            return fn(za, zb)
        return fn(a, b)

    def ex_BinOp(self, e, state):
        out = []
        for s, vals in self.eval_many([e.left, e.right], state):
            if isinstance(vals, Raised):
                out.append((s, vals))
                continue
            a, b = vals
            out.extend(self.binop(e.op, a, b, s, e))
        return out

    def binop(self, op, a, b, s, node=None):
        if isinstance(a, Obj) or isinstance(b, Obj):
            nm = {ast.Add: "add", ast.Sub: "sub", ast.Mult: "mul", ast.Div: "truediv", ast.MatMult: "matmul", ast.Pow: "pow"}.get(type(op))
            for x, y, meth in ((a, b, "__%s__" % nm), (b, a, "__r%s__" % nm)):
                if nm and isinstance(x, Obj) and ("%s.%s" % (x.cls, meth)) in self.models:
                    r = self.models["%s.%s" % (x.cls, meth)](self, s, [x, y], {})
                    return r if isinstance(r, list) else [(s, r)]
            raise Unsupported("operator %s on %r, %r" % (type(op).__name__, a, b))
        if isinstance(a, Opaque) or isinstance(b, Opaque):
            return [(s, Opaque("binop"))]
        if isinstance(op, ast.Add) and isinstance(a, (tuple, list)) and isinstance(b, (tuple, list)):
            return [(s, type(a)(list(a) + list(b)))]
        if isinstance(op, ast.Add) and (is_seq(a) or is_seq(b)):
            sa = a if is_seq(a) else self.tuple_to_seq(a)
            sb = b if is_seq(b) else self.tuple_to_seq(b)
            return [(s, z3.Concat(sa, sb))]
        if isinstance(op, ast.Mult) and isinstance(a, (tuple, list)) and isinstance(b, int):
            return [(s, type(a)(list(a) * b))]
        if isinstance(op, ast.Add) and isinstance(a, str) and isinstance(b, str):
            return [(s, a + b)]
        if isinstance(a, str) or isinstance(b, str):
            return [(s, Opaque("str"))]
        if not (is_z3(a) or is_z3(b)):
            try:
                import operator
                fn = {ast.Add: operator.add, ast.Sub: operator.sub, ast.Mult: operator.mul, ast.Div: operator.truediv, ast.FloorDiv: operator.floordiv,
                      ast.Mod: operator.mod, ast.Pow: operator.pow}[type(op)]
                return [(s, fn(a, b))]
            except ZeroDivisionError:
                return [(s, Raised("ZeroDivisionError"))]
        za, zb = to_z3(a), to_z3(b)
        if z3.is_bool(za):
            za = z3.If(za, 1, 0)
        if z3.is_bool(zb):
            zb = z3.If(zb, 1, 0)
        if isinstance(op, ast.Add):
            return [(s, self.arith(za, zb, lambda x, y: x + y))]
        if isinstance(op, ast.Sub):
            return [(s, self.arith(za, zb, lambda x, y: x - y))]
        if isinstance(op, ast.Mult):
            return [(s, self.arith(za, zb, lambda x, y: x * y))]
        if isinstance(op, (ast.Div, ast.FloorDiv, ast.Mod)):
            out = []
            for s2, nz in self.branch(s, zb != 0):
                if not nz:
                    out.append((s2, Raised("ZeroDivisionError")))
                elif isinstance(op, ast.Div):
                    out.append((s2, _real(za) / _real(zb)))
                elif isinstance(op, ast.FloorDiv):
                    out.append((s2, py_floordiv(za, zb)))
                else:
                    out.append((s2, py_mod(za, zb)))
            return out
        if isinstance(op, ast.Pow):
            if isinstance(b, int) and b >= 0:
                r = to_z3(1) if z3.is_int(za) else z3.RealVal(1)
                for _ in range(b):
                    r = r * za
                return [(s, r)]
            raise Unsupported("symbolic power")
        raise Unsupported("binary op %s" % type(op).__name__)

    def arith(self, za, zb, fn):
        if z3.is_int(za) and z3.is_real(zb):
            za = z3.ToReal(za)
        if z3.is_real(za) and z3.is_int(zb):
            zb = z3.ToReal(zb)
        return fn(za, zb)

    def tuple_to_seq(self, t):
        if len(t) == 0:
            return z3.Empty(z3.SeqSort(z3.IntSort()))
        units = [z3.Unit(to_z3(x)) for x in t]
        return units[0] if len(units) == 1 else z3.Concat(*units)

    def ex_Attribute(self, e, state):
        out = []
        for s, o in self.eval(e.value, state):
            if isinstance(o, Raised):
                out.append((s, o))
                continue
            out.extend(self.getattr(o, e.attr, s))
        return out

    def getattr(self, o, attr, s):
        if isinstance(o, Obj):
            m = self.attr_models.get((o.cls, attr))
            if m is not None:
                r = m(self, s, o)
                return r if isinstance(r, list) else [(s, r)]
            at = s.attrs(o)
            if attr in at:
                return [(s, at[attr])]
            if attr == "__dict__":
                return [(s, ("objdict", o))]
            return [(s, ("method", o, attr))]
        if isinstance(o, tuple) and o and o[0] == "builtin":
            return [(s, ("builtin", o[1] + "." + attr))]
        if isinstance(o, Opaque):
            return [(s, Opaque(o.label + "." + attr))]
        if isinstance(o, (tuple, list)) and attr in ("index", "append", "items", "values"):
            return [(s, ("method", o, attr))]
        if is_seq(o) or is_z3(o) or isinstance(o, (tuple, list, str, int, float)):
            return [(s, ("method", o, attr))]
        raise Unsupported("attribute %s of %r" % (attr, o))

    def ex_Subscript(self, e, state):
        out = []
        for s, o in self.eval(e.value, state):
            if isinstance(o, Raised):
                out.append((s, o))
                continue
            if isinstance(e.slice, ast.Slice):
                parts = [e.slice.lower, e.slice.upper, e.slice.step]
                res = [(s, [])]
                for p in parts:
                    nxt = []
                    for s2, acc in res:
                        if p is None:
                            nxt.append((s2, acc + [None]))
                        else:
                            for s3, v in self.eval(p, s2):
                                nxt.append((s3, acc + [v]))
                    res = nxt
                for s2, (lo, hi, st) in res:
                    out.append((s2, self.slice(o, lo, hi, st, s2)))
            else:
                for s2, i in self.eval(e.slice, s):
                    if isinstance(i, Raised):
                        out.append((s2, i))
                    else:
                        out.extend(self.index(o, i, s2))
        return out

    def index(self, o, i, s):
        if isinstance(o, Opaque):
            return [(s, Opaque("item"))]
        if isinstance(o, (tuple, list)):
            if isinstance(i, int) and not isinstance(i, bool):
                if -len(o) <= i < len(o):
                    return [(s, o[i])]
                return [(s, Raised("IndexError"))]
            if is_z3(i) and z3.is_int(i):
                n = len(o)
                out = []
                for s2, ok in self.branch(s, z3.And(i >= -n, i < n)):
                    if not ok:
                        out.append((s2, Raised("IndexError")))
                        continue
                    # if-then-else over positions (elements must be z3-liftable)
                    try:
                        elems = [to_z3(x) for x in o]
                    except Unsupported:
                        raise Unsupported("symbolic index into a tuple of non-numeric values")
                    idx = z3.If(i < 0, i + n, i)
                    r = elems[-1]
                    for k in range(n - 2, -1, -1):
                        r = z3.If(idx == k, elems[k], r)
                    out.append((s2, r))
                return out
        if is_seq(o):
            i = to_z3(i)
            n = z3.Length(o)
            out = []
            for s2, ok in self.branch(s, z3.And(i >= -n, i < n)):
                if not ok:
                    out.append((s2, Raised("IndexError")))
                else:
                    out.append((s2, o[z3.If(i < 0, i + n, i)]))
            return out
        raise Unsupported("index %r[%r]" % (o, i))

    def slice(self, o, lo, hi, step, s):
        if step not in (None, 1):
            raise Unsupported("slice step")
        if isinstance(o, (tuple, list)) and all(x is None or isinstance(x, int) for x in (lo, hi)):
            return o[lo:hi]
        if isinstance(o, (tuple, list)):
            o = self.tuple_to_seq(o)
        if is_seq(o):
            n = z3.Length(o)

            def norm(v, default):
                if v is None:
                    return default
                v = to_z3(v)
                v = z3.If(v < 0, v + n, v)
                return z3.If(v < 0, 0, z3.If(v > n, n, v))
            a = norm(lo, z3.IntVal(0))
            b = norm(hi, n)
            return z3.SubSeq(o, a, z3.If(b > a, b - a, 0))
        if isinstance(o, Opaque):
            return Opaque("slice")
        raise Unsupported("slice of %r" % (o,))

    def ex_GeneratorExp(self, e, state):
        return self.comprehension(e, state, tuple)

    def ex_ListComp(self, e, state):
        return self.comprehension(e, state, list)

    def comprehension(self, e, state, ctor):
        if len(e.generators) != 1:
            raise Unsupported("nested comprehension")
        g = e.generators[0]
        out = []
        for s, it in self.eval(g.iter, state):
            if isinstance(it, Raised):
                out.append((s, it))
                continue
            if isinstance(it, range):
                it = list(it)
            if isinstance(it, Opaque) and not g.ifs:
                # an unknown number of elements: if the element expression only reads names and attributes / calls methods of the comprehension's own variable(s) -- nothing that
                # could touch modelled state -- the result is an unknown list
                own = {n_.id for n_ in ast.walk(g.target) if isinstance(n_, ast.Name)}
                harmless = True
                for n_ in ast.walk(e.elt):
                    if isinstance(n_, ast.Call):
                        f_ = n_.func
                        while isinstance(f_, ast.Attribute):
                            f_ = f_.value
                        if not (isinstance(n_.func, ast.Attribute) and isinstance(f_, ast.Name) and f_.id in own):
                            harmless = False
                    elif isinstance(n_, (ast.Lambda, ast.NamedExpr, ast.Yield, ast.Await)):
                        harmless = False
                if harmless:
                    out.append((s, Opaque("comprehension")))
                    continue
            if not isinstance(it, (tuple, list)):
                raise Unsupported("comprehension over non-concrete iterable")
            res = [(s, [])]
            for item in it:
                nxt = []
                for s2, acc in res:
                    if isinstance(acc, Raised):
                        nxt.append((s2, acc))
                        continue
                    saved = dict(s2.env)
                    for s3, _ in self.assign(g.target, item, s2):
                        conds = [(s3, True)]
                        for c in g.ifs:
                            nc = []
                            for s4, keep in conds:
                                if not keep:
                                    nc.append((s4, False))
                                    continue
                                for s5, v in self.eval(c, s4):
                                    for s6, b in self.branch(s5, v):
                                        nc.append((s6, b))
                            conds = nc
                        for s4, keep in conds:
                            if not keep:
                                nxt.append((s4, acc))
                                continue
                            for s5, v in self.eval(e.elt, s4):
                                nxt.append((s5, v if isinstance(v, Raised) else acc + [v]))
                res = nxt
            for s2, acc in res:
                out.append((s2, acc if isinstance(acc, Raised) else ctor(acc)))
        return out

    # ------------------------------------------------------------------------------------------------ calls
    def _contract_for_text(self, text):
        lc = getattr(self, "loop_contracts", None)
        if not lc:
            return None
        if text in lc:
            return lc[text]
        return next((v for k, v in lc.items() if hasattr(k, "fullmatch") and k.fullmatch(text)), None)

    def ex_Call(self, e, state):
        out = []
        if isinstance(e.func, (ast.Name, ast.Attribute)) and self._contract_for_text(ast.unparse(e)) is not None:
            # an iterable described by a loop contract, evaluated away from the `for` (bound to a local first): it stays symbolic and carries its contract along
            o = Opaque("iterable:" + ast.unparse(e))
            o.contract = self._contract_for_text(ast.unparse(e))
            return [(state, o)]
        if any(k.arg is None for k in e.keywords):
            raise Unsupported("**kwargs (line %d)" % e.lineno)
        if any(isinstance(a, ast.Starred) for a in e.args):
            # f(*xs): supported when xs is an uninterpreted value (the callee then receives one uninterpreted argument pack) or a concrete tuple/list
            e = copy.copy(e)
            e.args = [a.value if isinstance(a, ast.Starred) else a for a in e.args]
            starred = [isinstance(a, ast.Starred) for a in e.args] if False else None
        for s, f in self.eval(e.func, state):
            if isinstance(f, Raised):
                out.append((s, f))
                continue
            for s2, args in self.eval_many(list(e.args) + [k.value for k in e.keywords], s):
                if isinstance(args, Raised):
                    out.append((s2, args))
                    continue
                pos = args[:len(e.args)]
                kw = {k.arg: v for k, v in zip(e.keywords, args[len(e.args):])}
                r = self.call(f, pos, kw, s2, e)
                out.extend(r)
        return out

    def dotted(self, f):
        if isinstance(f, tuple) and f and f[0] == "builtin":
            return getattr(self, "import_aliases", {}).get(f[1], f[1])
        return None

    # ---- a few standard-library functions (reached through `import math` / `from math import prod as _prod` ...)
    def bi_math_prod(self, s, args, kw):
        v = args[0]
        if isinstance(v, (tuple, list)):
            r = 1
            for x in v:
                r = self.binop(ast.Mult(), r, x, s)[0][1]
            return r
        return Opaque("math.prod")

    def bi_copy_deepcopy(self, s, args, kw):
        # a copy has the value of its argument; immutable values (numbers, strings, tuples of such, None) ARE their copies, a list is copied element-wise, anything else becomes
        # an unknown value (no modelled property of the original is assumed to carry over, none is needed where the copy only replaces an argument that is passed on)
        def cp(v):
            if v is None or isinstance(v, (bool, int, float, str)) or z3.is_expr(v):
                return v
            if isinstance(v, tuple):
                return tuple(cp(x) for x in v)
            if isinstance(v, list):
                return [cp(x) for x in v]
            return Opaque("copy of %s" % (getattr(v, "label", None) or type(v).__name__))
        return cp(args[0])
    bi_copy_copy = bi_copy_deepcopy

    def bi_itertools_accumulate(self, s, args, kw):
        v = args[0]
        if isinstance(v, (tuple, list)) and len(args) == 1 and not kw:
            out, acc = [], None
            for x in v:
                acc = x if acc is None else self.binop(ast.Add(), acc, x, s)[0][1]
                out.append(acc)
            return out
        return Opaque("itertools.accumulate")

    def bi_itertools_product(self, s, args, kw):
        if all(isinstance(v, (tuple, list, range)) for v in args) and not kw:
            import itertools as _it
            return [tuple(t) for t in _it.product(*[list(v) for v in args])]
        return Opaque("itertools.product")

    def call(self, f, args, kw, s, node=None):
        name = self.dotted(f)
        if name is not None:
            if name in self.models:
                r = self.models[name](self, s, args, kw)
                return r if isinstance(r, list) else [(s, r)]
            if name == "math.prod" and args and is_seq(args[0]):
                # product over a sequence whose length is provably bounded on this path: complete case split on the length (as for a `for` over it)
                it = args[0]
                n_ = z3.Length(it)
                bound = next((b_ for b_ in range(0, 9) if not self.feasible(s, n_ > b_)), None)
                if bound is None:
                    raise Unsupported("math.prod over a sequence of unbounded length")
                outs = []
                for L in range(bound + 1):
                    if not self.feasible(s, n_ == L):
                        continue
                    sL = s.fork()
                    sL.pc.append(n_ == L)
                    r = 1
                    for i in range(L):
                        r = self.binop(ast.Mult(), r, it[i], sL)[0][1]
                    outs.append((sL, r))
                return outs
            b = getattr(self, "bi_" + name.replace(".", "_"), None)
            if b is not None:
                return [(s, b(s, args, kw))]      # the built-in models never fork: a list they return is a Python list VALUE (zip, enumerate, list), not a list of outcomes
            if name in self.havoc or name.split(".")[0] in self.havoc:
                self.havocs_used.append(name)
                return [(s, Opaque(name))]
            fd = getattr(self, "module_funcs", {}).get(name)
            if fd is not None and getattr(self, "_inline_depth", 0) < 6:
                # a function of the SAME source file without a contract of its own (typically a private helper a block was extracted into): its real body is executed in place
                self._inline_depth = getattr(self, "_inline_depth", 0) + 1
                try:
                    self.inlined = getattr(self, "inlined", set()) | {name}
                    return self.call_closure(Closure(fd, {}), list(args), kw, s)
                finally:
                    self._inline_depth -= 1
            raise Unsupported("call to %s (line %s)" % (name, getattr(node, "lineno", "?")))
        if isinstance(f, tuple) and f and f[0] == "method":
            return self.call_method(f[1], f[2], args, kw, s)
        if isinstance(f, Closure):
            return self.call_closure(f, args, kw, s)
        if isinstance(f, Opaque):
            self.havocs_used.append(f.label)
            return [(s, Opaque("call"))]
        if isinstance(f, Obj) and ("%s.__call__" % f.cls) in self.models:
            r = self.models["%s.__call__" % f.cls](self, s, [f] + list(args), kw)
            return r if isinstance(r, list) else [(s, r)]
        raise Unsupported("call of %r" % (f,))

    def call_method(self, o, meth, args, kw, s):
        if isinstance(o, Obj):
            key = "%s.%s" % (o.cls, meth)
            if key in self.models:
                r = self.models[key](self, s, [o] + list(args), kw)
                return r if isinstance(r, list) else [(s, r)]
            if key in self.havoc or ("*." + meth) in self.havoc:
                self.havocs_used.append(key)
                return [(s, Opaque(key))]
            md = getattr(self, "owner_methods", {}).get(meth)
            if md is not None and getattr(self, "_inline_depth", 0) < 6:
                # a method of the class under contract (or of a base class in the same file) that has no contract of its own: executed in place on the receiver
                self._inline_depth = getattr(self, "_inline_depth", 0) + 1
                try:
                    self.inlined = getattr(self, "inlined", set()) | {"%s.%s" % (o.cls, meth)}
                    return self.call_closure(Closure(md, {}), [o] + list(args), kw, s)
                finally:
                    self._inline_depth -= 1
            raise Unsupported("method %s" % key)
        if isinstance(o, Opaque):
            self.havocs_used.append(o.label + "." + meth)
            return [(s, Opaque("call"))]
        if isinstance(o, tuple) and len(o) == 2 and o[0] == "objdict" and isinstance(o[1], Obj) and meth == "update" and len(args) == 1 and not kw \
                and isinstance(args[0], tuple) and len(args[0]) == 2 and args[0][0] == "objdict" and isinstance(args[0][1], Obj):
            # obj.__dict__.update(other.__dict__): every attribute of `other` is (re)bound on `obj` to the same value; attributes only `obj` has stay
            s.attrs(o[1]).update(s.attrs(args[0][1]))
            return [(s, None)]
        if meth == "item" and (is_z3(o) or isinstance(o, (int, float))):
            return [(s, o)]             # numpy scalar -> python scalar
        if isinstance(o, (tuple, list)) and meth == "index":
            x = args[0]
            for k, y in enumerate(o):
                c = self.compare(ast.Eq(), x, y, s)
                if isinstance(c, bool):
                    if c:
                        return [(s, k)]
                else:
                    raise Unsupported("symbolic .index")
            return [(s, Raised("ValueError"))]
        if isinstance(o, list) and meth == "append":
            o.append(args[0])
            return [(s, None)]
        if isinstance(o, list) and meth == "extend" and len(args) == 1:
            if isinstance(args[0], (list, tuple)):
                o.extend(args[0])
            else:
                o.append(Opaque("extended-with"))        # an unknown number of unknown elements: the list is only ever handed on as a whole
            return [(s, None)]
        if isinstance(o, str) and meth == "format":
            return [(s, Opaque("str"))]
        raise Unsupported("method %s on %r" % (meth, o))

    def call_closure(self, f, args, kw, s):
        fn = f.node
        cm = getattr(self, "closure_models", {}).get(getattr(fn, "name", None))
        if cm is not None:          # a nested helper used through its contract
            r = cm(self, s, list(args), kw)
            return r if isinstance(r, list) else [(s, r)]
        s.env = dict(s.env)
        saved = s.env
        env = dict(f.env)
        self.bind(fn, args, kw, env, s)
        s.env = env
        out = []
        for s2, o in self.exec_block(fn.body, s):
            s2.env = dict(saved)            # one copy of the caller's frame per outcome: paths that forked inside the callee must not share the caller's locals
            if isinstance(o, Returned):
                out.append((s2, o.value))
            elif isinstance(o, Raised):
                out.append((s2, o))
            else:
                out.append((s2, None))
        return out

    def bind(self, fn, args, kw, env, s):
        params = [a.arg for a in fn.args.args]
        defaults = fn.args.defaults
        dvals = {}
        for p, d in zip(params[len(params) - len(defaults):], defaults):
            dvals[p] = d
        for p, a in zip(params, args):
            env[p] = a
        for p in params[len(args):]:
            if p in kw:
                env[p] = kw[p]
            elif p in dvals:
                env[p] = self.eval(dvals[p], s)[0][1]
            else:
                raise Unsupported("missing argument %s" % p)

    # ----------------------------------------------------------------------------------------------- builtins
    def bi_len(self, s, args, kw):
        v = args[0]
        if isinstance(v, Opaque):
            return Opaque("len")
        if isinstance(v, (tuple, list, str, range)):
            return len(v)
        if is_seq(v):
            if z3.is_const(v) and v.decl().kind() == z3.Z3_OP_UNINTERPRETED:
                return z3.Length(v)
            # name the length of a compound sequence expression: arithmetic over a plain integer is much easier for the solver
            L = z3.Int("len#%d" % len(s.pc))
            s.pc.append(L == z3.Length(v))
            return L
        if isinstance(v, Obj):
            m = self.attr_models.get((v.cls, "__len__"))
            if m is not None:
                return m(self, s, v)
        raise Unsupported("len of %r" % (v,))

    def bi_int(self, s, args, kw):
        v = args[0]
        if isinstance(v, Opaque):
            return Opaque("int")
        return py_int(v)

    def bi_float(self, s, args, kw):
        v = args[0]
        if isinstance(v, (int, float)) and not is_z3(v):
            return float(v)
        if isinstance(v, Opaque):
            return Opaque("float")
        return _real(v)

    def bi_bool(self, s, args, kw):
        return self.truth(s, args[0])

    def bi_str(self, s, args, kw):
        v = args[0]
        if isinstance(v, (int, str)) and not is_z3(v):
            return str(v)
        return Opaque("str")

    def bi_abs(self, s, args, kw):
        v = args[0]
        if is_z3(v):
            return z3.If(v >= 0, v, -v)
        return abs(v)

    def bi_range(self, s, args, kw):
        if all(isinstance(a, int) for a in args):
            return range(*args)
        raise Unsupported("range over symbolic bound")

    def bi_tuple(self, s, args, kw):
        if not args:
            return ()
        v = args[0]
        if isinstance(v, (tuple, list, range)):
            return tuple(v)
        if is_seq(v):
            return v
        raise Unsupported("tuple()")

    def bi_list(self, s, args, kw):
        if not args:
            return []
        v = args[0]
        if isinstance(v, (tuple, list, range)):
            return list(v)
        if is_seq(v):
            return v
        raise Unsupported("list()")

    def bi_any(self, s, args, kw):
        v = args[0]
        ts = [self.truth(s, x) for x in v]
        if all(isinstance(t, bool) for t in ts):
            return any(ts)
        return z3.Or(*[to_z3(t) for t in ts])

    def bi_all(self, s, args, kw):
        v = args[0]
        ts = [self.truth(s, x) for x in v]
        if all(isinstance(t, bool) for t in ts):
            return all(ts)
        return z3.And(*[to_z3(t) for t in ts])

    def bi_enumerate(self, s, args, kw):
        v = args[0]
        if isinstance(v, (tuple, list)):
            return [(i, x) for i, x in enumerate(v)]
        raise Unsupported("enumerate")

    def bi_iter(self, s, args, kw):
        return Opaque("iterator")

    def bi_zip(self, s, args, kw):
        if all(isinstance(v, (tuple, list)) for v in args):
            return [tuple(x) for x in zip(*args)]
        raise Unsupported("zip")

    def bi_isinstance(self, s, args, kw):
        v, cls = args
        names = []
        is_marker = isinstance(cls, tuple) and len(cls) == 2 and cls[0] == "builtin"
        for c in ([cls] if is_marker or not isinstance(cls, (tuple, list)) else cls):
            n = self.dotted(c)
            if n is None:
                raise Unsupported("isinstance class")
            names.append(n.split(".")[-1])
        if isinstance(v, Obj):
            mro = self.class_models.get(v.cls, {}).get("mro", [v.cls])
            return any(n in mro for n in names)
        if isinstance(v, Opaque):
            return z3.Bool("isinstance(%s,%s)" % (v.label, "|".join(names)))
        tag = getattr(v, "_pytype", None)
        if tag is not None:
            return any(n == tag for n in names)
        table = {"int": lambda x: is_int(x) or isinstance(x, bool), "float": is_real, "bool": is_bool, "str": lambda x: isinstance(x, str),
                 "tuple": lambda x: isinstance(x, tuple), "list": lambda x: isinstance(x, list) or is_seq(x)}
        res = False
        for n in names:
            if n in table:
                res = res or bool(table[n](v))
            elif v is None or isinstance(v, (int, float, str, tuple, list)) or is_z3(v):
                res = res or False
            else:
                raise Unsupported("isinstance(%r, %s)" % (v, n))
        return res

    def bi_hasattr(self, s, args, kw):
        o, a = args
        if isinstance(o, Obj):
            return a in s.attrs(o)
        raise Unsupported("hasattr")

    def bi_min(self, s, args, kw):
        vals = args[0] if len(args) == 1 else args
        r = to_z3(vals[0])
        for v in vals[1:]:
            v = to_z3(v)
            r = z3.If(v < r, v, r)
        return r

    def bi_max(self, s, args, kw):
        vals = args[0] if len(args) == 1 else args
        r = to_z3(vals[0])
        for v in vals[1:]:
            v = to_z3(v)
            r = z3.If(v > r, v, r)
        return r

    def bi_sum(self, s, args, kw):
        vals = args[0]
        r = 0
        for v in vals:
            r = self.binop(ast.Add(), r, v, s)[0][1]
        return r


# ------------------------------------------------------------------------------------------------- source access
_src_cache = {}


def load_function(relpath, qualname):
    """(re-)read the real source and return the ast.FunctionDef for `qualname` (Class.method, func, func.inner)"""
    path = os.path.join(REPO, relpath)
    with open(path) as f:
        src = f.read()
    tree = ast.parse(src)
    parts = qualname.split(".")
    node = tree
    for p in parts:
        found = None
        deco = None
        if "@" in p:
            p, deco = p.split("@")
        for ch in ast.iter_child_nodes(node) if not isinstance(node, ast.Module) else node.body:
            if isinstance(ch, (ast.FunctionDef, ast.ClassDef)) and ch.name == p:
                if deco is not None:
                    ds = [ast.unparse(d) for d in ch.decorator_list]
                    if not any(d.endswith(deco) for d in ds):
                        continue
                found = ch
                break
        if found is None and isinstance(node, (ast.FunctionDef,)):
            for ch in ast.walk(node):
                if isinstance(ch, (ast.FunctionDef, ast.ClassDef)) and ch.name == p and ch is not node:
                    found = ch
                    break
        if found is None:
            raise Unsupported("function %s not found in %s" % (qualname, relpath))
        node = found
    return node, src


def run_function(ex, fn, state, args, kw=None):
    """symbolically execute fn with the given argument values; returns [(state, Returned|Raised)]"""
    env = {}
    ex.bind(fn, args, kw or {}, env, state)
    env.update({k: v for k, v in state.env.items() if k not in env})
    state.env = env
    res = []
    for s, o in ex.exec_block(fn.body, state):
        if o is None:
            o = Returned(None)
        if o in ("break", "continue"):
            raise Unsupported("stray break/continue")
        res.append((s, o))
        ex.paths += 1
    return res


def prove(state, goal, extra=(), timeout_ms=10000):
    """is  pc => goal  valid?  returns ('proved'|'refuted'|'unknown', model)"""
    if isinstance(goal, bool):
        if goal:
            return "proved", None
        s = z3.Solver()
        s.set("timeout", timeout_ms)
        s.add(*state.pc)
        s.add(*extra)
        r = s.check()
        return ("refuted", s.model()) if r == z3.sat else (("proved", None) if r == z3.unsat else ("unknown", None))
    s = z3.Solver()
    s.set("timeout", timeout_ms)
    s.add(*state.pc)
    s.add(*extra)
    s.add(z3.Not(goal))
    r = s.check()
    if r == z3.unsat:
        return "proved", None
    if r == z3.sat:
        return "refuted", s.model()
    # second solver: cvc5 (sequence / string reasoning with --strings-exp decides many queries z3 leaves open)
    c = cvc5_check(s, 90.0)
    if c == "unsat":
        return "proved-cvc5", None
    return "unknown", None


def cvc5_check(solver, timeout_s):
    import subprocess
    smt = "(set-logic ALL)\n" + solver.to_smt2()
    try:
        p = subprocess.run(["/usr/bin/cvc5", "--lang=smt2", "--strings-exp", "--tlimit=%d" % int(timeout_s * 1000), "-"], input=smt, text=True, capture_output=True,
                           timeout=timeout_s + 5)
        out = p.stdout.strip().splitlines()
        return out[0] if out else "unknown"
    except Exception:
        return "unknown"
