"""Target = one real function + its contract.  run_target() executes the real AST symbolically and discharges the
contract's clauses on every path; failed clauses come back with the z3 counter-model and, where the target provides a
`replay`, with the outcome of running the real code natively on the model's values."""
import time
import traceback

import z3

from .engine import Executor, State, Unsupported, load_function, run_function, prove, Returned, Raised


class Target:
    """subclass or instantiate with callables:
       setup(ex) -> (state, args, ctx)                      symbolic inputs; preconditions go into state.pc
       ensures(ctx, state, outcome) -> [(clause, goal)]     goal: z3 Bool or python bool, must hold on that path
       replay(ctx, model) -> dict(reproduced=bool, ...)     optional native replay of a counter-model
    """

    def __init__(self, name, relpath, qualname, setup, ensures, replay=None, executor=None, key=None, properties=()):
        self.name = name
        self.relpath = relpath
        self.qualname = qualname
        self.setup = setup
        self.ensures = ensures
        self.replay = replay
        self.executor = executor or (lambda: Executor())
        self.key = key or {}
        self.properties = properties


def model_value(model, v):
    if v is None or isinstance(v, (bool, int, float, str)):
        return v
    if isinstance(v, (tuple, list)):
        return [model_value(model, x) for x in v]
    if isinstance(v, z3.ExprRef):
        r = model.eval(v, model_completion=True)
        if z3.is_true(r):
            return True
        if z3.is_false(r):
            return False
        if z3.is_int_value(r):
            return r.as_long()
        if z3.is_rational_value(r):
            f = r.as_fraction()
            return f.numerator / f.denominator
        if z3.is_algebraic_value(r):
            f = r.approx(15).as_fraction()
            return f.numerator / f.denominator
        if z3.is_seq(r):
            try:
                return [model_value(model, r[i]) for i in range(model.eval(z3.Length(r)).as_long())]
            except Exception:
                return str(r)
        return str(r)
    return repr(v)


def run_target(t, timeout_ms=None):
    timeout_ms = timeout_ms or getattr(t, "timeout_ms", 10000)
    res = {"name": t.name, "key": dict(t.key), "obligations": 0, "discharged": 0, "backends": {}, "paths": 0, "solver_s": 0.0,
           "failures": [], "undecided": [], "errors": [], "notes": [], "status": "ok", "faithful": 0, "sample": None}
    t0 = time.time()
    try:
        fn, src = load_function(t.relpath, t.qualname)
        ex = t.executor()
        # the rest of the source file: helpers without a contract of their own are executed in place (module-level functions; methods of the owner class and of its bases in the file)
        import ast as _ast
        tree = _ast.parse(src)
        ex.module_funcs = {n.name: n for n in tree.body if isinstance(n, _ast.FunctionDef) and n.name != t.qualname.split(".")[0].split("@")[0]}
        classes = {n.name: n for n in tree.body if isinstance(n, _ast.ClassDef)}
        ex.owner_methods = {}
        owner = t.qualname.split(".")[0] if "." in t.qualname else None
        todo, seen_cls = [owner], set()
        while todo:
            cn = todo.pop()
            if cn in seen_cls or cn not in classes:
                continue
            seen_cls.add(cn)
            for m in classes[cn].body:
                if isinstance(m, _ast.FunctionDef) and not m.decorator_list and m.name not in ex.owner_methods and m.name != t.qualname.split(".")[-1].split("@")[0]:
                    ex.owner_methods[m.name] = m
            todo.extend(_ast.unparse(b).split(".")[-1] for b in classes[cn].bases)
        state, args, ctx = t.setup(ex)
        # `from math import prod as _prod`, `from itertools import accumulate`: the local name stands for the standard-library function (modelled below where the engine knows it)
        ex.import_aliases = {}
        for n_ in tree.body:
            if isinstance(n_, _ast.ImportFrom) and n_.module in ("math", "itertools", "functools", "operator", "copy"):
                for a_ in n_.names:
                    ex.import_aliases[a_.asname or a_.name] = "%s.%s" % (n_.module, a_.name)
        # module-level constants of the source file (NAME = <literal>): visible to the function like any global, unless the target's own setup binds the name
        for n_ in tree.body:
            if isinstance(n_, _ast.Assign) and len(n_.targets) == 1 and isinstance(n_.targets[0], _ast.Name):
                try:
                    val = _ast.literal_eval(n_.value)
                except Exception:
                    continue
                if isinstance(val, (int, float, str, bool, tuple, list)) and n_.targets[0].id not in state.glob and n_.targets[0].id not in state.env:
                    state.glob[n_.targets[0].id] = val
        if isinstance(args, tuple) and len(args) == 2 and isinstance(args[1], dict):
            args, kw = args
        else:
            kw = {}
        paths = run_function(ex, fn, state, list(args), kw)
        res["paths"] = len(paths)
        if not paths:
            res["errors"].append("%s: no feasible path (contradictory precondition?)" % t.name)
        seen_clauses = set()
        for s, outcome in paths:
            # non-vacuity: the path condition must be satisfiable
            chk = z3.Solver()
            chk.set("timeout", timeout_ms)
            chk.add(*s.pc)
            if chk.check() == z3.unsat:
                continue
            for clause, goal in t.ensures(ctx, s, outcome):
                res["obligations"] += 1
                seen_clauses.add(clause)
                st, model = prove(s, goal, timeout_ms=timeout_ms)
                if st in ("proved", "proved-cvc5"):
                    res["discharged"] += 1
                    bk = "z3" if st == "proved" else "cvc5"
                    res["backends"][bk] = res["backends"].get(bk, 0) + 1
                    if res["sample"] is None:
                        res["sample"] = {"obligation": "%s.%s" % (t.name, clause), "path_condition": [str(c)[:80] for c in s.pc][:6],
                                         "outcome": repr(outcome)[:80], "goal": str(goal)[:160], "backend": "z3"}
                elif st == "refuted":
                    mv = {str(d): model_value(model, model[d]) for d in model.decls()} if model is not None else {}
                    rep = {"counter_model": mv, "outcome_on_path": repr(outcome)[:200], "path_condition": [str(c)[:160] for c in s.pc][:12],
                           "goal": str(goal)[:400], "source": "%s:%s line %d" % (t.relpath, t.qualname, fn.lineno)}
                    reproduced = False
                    if t.replay is not None:
                        try:
                            r = t.replay(ctx, model, clause)
                            rep["native_replay"] = r
                            reproduced = bool(r.get("reproduced"))
                            if r.get("native_satisfies_contract"):
                                res["errors"].append("%s.%s: z3 refutes the clause but the native replay of the counter-model satisfies the contract "
                                                     "(pyvc encoding or model at fault): %s" % (t.name, clause, r))
                                continue
                        except Exception as e:
                            rep["native_replay_error"] = "%s: %s" % (type(e).__name__, e)
                    res["failures"].append({"obligation": "%s.%s" % (t.name, clause), "what": "clause '%s' fails on a path ending in %s; counter-model %s"
                                            % (clause, repr(outcome)[:60], str(mv)[:200]), "reproduced": reproduced, "replay": rep, "solver": "z3", "answer": "sat"})
                else:
                    res["undecided"].append({"obligation": "%s.%s" % (t.name, clause), "reason": "z3 unknown"})
        # verification conditions of loops under contract (path condition already folded in)
        for clause, goal in getattr(ex, "vcs", []):
            res["obligations"] += 1
            st, model = prove(State(), goal, timeout_ms=timeout_ms)
            if st in ("proved", "proved-cvc5"):
                res["discharged"] += 1
                bk = "z3" if st == "proved" else "cvc5"
                res["backends"][bk] = res["backends"].get(bk, 0) + 1
            elif st == "refuted":
                mv = {str(d): model_value(model, model[d]) for d in model.decls()} if model is not None else {}
                rep = {"counter_model": mv, "goal": str(goal)[:600]}
                reproduced = False
                if t.replay is not None:
                    try:
                        r = t.replay(ctx, model, clause)
                        rep["native_replay"] = r
                        reproduced = bool(r.get("reproduced"))
                    except Exception as e:
                        rep["native_replay_error"] = "%s: %s" % (type(e).__name__, e)
                res["failures"].append({"obligation": "%s.%s" % (t.name, clause), "what": "loop verification condition '%s' fails; counter-model %s" % (clause, str(mv)[:300]),
                                        "reproduced": reproduced, "replay": rep, "solver": "z3", "answer": "sat"})
            else:
                res["undecided"].append({"obligation": "%s.%s" % (t.name, clause), "reason": "z3 unknown"})
        res["notes"].extend(sorted(set("havoc: " + h.split("$")[0] for h in ex.havocs_used)))
        res["notes"].extend(sorted(set("ASSUMED loop summary (not proved): " + a for a in getattr(ex, "assumed_summaries", []))))
        res["notes"].extend(sorted("executed in place (no contract of its own): " + a for a in getattr(ex, "inlined", set())))
    except Unsupported as e:
        res["status"] = "outside-subset"
        res["notes"].append("outside the pyvc subset: %s" % e)
        res["unsupported"] = str(e)
    except Exception as e:
        res["errors"].append("%s: pyvc exception %s\n%s" % (t.name, e, traceback.format_exc()[-1800:]))
    res["solver_s"] = time.time() - t0
    return res


class TargetCase:
    """adapter so that pyvc targets can be run by symreal.pool.run_catalogue"""
    expect = "pyvc"

    def __init__(self, target, allow_outside=False):
        self.target = target
        self.allow_outside = allow_outside
        self.name = target.name
        self.key = target.key
        self.functions = ("synapgrad." + target.relpath[:-3].replace("/", ".").replace("synapgrad.", "", 1) + "." + target.qualname.split("@")[0],)

    def run(self, seed):
        return run_target(self.target)
