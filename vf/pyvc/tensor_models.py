"""Contracts (models) of synapgrad.tensor.Tensor used when *callers* are verified: the constructor, the requires_grad
property and the grad_fn setter are replaced by their contracts (each of which is itself discharged against the real
body by its own target in vf/props/c07.py)."""
import z3

from .engine import Executor, Obj, Opaque, Raised, State

DEVICE_CPU = ("builtin", "Device.CPU")
MRO = {"Tensor": {"mro": ["Tensor"]}, "Parameter": {"mro": ["Parameter", "Tensor"]}, "ndarray": {"mro": ["ndarray"]},
       "BackwardFunction": {"mro": ["BackwardFunction"]}}


def new_tensor(state, name, requires_grad=None, cls="Tensor"):
    t = Obj(cls)
    a = state.attrs(t)
    a["_requires_grad"] = z3.Bool("rg_" + name) if requires_grad is None else requires_grad
    a["_grad"] = None
    a["_grad_fn"] = None
    a["_children"] = ()
    a["_retain_grad"] = False
    a["device"] = DEVICE_CPU
    a["data"] = Opaque("data_" + name)
    a["_name"] = name
    return t


def tensor_ctor(ex, state, args, kw):
    """contract of Tensor.__init__ (proved by target Tensor.__init__):
         raises RuntimeError  iff  requires_grad /\ gradient__ /\ not floating
         otherwise  _requires_grad == requires_grad /\ gradient__,  _grad is None, _grad_fn is None, _children == children"""
    rg = kw.get("requires_grad", False)
    G = state.glob["gradient__"]
    rgz = rg if isinstance(rg, bool) else rg
    req = z3.And(z3.BoolVal(rgz) if isinstance(rgz, bool) else rgz, G)
    t = Obj("Tensor")
    isfp = z3.Bool("isfp(%s)" % t.oid)
    out = []
    for s, b in ex.branch(state, z3.And(req, z3.Not(isfp))):
        if b:
            out.append((s, Raised("RuntimeError")))
        else:
            a = s.attrs(t)
            a["_requires_grad"] = z3.simplify(req)
            a["_grad"] = None
            a["_grad_fn"] = None
            a["_children"] = kw.get("children", ())
            a["_retain_grad"] = False
            a["device"] = kw.get("device", DEVICE_CPU) if kw.get("device", None) is not None else DEVICE_CPU
            a["data"] = args[0] if args else kw.get("data")
            a["_operation"] = kw.get("operation")
            out.append((s, t))
    return out


def grad_fn_setter(ex, state, obj, value):
    """contract of the grad_fn setter: raises iff value is not None and the tensor does not require grad"""
    rq = state.attrs(obj)["_requires_grad"]
    if value is None:
        state.attrs(obj)["_grad_fn"] = None
        return None
    out = []
    for s, b in ex.branch(state, rq):
        if b:
            s.attrs(obj)["_grad_fn"] = value
            out.append((s, None))
        else:
            out.append((s, Raised("RuntimeError")))
    return out


def make_executor(havoc=()):
    ex = Executor(havoc=set(havoc) | {"cpu_ops", "conv_tools", "np", "type"})
    ex.class_models = dict(MRO)
    ex.models["Tensor"] = tensor_ctor
    ex.models["BackwardFunction"] = lambda ex_, s, a, k: Obj("BackwardFunction")
    for cls in ("Tensor", "Parameter"):
        ex.attr_models[(cls, "requires_grad")] = lambda ex_, s, o: s.attrs(o)["_requires_grad"]
        ex.attr_models[(cls, "grad_fn")] = lambda ex_, s, o: s.attrs(o)["_grad_fn"]
        ex.attr_models[(cls, "shape")] = lambda ex_, s, o: Opaque("shape")
        ex.attr_models[(cls, "ndim")] = lambda ex_, s, o: s.attrs(o).get("ndim", Opaque("ndim"))
        ex.attr_models[(cls, "dtype")] = lambda ex_, s, o: Opaque("dtype")
        ex.attr_models[(cls, "__bool__")] = lambda ex_, s, o: True      # assumption: tensors used in `if bias:` are non-empty
        ex.setattr_models[(cls, "grad_fn")] = grad_fn_setter
        ex.models[cls + ".matches_shape"] = lambda ex_, s, a, k: Opaque("matches_shape")
    return ex


def base_state(G=None):
    s = State()
    s.glob["gradient__"] = z3.Bool("G") if G is None else G
    s.glob["retain_grads__"] = z3.Bool("RG")
    s.global_names = set()
    return s
