"""Run bookkeeping: obligations, violations, known findings, replay files, evidence, exit codes.

Exit codes: 0 held (possibly with KNOWN-FINDING lines) / 1 violation / 2 undecided / 3 checker error.
Only exit 1 prints a VIOLATION line.
"""
import fnmatch
import json
import os
import re
import sys
import time
import traceback

ROOT = os.path.dirname(os.path.dirname(os.path.abspath(__file__)))
MAX_REPLAY_FILES = 200                          # a broken tree can fail tens of thousands of obligations: every one is counted, the first 200 get a replay file
OUT = os.environ.get("VERIF_OUT", ROOT)       # evidence/ and replays/ live here (only the seeded-change matrix redirects it)

GLOBAL_ASSUMPTIONS = {
    "reals": "machine floating point treated as mathematical reals (rounding/overflow invisible to symreal and pyvc)",
    "numpy": "NumPy primitives compute on float arrays the same function they compute on object arrays "
             "(sampled by the faithfulness check on every configuration, not proved)",
    "shims": "symbolic interpretation shims (outside /repo): utils.is_floating_point accepts symbolic object arrays; "
             "tensor.default_type__=object; np proxy in cpu_ops/conv_tools/layers/optimizers (object-dtype zeros/ones, "
             "lifting exp/log/sqrt/tanh); S duck-types a NumPy scalar",
    "atoms": "exp/log/sqrt/tanh/pow are uninterpreted, constrained only by sign/monotonicity axioms; calculus rules of "
             "spec.vjp are assumed and cross-checked against central differences",
    "engines": "the verifiers themselves (vf/symreal, vf/pyvc) and z3 5.1.0 / cvc5 1.4.0 are trusted; no proof objects re-checked",
    "bounded-shapes": "array shapes, ranks and argument configurations are enumerated to the stated bound; per configuration the "
                      "proof covers all real values",
    "pyvc-encoding": "pyvc: Python int -> z3 Int, float -> z3 Real, // and % with floor semantics, tuples as fixed-length "
                     "vectors or z3 sequences, exceptions as outcomes; only the stated AST subset is accepted",
}


def _jsonable(x):
    try:
        import numpy as np
    except Exception:  # pragma: no cover
        np = None
    if isinstance(x, dict):
        return {str(k): _jsonable(v) for k, v in x.items()}
    if isinstance(x, (list, tuple, set, frozenset)):
        return [_jsonable(v) for v in x]
    if np is not None:
        if isinstance(x, np.ndarray):
            return _jsonable(x.tolist())
        if isinstance(x, np.generic):
            return _jsonable(x.item())
    if isinstance(x, (str, int, bool)) or x is None:
        return x
    if isinstance(x, float):
        return x if x == x and abs(x) != float("inf") else repr(x)
    if isinstance(x, slice):
        return "slice(%r,%r,%r)" % (x.start, x.stop, x.step)
    if x is Ellipsis:
        return "..."
    return repr(x)


def load_known_findings():
    path = os.path.join(ROOT, "known_findings.json")
    if not os.path.exists(path):
        return []
    with open(path) as f:
        data = json.load(f)
    return data.get("findings", [])


def _match_where(where, key):
    for k, v in where.items():
        if k not in key:
            return False
        kv = _jsonable(key[k])
        if isinstance(v, dict) and "regex" in v:
            if not re.search(v["regex"], str(kv)):
                return False
        elif isinstance(v, dict) and "in" in v:
            if kv not in v["in"]:
                return False
        elif kv != v:
            return False
    return True


class Run:
    def __init__(self, pid, tier, seed, level):
        self.pid = pid
        self.tier = tier
        self.seed = seed
        self.level = level
        self.t0 = time.time()
        self.obligations = 0
        self.discharged = 0
        self.by_backend = {}
        self.undecided = []
        self.violations = []          # unlisted
        self.known_hits = {}          # finding index -> count
        self.errors = []
        self.samples = []
        self.functions = set()
        self.configs = 0
        self.paths = 0
        self.solver_s = 0.0
        self.rt_evaluations = 0
        self.rt_distinct = set()
        self.assumptions = []
        self.extra = {}
        self.bounds = {}
        self.canaries = {"run": 0, "refuted": 0}
        self.faithfulness = 0
        self.findings = [f for f in load_known_findings() if f.get("property") == pid]
        self._replay_n = 0
        self.rule = ""
        self.explanation = ""
        self.exhaustive = None

    # ---------------------------------------------------------------- counting
    def assume(self, *keys):
        for k in keys:
            txt = GLOBAL_ASSUMPTIONS.get(k, k)
            if txt not in self.assumptions:
                self.assumptions.append(txt)

    def under_contract(self, *names):
        self.functions.update(names)

    def add_counts(self, obligations=0, discharged=0, backend=None, solver_s=0.0, paths=0, configs=0):
        self.obligations += obligations
        self.discharged += discharged
        if backend and discharged:
            self.by_backend[backend] = self.by_backend.get(backend, 0) + discharged
        self.solver_s += solver_s
        self.paths += paths
        self.configs += configs

    def merge_backend(self, d):
        for k, v in d.items():
            self.by_backend[k] = self.by_backend.get(k, 0) + v

    def sample(self, s, limit=12):
        if len(self.samples) < limit:
            self.samples.append(_jsonable(s))

    def rt(self, key=None, n=1):
        """count a run-time (bounded stand-in) evaluation; never counted as an obligation"""
        self.rt_evaluations += n
        if key is not None:
            self.rt_distinct.add(key if isinstance(key, (str, int, tuple)) else repr(key))

    def undecided_obligation(self, name, reason=""):
        self.undecided.append({"obligation": name, "reason": str(reason)[:300]})

    def error(self, where, exc=None):
        msg = where
        if exc is not None:
            msg += ": " + "".join(traceback.format_exception_only(type(exc), exc)).strip()
        self.errors.append(msg[:2000])

    # -------------------------------------------------------------- violations
    def violation(self, obligation, what, key=None, replay=None, reproduced=True):
        """Report a failed obligation. `key` is the configuration dictionary known findings are matched on.
        reproduced=False -> VIOLATION line ends with no-failing-input-found."""
        key = dict(key or {})
        for i, f in enumerate(self.findings):
            if f.get("status") == "fixed":
                continue
            pat = f.get("obligation", "*")
            if fnmatch.fnmatchcase(obligation, pat) and _match_where(f.get("where", {}), key):
                self.known_hits[i] = self.known_hits.get(i, 0) + 1
                return "known"
        # de-duplicate on (obligation,) prefix to keep output readable; still every violation is counted
        self._replay_n += 1
        rel = os.path.join("replays", self.pid, "%03d_%s.json" % (self._replay_n, re.sub(r"[^A-Za-z0-9_.-]+", "_", obligation)[:80]))
        self.violations.append({"obligation": obligation, "what": what, "key": _jsonable(key), "replay": rel,
                                "reproduced": bool(reproduced), "data": _jsonable(replay or {})})
        return "violation"

    # ------------------------------------------------------------------ finish
    def finish(self):
        wall = time.time() - self.t0
        os.makedirs(os.path.join(OUT, "evidence"), exist_ok=True)
        # replay files
        shown = 0
        rdir = os.path.join(OUT, "replays", self.pid)
        if os.path.isdir(rdir):                 # replay files describe THIS run only
            for fn in os.listdir(rdir):
                if fn.endswith(".json"):
                    os.remove(os.path.join(rdir, fn))
        for v in self.violations[:MAX_REPLAY_FILES]:
            path = os.path.join(OUT, v["replay"])
            os.makedirs(os.path.dirname(path), exist_ok=True)
            with open(path, "w") as f:
                json.dump({"property": self.pid, "obligation": v["obligation"], "what": v["what"], "config": v["key"],
                           "reproduced": v["reproduced"], "tier": self.tier, "seed": self.seed, **v["data"]}, f, indent=1)
        for i, n in sorted(self.known_hits.items()):
            f = self.findings[i]
            print("KNOWN-FINDING: property=%s %s [%s; %d obligation(s)]" % (self.pid, f.get("what", ""), f.get("id", i), n))
        for v in self.violations:
            if shown < 40:
                tail = "" if v["reproduced"] else " no-failing-input-found"
                print("VIOLATION property=%s replay=%s%s" % (self.pid, v["replay"], tail))
                print("    obligation=%s :: %s" % (v["obligation"], v["what"][:300]))
                shown += 1
        if len(self.violations) > shown:
            print("    ... %d more violations (replay files for the first %d)" % (len(self.violations) - shown, min(len(self.violations), MAX_REPLAY_FILES)))
        for u in self.undecided[:20]:
            print("UNDECIDED %s %s" % (u["obligation"], u["reason"]))
        for e in self.errors[:20]:
            print("CHECKER-ERROR %s" % e)

        # a violation whose failing input was replayed on the real code stands on its own evidence, whatever else went wrong in the checker;
        # otherwise a checker error makes the whole run untrustworthy
        if any(v["reproduced"] for v in self.violations):
            code = 1
        elif self.errors:
            code = 3
        elif self.violations:
            code = 1
        elif self.undecided:
            code = 2
        else:
            code = 0
        if code == 0 and self.obligations == 0 and self.rt_evaluations == 0:
            print("CHECKER-ERROR no obligations generated and nothing evaluated (vacuous run)")
            code = 3

        cov = {
            "functions_under_contract": sorted(self.functions),
            "obligations": self.discharged + len(self.undecided) + len(self.violations),
            "discharged": self.discharged,
            "obligations_generated": self.obligations,
            "obligations_failing_as_listed_known_findings": max(0, self.obligations - self.discharged - len(self.undecided) - len(self.violations)),
            "discharged_by_backend": self.by_backend,
            "undecided": len(self.undecided),
            "solver_seconds": round(self.solver_s, 3),
            "paths_explored": self.paths,
            "configurations": self.configs,
            "bounds": self.bounds,
            "canaries": self.canaries,
            "faithfulness_samples": self.faithfulness,
            "bounded_runtime_evaluations": self.rt_evaluations,
            "checker_cmd": "./check %s --tier %s" % (self.pid, self.tier),
            "trusted_base": ["z3 5.1.0", "cvc5 1.4.0", "NumPy (object-dtype execution)", "vf/symreal", "vf/pyvc", "CPython 3.12"],
            "evaluations": max(1, self.configs + self.rt_evaluations),
            "distinct_nontrivial": max(len(self.rt_distinct), self.configs, 0),
            "rule": self.rule,
            "samples": self.samples[:12] or ["(none recorded)"],
            "explanation": self.explanation,
            "known_findings_hit": [self.findings[i].get("id", i) for i in sorted(self.known_hits)],
            "violations": [{"obligation": v["obligation"], "what": v["what"][:300], "replay": v["replay"]} for v in self.violations[:50]],
            "undecided_list": self.undecided[:50],
            "errors": self.errors[:20],
        }
        if self.exhaustive is not None:
            cov["exhaustive"] = bool(self.exhaustive)
        cov.update(_jsonable(self.extra))
        ev = {"property_id": self.pid, "tier": self.tier, "seed": int(self.seed), "level": self.level, "coverage": cov,
              "assumptions": self.assumptions, "wall_s": round(wall, 2), "violations": len(self.violations)}
        with open(os.path.join(OUT, "evidence", self.pid + ".json"), "w") as f:
            json.dump(ev, f, indent=1)
        print("%s tier=%s: obligations=%d discharged=%d undecided=%d rt_evals=%d known=%d violations=%d errors=%d wall=%.1fs -> exit %d"
              % (self.pid, self.tier, self.obligations, self.discharged, len(self.undecided), self.rt_evaluations,
                 sum(self.known_hits.values()), len(self.violations), len(self.errors), wall, code))
        return code
