"""Discharge of equality obligations  (pre and PC and axioms) => lhs == rhs  (division-free) with z3, cvc5 as second solver."""
import subprocess
import time

import z3

from .core import S, isc, t_mul, session

CVC5 = "/usr/bin/cvc5"


class Verdict:
    __slots__ = ("status", "backend", "seconds", "model", "reason")

    def __init__(self, status, backend, seconds=0.0, model=None, reason=""):
        self.status = status      # 'discharged' | 'refuted' | 'unknown'
        self.backend = backend
        self.seconds = seconds
        self.model = model
        self.reason = reason


def neq_formula(a, b):
    """division-free  a != b  for fractions a, b (valid where both denominators are non-zero)"""
    a = S.of(a)
    b = S.of(b)
    if a.d.eq(b.d):
        return a.n != b.n
    return t_mul(a.n, b.d) != t_mul(b.n, a.d)


def syntactic_equal(a, b):
    a = S.of(a)
    b = S.of(b)
    if a.n.eq(b.n) and a.d.eq(b.d):
        return True
    if isc(a.n, 0) and isc(b.n, 0):
        return True
    return False


def _model_env(m):
    env = {}
    for d in m.decls():
        if d.arity() != 0:
            continue
        v = m[d]
        try:
            if z3.is_rational_value(v):
                f = v.as_fraction()
                env[d.name()] = f.numerator / f.denominator
            elif z3.is_algebraic_value(v):
                f = v.approx(20).as_fraction()
                env[d.name()] = f.numerator / f.denominator
        except Exception:
            pass
    return env


def _cvc5(assertions, timeout_s):
    s = z3.Solver()
    s.add(*assertions)
    smt = "(set-logic QF_UFNRA)\n" + s.to_smt2()
    try:
        p = subprocess.run([CVC5, "--lang=smt2", "--tlimit=%d" % int(timeout_s * 1000), "-"], input=smt, text=True,
                           capture_output=True, timeout=timeout_s + 5)
        out = p.stdout.strip().splitlines()
        return out[0] if out else "unknown"
    except Exception:
        return "unknown"


def prove_equal(a, b, assumptions, timeout_ms=10000, use_cvc5=True):
    """returns Verdict"""
    t0 = time.time()
    if syntactic_equal(a, b):
        return Verdict("discharged", "syntactic", 0.0)
    f = neq_formula(a, b)
    fs = z3.simplify(f, som=True)
    if z3.is_false(fs):
        return Verdict("discharged", "z3-simplify", time.time() - t0)
    s = z3.Solver()
    s.set("timeout", timeout_ms)
    s.add(*assumptions)
    s.add(f)
    r = s.check()
    if r == z3.unsat:
        return Verdict("discharged", "z3", time.time() - t0)
    if r == z3.sat:
        return Verdict("refuted", "z3", time.time() - t0, model=_model_env(s.model()))
    reason = s.reason_unknown()
    if use_cvc5:
        c = _cvc5(list(assumptions) + [f], max(2.0, timeout_ms / 1000.0))
        if c == "unsat":
            return Verdict("discharged", "cvc5", time.time() - t0)
        if c == "sat":
            return Verdict("refuted", "cvc5", time.time() - t0, model=None)
    # last resort: z3 on the simplified (sum-of-monomials) form
    s2 = z3.Solver()
    s2.set("timeout", timeout_ms)
    s2.add(*assumptions)
    s2.add(fs)
    r2 = s2.check()
    if r2 == z3.unsat:
        return Verdict("discharged", "z3-som", time.time() - t0)
    if r2 == z3.sat:
        return Verdict("refuted", "z3-som", time.time() - t0, model=_model_env(s2.model()))
    return Verdict("unknown", "z3+cvc5", time.time() - t0, reason=reason)


def satisfiable(assumptions, timeout_ms=5000):
    s = z3.Solver()
    s.set("timeout", timeout_ms)
    s.add(*assumptions)
    return s.check()
