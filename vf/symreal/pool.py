"""Run a catalogue of cases on a fork pool and fold the results into a report.Run."""
import multiprocessing as mp
import os
import time

_CASES = None
_SEED = 0
_KW = {}


def _work(i):
    from .harness import run_vcase
    c = _CASES[i]
    t0 = time.time()
    from .core import OutsideExplorer
    try:
        if hasattr(c, "run"):
            r = c.run(_SEED)
        else:
            r = run_vcase(c, seed=_SEED, **_KW)
    except OutsideExplorer as e:
        r = {"name": getattr(c, "name", "?"), "key": getattr(c, "key", {}), "obligations": 1, "discharged": 0, "backends": {}, "paths": 0, "solver_s": 0.0, "failures": [],
             "undecided": [{"obligation": "%s.symbolic_run %s" % (getattr(c, "name", "?"), getattr(c, "key", {})), "reason": str(e)[:300]}], "errors": [], "notes": [],
             "status": "ok", "faithful": 0, "sample": None}
    r["index"] = i
    r["wall"] = time.time() - t0
    return r


def _cpu_seconds(pid):
    try:
        with open("/proc/%d/stat" % pid) as f:
            parts = f.read().rsplit(")", 1)[1].split()
        return (int(parts[11]) + int(parts[12])) / float(os.sysconf("SC_CLK_TCK"))
    except Exception:
        return 0.0


def _run_isolated(indices, procs, task_timeout):
    """fork one child per case (copy-on-write, a few ms); a child that dies (segfault in NumPy on a corrupted view, OOM kill) or hangs
    yields a 'crashed' result for that case instead of hanging the whole check"""
    import pickle
    import select
    import signal
    pending = list(indices)[::-1]
    running = {}          # fd -> [pid, index, start, buffer]
    results = []
    attempts = {}
    while pending or running:
        while pending and len(running) < procs:
            i = pending.pop()
            r, w = os.pipe()
            pid = os.fork()
            if pid == 0:
                os.close(r)
                code = 0
                try:
                    data = pickle.dumps(_work(i))
                    with os.fdopen(w, "wb") as f:
                        f.write(data)
                except BaseException:
                    code = 1
                os._exit(code)
            os.close(w)
            running[r] = [pid, i, time.time(), b""]
        ready, _, _ = select.select(list(running), [], [], 1.0)
        for fd in ready:
            chunk = os.read(fd, 1 << 20)
            if chunk:
                running[fd][3] += chunk
                continue
            pid, i, t0, buf = running.pop(fd)
            os.close(fd)
            _, status = os.waitpid(pid, 0)
            try:
                results.append(pickle.loads(buf))
            except Exception:
                # a child that could not even start its work (fork succeeded, but the interpreter could not get a thread / memory on a saturated machine) says nothing
                # about the case: it is run again, up to three times, before the death is reported
                attempts[i] = attempts.get(i, 0) + 1
                if attempts[i] < 3:
                    time.sleep(0.5 * attempts[i])
                    pending.append(i)
                    continue
                results.append(_crashed(i, "worker process died %d times (last wait status %d%s) while running this case" % (attempts[i], status, ", signal %d" % (status & 0x7f) if status & 0x7f else "")))
        now = time.time()
        for fd, (pid, i, t0, buf) in list(running.items()):
            # the budget is CPU time of the child (a loaded machine must not produce checker errors); wall time only guards against a sleeping hang
            if _cpu_seconds(pid) > task_timeout or now - t0 > 20 * task_timeout:
                try:
                    os.kill(pid, signal.SIGKILL)
                except OSError:
                    pass
                os.waitpid(pid, 0)
                os.close(fd)
                del running[fd]
                results.append(_crashed(i, "worker exceeded %ds of CPU time (or 20x that in wall time) and was killed" % task_timeout))
    return results


def _crashed(i, why):
    c = _CASES[i]
    r = {"index": i, "name": getattr(c, "name", "?"), "key": getattr(c, "key", {}), "obligations": 0, "discharged": 0, "backends": {}, "paths": 0, "solver_s": 0.0, "failures": [],
         "undecided": [], "errors": [], "notes": [], "status": "crashed", "faithful": 0, "sample": None, "wall": 0.0, "crash": why}
    # a crash of the symbolic run is decided by the case's own native replay (run in a child as well), if it has one
    hook = getattr(c, "on_crash", None)
    verdict = None
    if hook is not None:
        verdict = _in_child(lambda: hook(why), 120)
    if isinstance(verdict, dict) and verdict.get("failure"):
        r["failures"].append(verdict["failure"])
    else:
        r["errors"].append("%s %s: %s%s" % (r["name"], r["key"], why, "" if verdict is None else " (native replay: %s)" % str(verdict)[:300]))
    return r


def _in_child(fn, timeout):
    import pickle
    import select
    import signal
    r, w = os.pipe()
    pid = os.fork()
    if pid == 0:
        os.close(r)
        try:
            data = pickle.dumps(fn())
            with os.fdopen(w, "wb") as f:
                f.write(data)
        except BaseException:
            pass
        os._exit(0)
    os.close(w)
    buf = b""
    t0 = time.time()
    while True:
        ready, _, _ = select.select([r], [], [], 1.0)
        if ready:
            chunk = os.read(r, 1 << 20)
            if not chunk:
                break
            buf += chunk
        elif time.time() - t0 > timeout:
            os.kill(pid, signal.SIGKILL)
            break
    os.close(r)
    os.waitpid(pid, 0)
    try:
        return pickle.loads(buf)
    except Exception:
        return None


def run_catalogue(run, cases, seed=0, procs=None, property_filter=None, task_timeout=420, **kw):
    """cases: list of VCase (or objects with .run(seed) -> result dict). Results are folded into `run`."""
    global _CASES, _SEED, _KW
    _CASES = cases
    _SEED = seed
    _KW = kw
    procs = procs or min(16, os.cpu_count() or 4)
    results = _run_isolated(range(len(cases)), max(1, procs), task_timeout) if len(cases) > 0 else []
    results.sort(key=lambda r: r["index"])
    fold(run, cases, results)
    return results


def fold(run, cases, results):
    slow = []
    for r in results:
        c = cases[r["index"]]
        if getattr(c, "expect", "vjp") == "refute":
            run.canaries["run"] += 1
            if r["failures"] and not r["errors"]:
                run.canaries["refuted"] += 1
            else:
                run.error("canary %s was NOT refuted (failures=%d undecided=%d errors=%s): the checker is vacuous or unsound"
                          % (r["name"], len(r["failures"]), len(r["undecided"]), r["errors"][:1]))
            continue
        run.configs += 1
        run.obligations += r["obligations"]
        run.discharged += r["discharged"]
        run.merge_backend(r["backends"])
        run.paths += r["paths"]
        run.solver_s += r["solver_s"]
        run.faithfulness += r.get("faithful", 0)
        if getattr(c, "functions", None):
            run.under_contract(*c.functions)
        if r.get("sample"):
            run.sample(r["sample"])
        for f in r["failures"]:
            key = dict(r["key"])
            key["case"] = r["name"]
            run.violation(f["obligation"], f["what"], key=key, replay={"function": r["name"], "replay": f.get("replay"),
                          "solver": f.get("solver"), "answer": f.get("answer"), "eps_mode": r.get("eps_mode")},
                          reproduced=f.get("reproduced", True))
        for u in r["undecided"]:
            run.undecided_obligation(u["obligation"] + " " + str(r["key"]), u["reason"])
        for e in r["errors"]:
            run.error(e)
        for n in r.get("notes", []):
            run.extra.setdefault("notes", {})
            run.extra["notes"][n] = run.extra["notes"].get(n, 0) + 1
        if r.get("status") == "outside-subset":
            if getattr(c, "allow_outside", False):
                run.extra.setdefault("pyvc_not_claimed_outside_subset", []).append(r["name"])
            else:
                # the function was inside the pyvc subset when the contract was written: it can no longer be decided (never a violation)
                run.undecided_obligation(r["name"], "function left the pyvc subset: %s" % r.get("unsupported", ""))
        if r.get("status") == "rejected":
            run.extra["forward_rejected_configs"] = run.extra.get("forward_rejected_configs", 0) + 1
        if r.get("wall", 0) > 20:
            slow.append((round(r["wall"], 1), r["name"], r["key"]))
    if slow:
        run.extra["slow_cases"] = sorted(slow, key=lambda x: -x[0])[:10]
