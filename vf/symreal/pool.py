"""Run a catalogue of cases on a fork pool and fold the results into a report.Run."""
import multiprocessing as mp
import os
import time

_CASES = None
_SEED = 0
_KW = {}


def _work(i):
    from .harness import run_vcase
    c = _CASES[i]
    t0 = time.time()
    if hasattr(c, "run"):
        r = c.run(_SEED)
    else:
        r = run_vcase(c, seed=_SEED, **_KW)
    r["index"] = i
    r["wall"] = time.time() - t0
    return r


def run_catalogue(run, cases, seed=0, procs=None, property_filter=None, **kw):
    """cases: list of VCase (or objects with .run(seed) -> result dict). Results are folded into `run`."""
    global _CASES, _SEED, _KW
    _CASES = cases
    _SEED = seed
    _KW = kw
    procs = procs or min(16, os.cpu_count() or 4)
    results = []
    if procs > 1 and len(cases) > 1:
        ctx = mp.get_context("fork")
        with ctx.Pool(procs, maxtasksperchild=200) as pool:
            for r in pool.imap_unordered(_work, range(len(cases)), chunksize=1):
                results.append(r)
    else:
        for i in range(len(cases)):
            results.append(_work(i))
    results.sort(key=lambda r: r["index"])
    fold(run, cases, results)
    return results


def fold(run, cases, results):
    slow = []
    for r in results:
        c = cases[r["index"]]
        if getattr(c, "expect", "vjp") == "refute":
            run.canaries["run"] += 1
            if r["failures"] and not r["errors"]:
                run.canaries["refuted"] += 1
            else:
                run.error("canary %s was NOT refuted (failures=%d undecided=%d errors=%s): the checker is vacuous or unsound"
                          % (r["name"], len(r["failures"]), len(r["undecided"]), r["errors"][:1]))
            continue
        run.configs += 1
        run.obligations += r["obligations"]
        run.discharged += r["discharged"]
        run.merge_backend(r["backends"])
        run.paths += r["paths"]
        run.solver_s += r["solver_s"]
        run.faithfulness += r.get("faithful", 0)
        if getattr(c, "functions", None):
            run.under_contract(*c.functions)
        if r.get("sample"):
            run.sample(r["sample"])
        for f in r["failures"]:
            key = dict(r["key"])
            key["case"] = r["name"]
            run.violation(f["obligation"], f["what"], key=key, replay={"function": r["name"], "replay": f.get("replay"),
                          "solver": f.get("solver"), "answer": f.get("answer"), "eps_mode": r.get("eps_mode")},
                          reproduced=f.get("reproduced", True))
        for u in r["undecided"]:
            run.undecided_obligation(u["obligation"] + " " + str(r["key"]), u["reason"])
        for e in r["errors"]:
            run.error(e)
        for n in r.get("notes", []):
            run.extra.setdefault("notes", {})
            run.extra["notes"][n] = run.extra["notes"].get(n, 0) + 1
        if r.get("status") == "outside-subset":
            if getattr(c, "allow_outside", False):
                run.extra.setdefault("pyvc_not_claimed_outside_subset", []).append(r["name"])
            else:
                # the function was inside the pyvc subset when the contract was written: it can no longer be decided (never a violation)
                run.undecided_obligation(r["name"], "function left the pyvc subset: %s" % r.get("unsupported", ""))
        if r.get("status") == "rejected":
            run.extra["forward_rejected_configs"] = run.extra.get("forward_rejected_configs", 0) + 1
        if r.get("wall", 0) > 20:
            slow.append((round(r["wall"], 1), r["name"], r["key"]))
    if slow:
        run.extra["slow_cases"] = sorted(slow, key=lambda x: -x[0])[:10]
