"""The symbolic interpretation layer: monkeypatches applied inside the checking process only, never to /repo.

Each shim is a statement that "a float array is read as an array of reals":
 (1) synapgrad.utils.is_floating_point also accepts symbolic object arrays;
 (2) synapgrad.tensor.default_type__ = object so python scalars / 0-d results are not forced through float32;
 (3) the name `np` in cpu_ops / conv_tools / nn.layers / optim.optimizers / nn.functional is bound to a proxy that forwards
     to NumPy except: allocation without dtype yields exact 0/1 objects, and exp/log/sqrt/tanh lift plain numbers;
 (4) cpu_ops.epsilon is a symbolic constant EPS >= 0 (or exactly 0 in the "guard-consistent at eps=0" mode).
"""
import contextlib
import math as _math
import importlib
import sys

import numpy as np
import z3

from . import core
from .core import S, lift_arr, is_sym


class NPProxy:
    """forwarding proxy for the module-level name `np`"""

    def __getattr__(self, k):
        return getattr(np, k)

    @staticmethod
    def _obj(shape, v):
        a = np.empty(shape, dtype=object)
        a[...] = v
        return a

    def zeros(self, shape, dtype=None, **kw):
        if dtype is None:
            return self._obj(shape, 0)
        return np.zeros(shape, dtype=dtype, **kw)

    def ones(self, shape, dtype=None, **kw):
        if dtype is None:
            return self._obj(shape, 1)
        return np.ones(shape, dtype=dtype, **kw)

    def empty(self, shape, dtype=None, **kw):
        if dtype is None:
            return self._obj(shape, 0)
        return np.empty(shape, dtype=dtype, **kw)

    def full(self, shape, fill_value, dtype=None, **kw):
        if dtype is None:
            return self._obj(shape, fill_value)
        return np.full(shape, fill_value, dtype=dtype, **kw)

    @staticmethod
    def _lift1(name):
        def f(x, *a, **k):
            if isinstance(x, S):
                return getattr(x, name)()
            if isinstance(x, np.ndarray) and x.dtype == object:
                return getattr(np, name)(lift_arr(x), *a, **k)
            if isinstance(x, (int, float)) and not isinstance(x, bool) and name == "log":
                if x == 0:
                    return float("-inf")        # np.log(0) = -inf (only reached with cpu_ops.epsilon := 0)
                return S.of(x).log()
            return getattr(np, name)(x, *a, **k)
        return f


for _n in ("exp", "log", "sqrt", "tanh"):
    setattr(NPProxy, _n, staticmethod(NPProxy._lift1(_n)))

class MathProxy:
    """stand-in for the `math` module of the patched modules: the scalar functions lift to symbolic reals, everything else is math's own"""

    def __getattr__(self, k):
        return getattr(_math, k)


def _mlift(name):
    def f(x, *a):
        if isinstance(x, S):
            return getattr(x, name)()
        return getattr(_math, name)(x, *a)
    return f


for _n in ("exp", "log", "sqrt", "tanh"):
    setattr(MathProxy, _n, staticmethod(_mlift(_n)))
MathProxy.pow = staticmethod(lambda x, y: x ** y if isinstance(x, S) or isinstance(y, S) else _math.pow(x, y))
MathProxy.fabs = staticmethod(lambda x: abs(x) if isinstance(x, S) else _math.fabs(x))

PROXY = NPProxy()
MPROXY = MathProxy()
PATCHED_MODULES = ["synapgrad.cpu_ops", "synapgrad.conv_tools", "synapgrad.nn.layers", "synapgrad.optim.optimizers",
                   "synapgrad.nn.functional"]


def tmod():
    import synapgrad  # noqa
    return sys.modules["synapgrad.tensor"]


def eps_symbol():
    return core.session().var("EPS")


@contextlib.contextmanager
def symbolic(eps="symbolic"):
    """install the shims; eps: 'symbolic' (EPS>=0 free), 'zero' (exact 0), or 'native' (leave 1e-12)"""
    import synapgrad  # noqa
    from synapgrad import utils, cpu_ops
    tm = tmod()
    saved = []

    def patch(obj, name, val):
        saved.append((obj, name, getattr(obj, name)))
        setattr(obj, name, val)

    orig_isfp = utils.is_floating_point
    patch(utils, "is_floating_point", lambda array: array.dtype == object or orig_isfp(array))
    patch(tm, "default_type__", object)
    for mn in PATCHED_MODULES:
        try:
            m = importlib.import_module(mn)
        except Exception:
            continue
        if hasattr(m, "np"):
            patch(m, "np", PROXY)
        if getattr(m, "math", None) is _math:
            patch(m, "math", MPROXY)
    if eps == "symbolic":
        e = eps_symbol()
        core.session().pre.append(e >= 0)
        patch(cpu_ops, "epsilon", S(e))
    elif eps == "zero":
        patch(cpu_ops, "epsilon", 0)
    patch(tm, "gradient__", True)
    patch(tm, "retain_grads__", False)
    try:
        yield
    finally:
        for obj, name, val in reversed(saved):
            setattr(obj, name, val)


@contextlib.contextmanager
def native(dtype=np.float64):
    """native replays: the real code on float arrays; default_type__ is float64 so that python-scalar operands
    are not rounded to float32 (keeps finite-difference oracles meaningful)"""
    tm = tmod()
    saved = (tm.default_type__, tm.gradient__, tm.retain_grads__)
    tm.default_type__ = dtype
    tm.gradient__ = True
    tm.retain_grads__ = False
    try:
        yield
    finally:
        tm.default_type__, tm.gradient__, tm.retain_grads__ = saved
