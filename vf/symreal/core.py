"""symreal core: symbolic real numbers that NumPy's object loops can compute with.

A value S is a formal fraction n/d of z3 Real terms (polynomials over atoms).  Atoms are input variables and
applications of the uninterpreted functions exp/log/sqrt/tanh/pow.  Comparisons give a symbolic boolean B whose
truth value is a *path decision* taken by the active Explorer (exhaustive re-execution with feasibility pruning).
"""
import math
import operator
from fractions import Fraction

import numpy as np
import z3

R = z3.RealSort()


class Atom:
    """an application exp(t) / log(t) / sqrt(t) / tanh(t) / pow(t, c), represented by a fresh real constant so that every
    obligation is a pure polynomial (QF_NRA) problem; the defining relation is kept in the session's atom table and is
    used for differentiation, numeric evaluation and the sign/monotonicity axioms"""
    __slots__ = ("name", "kind", "arg", "extra", "const", "fv", "axioms", "deps")

    def __init__(self, name, kind, arg, extra, const):
        self.name = name
        self.kind = kind
        self.arg = arg          # S
        self.extra = extra      # Fraction exponent for pow
        self.const = const
        self.fv = None
        self.axioms = []
        self.deps = None        # names of atoms occurring in the argument (transitively)

_consts = {}


def RV(x):
    """exact rational constant"""
    if isinstance(x, Fraction):
        key = x
    elif isinstance(x, (int, np.integer, bool, np.bool_)):
        key = Fraction(int(x))
    else:
        key = Fraction(float(x))
    r = _consts.get(key)
    if r is None:
        r = z3.RealVal(str(key))
        _consts[key] = r
    return r


ZERO = RV(0)
ONE = RV(1)


def isc(e, v=None):
    return z3.is_rational_value(e) and (v is None or e.as_fraction() == v)


def cval(e):
    return e.as_fraction()


def t_mul(a, b):
    ca, cb = z3.is_rational_value(a), z3.is_rational_value(b)
    if ca:
        fa = a.as_fraction()
        if fa == 0:
            return ZERO
        if fa == 1:
            return b
        if cb:
            return RV(fa * b.as_fraction())
    if cb:
        fb = b.as_fraction()
        if fb == 0:
            return ZERO
        if fb == 1:
            return a
    return a * b


def t_add(a, b):
    ca, cb = z3.is_rational_value(a), z3.is_rational_value(b)
    if ca:
        fa = a.as_fraction()
        if fa == 0:
            return b
        if cb:
            return RV(fa + b.as_fraction())
    if cb and b.as_fraction() == 0:
        return a
    return a + b


def t_neg(a):
    if z3.is_rational_value(a):
        return RV(-a.as_fraction())
    return -a


def lin_decompose(t, scale=Fraction(1), acc=None):
    """flatten a z3 real term into  const + sum coef_i * atom_i ; returns (const, {id: [coef, atom]})"""
    if acc is None:
        acc = [Fraction(0), {}]
    stack = [(t, scale)]
    while stack:
        e, k = stack.pop()
        if z3.is_rational_value(e):
            acc[0] += k * e.as_fraction()
            continue
        kind = e.decl().kind()
        ch = e.children()
        if kind == z3.Z3_OP_ADD:
            stack.extend((c, k) for c in ch)
        elif kind == z3.Z3_OP_SUB:
            stack.append((ch[0], k))
            stack.extend((c, -k) for c in ch[1:])
        elif kind == z3.Z3_OP_UMINUS:
            stack.append((ch[0], -k))
        elif kind == z3.Z3_OP_MUL and sum(1 for c in ch if not z3.is_rational_value(c)) == 1:
            f = k
            rest = None
            for c in ch:
                if z3.is_rational_value(c):
                    f *= c.as_fraction()
                else:
                    rest = c
            stack.append((rest, f))
        elif kind == z3.Z3_OP_DIV and z3.is_rational_value(ch[1]) and ch[1].as_fraction() != 0:
            stack.append((ch[0], k / ch[1].as_fraction()))
        else:
            i = e.get_id()
            if i in acc[1]:
                acc[1][i][0] += k
            else:
                acc[1][i] = [k, e]
    return acc[0], acc[1]


def lin_rebuild(const, terms):
    """canonical z3 term for const + sum coef*atom (atoms ordered by AST id: stable within a process)"""
    r = None
    for i in sorted(terms):
        k, a = terms[i]
        if k == 0:
            continue
        t = a if k == 1 else (-a if k == -1 else RV(k) * a)
        r = t if r is None else r + t
    if const != 0 or r is None:
        c = RV(const)
        r = c if r is None else r + c
    return r


def term_to_S(u):
    if u.decl().kind() == z3.Z3_OP_DIV:
        return S(u.arg(0), u.arg(1))
    return S(u)


def _lin_key(arg):
    """hashable linear-combination key of an exp argument (None if the denominator is not constant)"""
    if not z3.is_rational_value(arg.d):
        return None
    c0, terms = lin_decompose(arg.n, 1 / arg.d.as_fraction())
    return (c0, tuple(sorted((i, k) for i, (k, a) in terms.items() if k != 0)))


def _lin_add(x, y):
    d = dict(x[1])
    for i, k in y[1]:
        d[i] = d.get(i, 0) + k
    return (x[0] + y[0], tuple(sorted((i, k) for i, k in d.items() if k != 0)))


def _syntactically_positive(t):
    if z3.is_rational_value(t):
        return t.as_fraction() > 0
    k = t.decl().kind()
    ch = t.children()
    if not ch:
        at = SESSION.atom_of(t)
        return at is not None and at.kind in ("exp", "pow")
    if k in (z3.Z3_OP_ADD, z3.Z3_OP_MUL):
        return all(_syntactically_positive(c) for c in ch)
    return False


class Session:
    """per-case symbolic state: atom axioms, preconditions, definedness side conditions, the active explorer"""

    def __init__(self):
        self.axioms = []
        self.axiom_ids = set()
        self.pre = []
        self.defined = []       # (description, z3 condition that must hold)
        self.explorer = None
        self.atoms = {}         # (kind, arg term id, extra) -> Atom
        self.atom_names = {}    # constant name -> Atom
        self.nvars = 0
        self.vars = {}          # name -> z3 const

    def add_axiom(self, *fs, atom=None):
        for f in fs:
            k = f.get_id()
            if k not in self.axiom_ids:
                self.axiom_ids.add(k)
                if atom is not None:
                    atom.axioms.append(f)
                else:
                    self.axioms.append(f)          # global axioms (constants such as ln[c])

    def relevant_axioms(self, terms, seen=None):
        """global axioms + the axioms of every atom occurring (transitively, through atom arguments) in `terms`"""
        names = set() if seen is None else seen
        out = []
        stack = list(terms)
        visited = set()
        while stack:
            t = stack.pop()
            k = t.get_id()
            if k in visited:
                continue
            visited.add(k)
            ch = t.children()
            if not ch:
                if z3.is_rational_value(t) or t.decl().kind() != z3.Z3_OP_UNINTERPRETED:
                    continue
                at = self.atom_names.get(t.decl().name())
                if at is not None and at.name not in names:
                    names.add(at.name)
                    out.extend(at.axioms)
                    stack.append(at.arg.n)
                    stack.append(at.arg.d)
                    stack.extend(at.axioms)
            else:
                stack.extend(ch)
        return out

    def var(self, name):
        v = self.vars.get(name)
        if v is None:
            v = z3.Real(name)
            self.vars[name] = v
        return v

    def atom(self, kind, arg, extra=None):
        """arg: S.  Returns (Atom, is_new)"""
        t = arg.term()
        key = (kind, t.get_id(), extra)
        a = self.atoms.get(key)
        if a is not None:
            return a, False
        # congruence up to polynomial normal form: arguments that are the same polynomial fraction written differently
        # (different association / order of the same arithmetic) denote the same atom
        kn = z3.simplify(arg.n, som=True)
        kd = z3.simplify(arg.d, som=True)
        key2 = (kind, "nf", kn.get_id(), kd.get_id(), extra)
        a = self.atoms.get(key2)
        if a is not None:
            self.atoms[key] = a
            self._keep = getattr(self, "_keep", [])
            self._keep.append(t)
            return a, False
        name = "@%s%d" % (kind, len(self.atom_names))
        a = Atom(name, kind, arg, extra, z3.Real(name))
        self.atoms[key] = a
        self.atoms[key2] = a
        self.atom_names[name] = a
        self._keep = getattr(self, "_keep", [])
        self._keep.extend([t, kn, kd])        # keep the argument terms alive so their AST ids are not reused
        return a, True

    def atom_of(self, e):
        """Atom for a z3 constant, or None"""
        if e.num_args() != 0 or z3.is_rational_value(e):
            return None
        return self.atom_names.get(e.decl().name())


SESSION = Session()


def new_session():
    global SESSION
    SESSION = Session()
    return SESSION


def session():
    return SESSION


NEG_INF = float("-inf")
POS_INF = float("inf")


class S:
    """symbolic real n/d"""
    __slots__ = ("n", "d")

    def __init__(self, n, d=ONE):
        self.n = n
        self.d = d

    # ------------------------------------------------------------ construction
    @staticmethod
    def of(x):
        if isinstance(x, S):
            return x
        if isinstance(x, B):
            return S(ONE) if bool(x) else S(ZERO)
        if isinstance(x, (bool, np.bool_, int, np.integer)):
            return S(RV(int(x)))
        if isinstance(x, (float, np.floating)):
            if x != x or x in (POS_INF, NEG_INF):
                raise ArithmeticError("non-finite constant %r in symbolic arithmetic" % (x,))
            return S(RV(float(x)))
        if isinstance(x, Fraction):
            return S(RV(x))
        if isinstance(x, np.ndarray) and x.ndim == 0:
            return S.of(x.item())
        raise TypeError("cannot lift %r to S" % (type(x),))

    def term(self):
        return self.n if isc(self.d, 1) else self.n / self.d

    def is_const(self):
        return z3.is_rational_value(self.n) and z3.is_rational_value(self.d)

    def const(self):
        return self.n.as_fraction() / self.d.as_fraction()

    # -------------------------------------------------------------- arithmetic
    def __add__(self, o):
        if isinstance(o, np.ndarray):
            return NotImplemented
        try:
            o = S.of(o)
        except TypeError:
            return NotImplemented
        if self.d.eq(o.d):
            return S(t_add(self.n, o.n), self.d)
        if isc(o.n, 0):
            return self
        if isc(self.n, 0):
            return o
        return S(t_add(t_mul(self.n, o.d), t_mul(o.n, self.d)), t_mul(self.d, o.d))

    __radd__ = __add__

    def __neg__(self):
        return S(t_neg(self.n), self.d)

    def __pos__(self):
        return self

    def __sub__(self, o):
        if isinstance(o, np.ndarray):
            return NotImplemented
        try:
            return self + (-S.of(o))
        except TypeError:
            return NotImplemented

    def __rsub__(self, o):
        try:
            return S.of(o) + (-self)
        except TypeError:
            return NotImplemented

    def __mul__(self, o):
        if isinstance(o, np.ndarray):
            return NotImplemented
        try:
            o = S.of(o)
        except TypeError:
            return NotImplemented
        return S(t_mul(self.n, o.n), t_mul(self.d, o.d))

    __rmul__ = __mul__

    def inv(self):
        if isc(self.n, 0):
            raise ZeroDivisionError("symbolic division by the constant 0")
        if z3.is_rational_value(self.n) and isc(self.d, 1):
            return S(RV(1 / self.n.as_fraction()))
        if not z3.is_rational_value(self.n):
            SESSION.defined.append(("division", self.n))
        return S(self.d, self.n)

    def inv_nocheck(self):
        return S(self.d, self.n)

    def __truediv__(self, o):
        if isinstance(o, np.ndarray):
            return NotImplemented
        try:
            return self * S.of(o).inv()
        except TypeError:
            return NotImplemented

    def __rtruediv__(self, o):
        try:
            return S.of(o) * self.inv()
        except TypeError:
            return NotImplemented

    def __pow__(self, n):
        if isinstance(n, np.ndarray):
            return NotImplemented
        if isinstance(n, S):
            if n.is_const():
                n = n.const()
            else:
                # general power a ** b = exp(b * log a)
                return (n * self.log()).exp()
        fn = float(n)
        if fn.is_integer():
            k = int(fn)
            b = self if k >= 0 else self.inv()
            r = S(ONE)
            for _ in range(abs(k)):
                r = r * b
            return r
        if (fn * 2).is_integer():
            return self.sqrt() ** int(fn * 2)
        a, new = SESSION.atom("pow", self, Fraction(fn))
        if new:
            SESSION.add_axiom(a.const > 0, atom=a)
            SESSION.defined.append(("pow-base-positive", self.term()))
        return S(a.const)

    def __rpow__(self, base):
        # base ** self = exp(self * ln base)
        return (self * S.of(base).log()).exp()

    def __abs__(self):
        return self if bool(self >= 0) else -self

    # --------------------------------------------------------- transcendentals
    def exp(self):
        """normal form of exp: log atoms are extracted (exp(t + k*log u) = exp(t) * u**k), a single-term argument k*x is
        written over the basis atom E(x) (so exp(-x) = 1/exp(x), exp(2x) = exp(x)**2 hold structurally), and a multi-term
        argument is one atom over the canonically ordered linear combination."""
        if self.is_const() and self.const() == 0:
            return S(ONE)
        if not z3.is_rational_value(self.d):
            return self._exp_atom(self)
        c0, terms = lin_decompose(self.n, 1 / self.d.as_fraction())
        r = S(ONE)
        live = {}
        for i in sorted(terms):
            k, a = terms[i]
            if k == 0:
                continue
            at = SESSION.atom_of(a)
            if at is not None and at.kind == "log" and k.denominator == 1:
                r = r * (at.arg ** int(k))
            else:
                live[i] = [k, a]
        if not live and c0 == 0:
            return r
        if len(live) == 1 and c0 == 0:
            (k, a), = live.values()
            if k.denominator == 1:
                return r * (self._exp_atom(S(a)) ** int(k))
            base = self._exp_atom(S(RV(abs(k)) * a))
            return r * (base if k > 0 else base.inv_nocheck())
        return r * self._exp_atom(S(lin_rebuild(c0, live)))

    @staticmethod
    def _exp_atom(arg):
        a, new = SESSION.atom("exp", arg)
        if new:
            e = a.const
            t = arg.term()
            ax = [e > 0, (e > 1) == (t > 0), (e == 1) == (t == 0)]
            # instantiated product rule: E(s) * E(t) == E(u) whenever s + t == u as linear combinations (atoms at hand only)
            lin_new = _lin_key(arg)
            a.extra = lin_new
            if lin_new is not None:
                others = [b for b in SESSION.atom_names.values() if b.kind == "exp" and b is not a and b.extra is not None]
                for b in others:
                    for c in others:
                        if b.name <= c.name and _lin_add(b.extra, c.extra) == lin_new:
                            ax.append(e == b.const * c.const)
                    d = _lin_add(lin_new, b.extra)
                    for c in others:
                        if c is not b and c.extra == d:
                            ax.append(c.const == e * b.const)
                    if _lin_add(lin_new, lin_new) == b.extra:
                        ax.append(b.const == e * e)
            SESSION.add_axiom(*ax, atom=a)
        return S(a.const)

    def log(self):
        if self.is_const():
            c = self.const()
            if c == 1:
                return S(ZERO)
            if c > 0:
                v = SESSION.var("ln[%s]" % c)
                SESSION.add_axiom((v > 0) if c > 1 else (v < 0))
                return S(v)
            raise ArithmeticError("log of non-positive constant")
        if isc(self.d, 1):
            at = SESSION.atom_of(self.n)
            if at is not None and at.kind == "exp":
                return at.arg                           # log(exp t) = t
        # log(n/d) = log n - log d  when d is syntactically positive (sums/products of exp atoms, pow atoms, positive constants)
        if not z3.is_rational_value(self.d) and _syntactically_positive(self.d):
            return S(self.n).log() - S(self.d).log()
        # log(c * exp(t1) * ... * rest) = ln c + t1 + ... + log(rest)   (rest > 0 follows from the argument being > 0)
        if z3.is_rational_value(self.d):
            fs = self.n.children() if (self.n.decl().kind() == z3.Z3_OP_MUL) else [self.n]
            pulled = None
            rest = []
            cst = 1 / self.d.as_fraction()
            for f in fs:
                at = SESSION.atom_of(f) if f.num_args() == 0 and not z3.is_rational_value(f) else None
                if at is not None and at.kind == "exp":
                    pulled = at.arg if pulled is None else pulled + at.arg
                elif z3.is_rational_value(f):
                    cst = cst * f.as_fraction()
                else:
                    rest.append(f)
            if pulled is not None and cst > 0:
                r = pulled
                if cst != 1:
                    r = r + S(RV(cst)).log()
                if rest:
                    prod = rest[0]
                    for f in rest[1:]:
                        prod = prod * f
                    r = r + S(prod).log()
                return r
        a, new = SESSION.atom("log", self)
        if new:
            e = a.const
            t = self.term()
            SESSION.add_axiom((e > 0) == (t > 1), (e == 0) == (t == 1), atom=a)
            SESSION.defined.append(("log-positive", t))
        return S(a.const)

    def sqrt(self):
        if self.is_const():
            c = self.const()
            r = Fraction(math.isqrt(c.numerator), 1) / Fraction(math.isqrt(c.denominator), 1) if c >= 0 else None
            if r is not None and r * r == c:
                return S(RV(r))
        a, new = SESSION.atom("sqrt", self)
        if new:
            e = a.const
            t = self.term()
            # r*r = t is stated division-free
            SESSION.add_axiom(e >= 0, t_mul(t_mul(e, e), self.d) == self.n, (e > 0) == (t > 0), atom=a)
            SESSION.defined.append(("sqrt-nonnegative", t))
        return S(a.const)

    def tanh(self):
        if self.is_const() and self.const() == 0:
            return S(ZERO)
        a, new = SESSION.atom("tanh", self)
        if new:
            e = a.const
            t = self.term()
            SESSION.add_axiom(e < 1, e > -1, (e > 0) == (t > 0), (e == 0) == (t == 0), atom=a)
        return S(a.const)

    def conjugate(self):
        return self

    @property
    def real(self):
        return self

    @property
    def imag(self):
        return S(ZERO)

    # ------------------------------------------------------------- comparisons
    def _cmp(self, o, op, name):
        if isinstance(o, np.ndarray):
            return NotImplemented
        if isinstance(o, (float, np.floating)) and (o == NEG_INF or o == POS_INF):
            lo = o == NEG_INF
            return {"gt": lo, "ge": lo, "lt": not lo, "le": not lo, "eq": False, "ne": True}[name]
        try:
            o = S.of(o)
        except TypeError:
            return NotImplemented
        if self.is_const() and o.is_const():
            return bool(op(self.const(), o.const()))
        return B(op(self.term(), o.term()), self, o, name)

    def __gt__(self, o): return self._cmp(o, operator.gt, "gt")
    def __ge__(self, o): return self._cmp(o, operator.ge, "ge")
    def __lt__(self, o): return self._cmp(o, operator.lt, "lt")
    def __le__(self, o): return self._cmp(o, operator.le, "le")
    def __eq__(self, o): return self._cmp(o, operator.eq, "eq")
    def __ne__(self, o): return self._cmp(o, operator.ne, "ne")
    __hash__ = None

    def __bool__(self):
        if self.is_const():
            return self.const() != 0
        return bool(self != 0)

    def __float__(self):
        if self.is_const():
            return float(self.const())
        raise TypeError("symbolic value has no float()")

    def __repr__(self):
        return "S(%s)" % (self.term(),)

    # --------------------------------------- numpy-scalar duck typing (0-d results)
    shape = ()
    ndim = 0
    size = 1

    def sum(self, axis=None, keepdims=False, **kw): return self
    mean = sum
    max = sum
    min = sum

    def reshape(self, *shape):
        return np.array(self, dtype=object).reshape(*shape)

    def __getitem__(self, idx):
        # a NumPy scalar can be indexed like a 0-d array (x[...], x[..., None], x[()]); anything else raises as NumPy does
        r = np.array(self, dtype=object)[idx]
        return r.item() if isinstance(r, np.ndarray) and r.shape == () else r

    def squeeze(self, *a): return self
    def copy(self): return self
    def astype(self, *a, **k): return self
    def item(self): return self
    def __copy__(self): return self
    def __deepcopy__(self, memo): return self


# NOTE: S must define neither __array_ufunc__ nor __array_priority__, or `ndarray + S` fails.


class OutsideExplorer(BaseException):
    """the code under test branched on a symbolic value in a harness that does not explore paths: a limit of the CHECKER (the case is
    undecided), never a defect of the code -- derived from BaseException so that no `except Exception` mistakes it for one"""


class B:
    """symbolic boolean; bool() is a path decision"""
    __slots__ = ("c", "l", "r", "k")

    def __init__(self, c, l, r, k=None):
        self.c = c
        self.l = l
        self.r = r
        self.k = k              # eq | ne | lt | le | gt | ge

    def __bool__(self):
        c = z3.simplify(self.c)
        if z3.is_true(c):
            return True
        if z3.is_false(c):
            return False
        ex = SESSION.explorer
        if ex is None:
            # no path exploration active: the comparison must be decided by the preconditions alone
            for val, lit in ((True, c), (False, z3.Not(c))):
                sv = z3.Solver()
                sv.set("timeout", 5000)
                sv.add(*SESSION.pre)
                sv.add(*SESSION.relevant_axioms([c] + list(SESSION.pre)))
                sv.add(z3.Not(lit))
                if sv.check() == z3.unsat:
                    return val
            raise OutsideExplorer("symbolic branch outside an Explorer run: %s is not decided by the preconditions" % c)
        return ex.decide(c, self.l, self.r, self.k)

    def _s(self):
        return S.of(self)

    def __add__(self, o): return self._s() + o
    __radd__ = __add__
    def __mul__(self, o): return self._s() * o
    __rmul__ = __mul__
    def __sub__(self, o): return self._s() - o
    def __rsub__(self, o): return o - self._s()
    def __neg__(self): return -self._s()
    def __invert__(self): return not bool(self)
    def __and__(self, o): return bool(self) and bool(o)
    __rand__ = __and__
    def __or__(self, o): return bool(self) or bool(o)
    __ror__ = __or__


class PathBudgetExceeded(Exception):
    pass


class Explorer:
    """exhaustive exploration of all feasible decision vectors by re-execution"""

    def __init__(self, pre=(), max_paths=4096, timeout_ms=5000):
        self.pre = list(pre)
        self.max_paths = max_paths
        self.timeout_ms = timeout_ms
        self.queue = [[]]
        self.paths = 0
        self.solver_calls = 0
        self.solver = None
        self.unknown_feasibility = 0
        self.inherent_ties = 0
        self.pins = 0
        self._keepalive = []

    def run(self, fn):
        """fn() is executed once per feasible path; yields (result, path_condition_list)"""
        sess = SESSION
        sess.explorer = self
        results = []
        try:
            while self.queue:
                if self.paths >= self.max_paths:
                    raise PathBudgetExceeded("more than %d paths" % self.max_paths)
                self.script = self.queue.pop()
                self.pos = 0
                self.pc = []
                self.solver = z3.Solver()
                self.solver.set("timeout", self.timeout_ms)
                self.solver.add(*self.pre)
                self.solver.add(*sess.pre)
                self.solver.add(*sess.axioms)
                self.ax_seen = set()
                self.decided = {}
                self.path_pins = 0
                self.solver.add(*sess.relevant_axioms(list(self.pre) + list(sess.pre), self.ax_seen))
                res = fn()
                results.append((res, list(self.pc)))
                self.paths += 1
        finally:
            sess.explorer = None
            self.solver = None
        return results

    def _feasible(self, *lits):
        self.solver_calls += 1
        self.solver.push()
        self.solver.add(*lits)
        r = self.solver.check()
        self.solver.pop()
        if r == z3.unknown:
            self.unknown_feasibility += 1
        return r != z3.unsat

    def decide(self, c, l, r, kind=None):
        """script entries are (value, use_strict). Ties between the two compared terms are excluded (strictness) unless
        the tie is inherent, i.e. forced by the path condition -- or the code itself TESTS FOR EQUALITY WITH A CONSTANT
        (`x == 0`, `x != 0`, truthiness, `.any()`): then the code singles that point out, it belongs to the op's domain, and both
        sides are explored (the path condition then pins the term to the constant)."""
        cid = c.get_id()
        pin = kind in ("eq", "ne") and (l.is_const() or r.is_const())
        if pin:
            self.path_pins = getattr(self, "path_pins", 0) + 1
        if cid in self.decided:
            return self.decided[cid]            # the same comparison was already decided on this path
        strict = (l.n * r.d != r.n * l.d) if not (isc(l.d, 1) and isc(r.d, 1)) else (l.n != r.n)
        ax = SESSION.relevant_axioms([c, strict], self.ax_seen)
        if ax:
            self.solver.add(*ax)
        if self.pos < len(self.script):
            v, use_strict = self.script[self.pos]
        else:
            use_strict = not pin
            if pin:
                self.pins += 1
                ft = self._feasible(c)
                ff = self._feasible(z3.Not(c))
            else:
                ft = self._feasible(c, strict)
                ff = self._feasible(z3.Not(c), strict)
            if not pin and not ft and not ff:
                use_strict = False
                self.inherent_ties += 1
                ft = self._feasible(c)
                ff = self._feasible(z3.Not(c))
            if ft and ff:
                v = True
                self.queue.append(self.script[:self.pos] + [(False, use_strict)])
            elif ft:
                v = True
            else:
                v = False
            self.script = self.script[:self.pos] + [(v, use_strict)]
        self.decided[cid] = v
        self._keepalive.append(c)
        self.pos += 1
        lit = c if v else z3.Not(c)
        self.pc.append(lit)
        self.solver.add(lit)
        if use_strict:
            self.pc.append(strict)
            self.solver.add(strict)
        return v


# ------------------------------------------------------------------------------------------------ arrays
def symarr(name, shape):
    a = np.empty(shape, dtype=object)
    if a.ndim == 0:
        a[()] = S(SESSION.var(name))
        return a
    for idx in np.ndindex(*shape):
        a[idx] = S(SESSION.var(name + "_" + "_".join(map(str, idx))))
    return a


def lift_arr(x):
    """make every element of an object array an S (plain numbers -> constants)"""
    if isinstance(x, np.ndarray):
        if x.dtype != object:
            x = x.astype(object)
        out = np.empty(x.shape, dtype=object)
        if x.ndim == 0:
            out[()] = S.of(x[()])
            return out
        for i in np.ndindex(*x.shape):
            out[i] = S.of(x[i])
        return out
    if isinstance(x, S):
        return x
    if isinstance(x, (int, float, np.integer, np.floating, bool, np.bool_)):
        return S.of(x)
    return x


def is_sym(x):
    return isinstance(x, S) or (isinstance(x, np.ndarray) and x.dtype == object)


# --------------------------------------------------------------------------------------- numeric evaluation
_FUN = {"exp": math.exp, "log": math.log, "sqrt": math.sqrt, "tanh": math.tanh}


class EvalError(Exception):
    pass


def evalterm(e, env, memo=None):
    """evaluate a z3 real/bool term at a float point; env maps variable name -> float"""
    if memo is None:
        memo = {}
    stack = [e]
    while stack:
        t = stack[-1]
        k = t.get_id()
        if k in memo:
            stack.pop()
            continue
        if z3.is_rational_value(t):
            f = t.as_fraction()
            memo[k] = f.numerator / f.denominator
            stack.pop()
            continue
        ch = t.children()
        missing = [c for c in ch if c.get_id() not in memo]
        if missing:
            stack.extend(missing)
            continue
        stack.pop()
        vals = [memo[c.get_id()] for c in ch]
        kind = t.decl().kind()
        try:
            if not ch:
                if z3.is_true(t):
                    r = True
                elif z3.is_false(t):
                    r = False
                else:
                    name = t.decl().name()
                    if name.startswith("ln["):
                        r = math.log(float(Fraction(name[3:-1])))
                    elif name[0] == "@":
                        at = SESSION.atom_names[name]
                        an = evalterm(at.arg.n, env, memo)
                        ad = evalterm(at.arg.d, env, memo)
                        av = an / ad
                        if at.kind == "pow":
                            r = av ** float(at.extra)
                        else:
                            r = _FUN[at.kind](av)
                        if isinstance(r, complex):
                            raise EvalError("complex value")
                    else:
                        r = env[name]
            elif kind == z3.Z3_OP_ADD:
                r = math.fsum(vals)
            elif kind == z3.Z3_OP_SUB:
                r = vals[0] - math.fsum(vals[1:])
            elif kind == z3.Z3_OP_UMINUS:
                r = -vals[0]
            elif kind == z3.Z3_OP_MUL:
                r = 1.0
                for v in vals:
                    r *= v
            elif kind == z3.Z3_OP_DIV:
                r = vals[0] / vals[1]
            elif kind == z3.Z3_OP_POWER:
                r = vals[0] ** vals[1]
            elif kind == z3.Z3_OP_GT:
                r = vals[0] > vals[1]
            elif kind == z3.Z3_OP_GE:
                r = vals[0] >= vals[1]
            elif kind == z3.Z3_OP_LT:
                r = vals[0] < vals[1]
            elif kind == z3.Z3_OP_LE:
                r = vals[0] <= vals[1]
            elif kind == z3.Z3_OP_EQ:
                r = vals[0] == vals[1]
            elif kind == z3.Z3_OP_DISTINCT:
                r = len(set(vals)) == len(vals)
            elif kind == z3.Z3_OP_NOT:
                r = not vals[0]
            elif kind == z3.Z3_OP_AND:
                r = all(vals)
            elif kind == z3.Z3_OP_OR:
                r = any(vals)
            elif kind == z3.Z3_OP_IMPLIES:
                r = (not vals[0]) or vals[1]
            elif kind == z3.Z3_OP_ITE:
                r = vals[1] if vals[0] else vals[2]
            elif kind == z3.Z3_OP_TO_REAL:
                r = float(vals[0])
            else:
                raise EvalError("unsupported z3 op %s" % t.decl())
        except (ZeroDivisionError, ValueError, OverflowError) as ex:
            raise EvalError(str(ex))
        memo[k] = r
    return memo[e.get_id()]


def evalS(s, env, memo=None):
    s = S.of(s)
    if memo is None:
        memo = {}
    n = evalterm(s.n, env, memo)
    d = evalterm(s.d, env, memo)
    if d == 0:
        raise EvalError("zero denominator")
    return n / d


def evalarr(a, env):
    memo = {}
    if isinstance(a, np.ndarray):
        out = np.empty(a.shape, dtype=np.float64)
        if a.ndim == 0:
            out[()] = evalS(a[()], env, memo)
            return out
        for i in np.ndindex(*a.shape):
            out[i] = evalS(a[i], env, memo)
        return out
    return np.float64(evalS(a, env, memo))


# ------------------------------------------------------------------------------------------ differentiation
def _dterm(e, x, memo):
    k = e.get_id()
    r = memo.get(k)
    if r is not None:
        return r
    r = _dterm_raw(e, x, memo)
    memo[k] = r
    return r


_SZERO = None


def _dterm_raw(e, x, memo):
    if z3.is_rational_value(e):
        return S(ZERO)
    ch = e.children()
    kind = e.decl().kind()
    if not ch:
        if e.eq(x):
            return S(ONE)
        at = SESSION.atom_of(e)
        if at is None:
            return S(ZERO)
        if x.decl().name() not in atom_free_vars(at):
            return S(ZERO)
        da = dS(at.arg, x, memo)
        if isc(da.n, 0):
            return S(ZERO)
        if at.kind == "exp":
            return S(e) * da
        if at.kind == "log":
            return da * at.arg.inv_nocheck()
        if at.kind == "sqrt":
            return da * S(ONE, t_mul(RV(2), e))
        if at.kind == "tanh":
            return (S(ONE) - S(e) * S(e)) * da
        if at.kind == "pow":
            c = at.extra
            cm1 = Fraction(float(c) - 1.0)       # the code computes n - 1 in floating point
            b, new = SESSION.atom("pow", at.arg, cm1)
            if new:
                SESSION.add_axiom(b.const > 0, atom=b)
            return S(RV(c)) * S(b.const) * da
        raise NotImplementedError(at.kind)
    if kind == z3.Z3_OP_ADD:
        r = S(ZERO)
        for c in ch:
            r = r + _dterm(c, x, memo)
        return r
    if kind == z3.Z3_OP_UMINUS:
        return -_dterm(ch[0], x, memo)
    if kind == z3.Z3_OP_SUB:
        r = _dterm(ch[0], x, memo)
        for c in ch[1:]:
            r = r - _dterm(c, x, memo)
        return r
    if kind == z3.Z3_OP_MUL:
        r = S(ZERO)
        for i, c in enumerate(ch):
            t = _dterm(c, x, memo)
            if isc(t.n, 0):
                continue
            for j, o in enumerate(ch):
                if j != i:
                    t = t * S(o)
            r = r + t
        return r
    if kind == z3.Z3_OP_DIV:
        a, b = ch
        da = _dterm(a, x, memo)
        db = _dterm(b, x, memo)
        if isc(db.n, 0):
            return da * S(ONE, b)
        return (da * S(b) - S(a) * db) * S(ONE, t_mul(b, b))
    raise NotImplementedError("d/dx of %s" % e.decl())


def dS(s, x, memo):
    """derivative of the fraction s = n/d with respect to the z3 constant x"""
    dn = _dterm(s.n, x, memo)
    if z3.is_rational_value(s.d):
        return dn * S(ONE, s.d)
    dd = _dterm(s.d, x, memo)
    if isc(dd.n, 0):
        return dn * S(ONE, s.d)
    return (dn * S(s.d) - S(s.n) * dd) * S(ONE, t_mul(s.d, s.d))


def free_vars(e, memo=None, acc=None):
    """names of the input variables a term depends on (looking through atoms)"""
    if memo is None:
        memo = set()
    if acc is None:
        acc = set()
    stack = [e]
    while stack:
        t = stack.pop()
        k = t.get_id()
        if k in memo:
            continue
        memo.add(k)
        ch = t.children()
        if not ch and not z3.is_rational_value(t) and t.decl().kind() == z3.Z3_OP_UNINTERPRETED:
            name = t.decl().name()
            at = SESSION.atom_names.get(name)
            if at is None:
                acc.add(name)
            else:
                acc |= atom_free_vars(at)
        stack.extend(ch)
    return acc


def atom_free_vars(at):
    if at.fv is None:
        at.fv = frozenset(free_vars(at.arg.n) | free_vars(at.arg.d))
    return at.fv


def vjp(out, g, x):
    """sum_j g[j] * d out[j] / d x[k]  for every element k of the symbol array x (x elements are variables)"""
    out = np.asarray(out, dtype=object)
    g = np.asarray(g, dtype=object)
    res = np.empty(x.shape, dtype=object)
    outs = []
    for o, gi in zip(out.ravel(), g.ravel()):
        o = S.of(o)
        fv = free_vars(o.n) | free_vars(o.d)
        outs.append((o, gi, fv))
    it = [()] if x.ndim == 0 else np.ndindex(*x.shape)
    for k in it:
        xv = x[k].n
        name = xv.decl().name()
        acc = S(ZERO)
        memo = {}
        for o, gi, fv in outs:
            if name not in fv:
                continue
            acc = acc + gi * dS(o, xv, memo)
        res[k] = acc
    return res
