"""VJP / frame obligations for one configuration ("case") of a real synapgrad operation.

The same `build` closure is run (a) on NumPy object arrays of symbolic reals under the shims, on every feasible path,
and (b) natively on float64 arrays for faithfulness sampling and for replaying counter-examples against the real code,
with central finite differences of the real forward as an independent oracle.
"""
import math
import random
import signal
import time
import traceback

import numpy as np
import z3

from . import core, shim
from .core import S, symarr, vjp, evalterm, evalS, evalarr, EvalError, Explorer, PathBudgetExceeded, new_session
from .discharge import prove_equal, neq_formula

TOL = 2.0 ** -18


class Leaf:
    def __init__(self, name, shape, domain="any", requires_grad=True, layout="C"):
        self.name = name
        self.shape = tuple(shape)
        self.domain = domain            # any | pos | unit | nonzero | (lo, hi) open interval
        self.requires_grad = requires_grad
        self.layout = layout            # memory layout of the operand's array: C | F (Fortran order) | strided (view of a larger buffer)


def lay(arr, layout):
    """same values, different memory layout -- no operation's result may depend on it"""
    if layout == "F" and arr.ndim >= 2:
        return np.asfortranarray(arr)
    if layout == "strided" and arr.ndim >= 1 and arr.shape[-1] >= 1:
        big = np.empty(arr.shape[:-1] + (2 * arr.shape[-1],), dtype=arr.dtype)
        big[..., 0::2] = arr
        big[..., 1::2] = arr
        return big[..., 0::2]
    return arr


class Scalar:
    def __init__(self, name, domain="any", native=None):
        self.name = name
        self.domain = domain
        self.native = native            # preferred native value for replays (optional)


class VCase:
    """one configuration of one op"""

    def __init__(self, name, key, leaves, build, scalars=(), eps="symbolic", max_paths=3000, pre=None,
                 functions=(), check_frame=True, timeout_ms=10000, expect="vjp", note="", instrument=None):
        self.name = name                # obligation prefix, e.g. functional.add
        self.key = dict(key)            # configuration (known findings are matched on it)
        self.leaves = list(leaves)
        self.build = build              # build(T: dict name->Tensor, K: dict name->scalar) -> root Tensor
        self.scalars = list(scalars)
        self.eps = eps                  # symbolic | zero | symbolic-then-zero
        self.max_paths = max_paths
        self.pre = pre                  # callable(vars: dict name->z3 const) -> list of z3 constraints
        self.functions = tuple(functions)
        self.check_frame = check_frame
        self.timeout_ms = timeout_ms
        self.expect = expect
        self.note = note
        self.check_repeat = True
        self.instrument = instrument    # instrument(root, T) -> finalize() -> [(fact name, bool)]   (ghost state, e.g. invocation counters)

    def on_crash(self, why):
        """the symbolic run killed the worker: decide natively (float64, central differences) at a few sampled points"""
        import random
        rng = random.Random(repr(sorted(self.key.items(), key=lambda kv: kv[0])))
        for _ in range(3):
            p = sample_point(self, rng, None)
            try:
                o = native_forward(self, p)
                for n in var_names("g", o.shape):
                    p[n] = rng.choice([-1, 1]) * rng.uniform(0.3, 2.0)
                o, grads, g = native_run(self, p)
                for l in self.leaves:
                    if not l.requires_grad:
                        continue
                    fd = fd_vjp(self, p, l, o.shape)
                    gi = grads[l.name]
                    if gi is None or gi.shape != fd.shape or not np.allclose(gi, fd, rtol=1e-5, atol=1e-7):
                        return {"failure": {"obligation": "%s.backward.post[%s]" % (self.name, l.name), "what": "symbolic run crashed (%s); natively the gradient %s differs from finite differences %s"
                                            % (why, None if gi is None else gi.tolist(), fd.tolist()), "reproduced": True, "replay": {"inputs": p}}}
            except Exception as e:
                return {"native_exception": "%s: %s" % (type(e).__name__, e)}
        return {"native": "agrees with finite differences at 3 points"}

    def describe(self):
        return {"case": self.name, **{k: core_json(v) for k, v in self.key.items()},
                "leaves": {l.name: list(l.shape) for l in self.leaves}}


def core_json(v):
    if isinstance(v, (list, tuple)):
        return [core_json(x) for x in v]
    if isinstance(v, slice):
        return "slice(%r,%r,%r)" % (v.start, v.stop, v.step)
    if v is Ellipsis:
        return "..."
    if isinstance(v, np.ndarray):
        return v.tolist()
    if isinstance(v, (np.integer,)):
        return int(v)
    if isinstance(v, (np.floating,)):
        return float(v)
    if isinstance(v, (str, int, float, bool)) or v is None:
        return v
    return repr(v)


# ----------------------------------------------------------------------------------------------- domains
def domain_constraints(v, dom):
    if dom == "any":
        return []
    if dom == "pos":
        return [v > 0]
    if dom == "unit":
        return [v > 0, v < 1]
    if dom == "nonzero":
        return [v != 0]
    if isinstance(dom, tuple):
        lo, hi = dom
        cs = []
        if lo is not None:
            cs.append(v > lo)
        if hi is not None:
            cs.append(v < hi)
        return cs
    raise ValueError(dom)


def domain_sample(rng, dom):
    if dom == "any":
        return rng.choice([-1, 1]) * rng.uniform(0.2, 2.5)
    if dom == "pos":
        return rng.uniform(0.3, 2.5)
    if dom == "unit":
        return rng.uniform(0.08, 0.92)
    if dom == "nonzero":
        return rng.choice([-1, 1]) * rng.uniform(0.4, 2.5)
    if isinstance(dom, tuple):
        lo, hi = dom
        lo = -3.0 if lo is None else lo
        hi = 3.0 if hi is None else hi
        w = hi - lo
        return rng.uniform(lo + 0.05 * w, hi - 0.05 * w)
    raise ValueError(dom)


def var_names(name, shape):
    if len(shape) == 0:
        return [name]
    return [name + "_" + "_".join(map(str, idx)) for idx in np.ndindex(*shape)]


# ------------------------------------------------------------------------------------------ native execution
def _native_leaves(case, point, requires_grad=True):
    from synapgrad.tensor import Tensor
    T = {}
    for l in case.leaves:
        arr = np.array([point[n] for n in var_names(l.name, l.shape)], dtype=np.float64).reshape(l.shape)
        T[l.name] = Tensor(lay(arr, l.layout), requires_grad=(l.requires_grad and requires_grad))
    K = {s.name: point[s.name] for s in case.scalars}
    return T, K


def native_forward(case, point):
    with shim.native():
        T, K = _native_leaves(case, point, requires_grad=False)
        out = case.build(T, K)
        return np.array(out.data, dtype=np.float64)


def native_run(case, point, out_shape=None):
    """returns (out, {leaf: grad}) of the real code on float64"""
    from synapgrad.tensor import Tensor
    with shim.native():
        T, K = _native_leaves(case, point)
        out = case.build(T, K)
        shape = out.data.shape
        g = np.array([point[n] for n in var_names("g", shape)], dtype=np.float64).reshape(shape)
        g_before = g.copy()
        out.backward(Tensor(g))
        grads = {l.name: (None if T[l.name]._grad is None else np.array(T[l.name]._grad, dtype=np.float64))
                 for l in case.leaves}
        return np.array(out.data, dtype=np.float64), grads, g_before


def fd_vjp(case, point, leaf, out_shape, h=1e-6):
    g = np.array([point[n] for n in var_names("g", out_shape)], dtype=np.float64).reshape(out_shape)
    names = var_names(leaf.name, leaf.shape)
    res = np.zeros(len(names))
    for i, n in enumerate(names):
        p1 = dict(point)
        p2 = dict(point)
        hh = h * max(1.0, abs(point[n]))
        p1[n] = point[n] + hh
        p2[n] = point[n] - hh
        f1 = native_forward(case, p1)
        f2 = native_forward(case, p2)
        res[i] = float(np.sum(g * (f1 - f2))) / (2 * hh)
    return res.reshape(leaf.shape)


def sample_point(case, rng, out_shape=None):
    p = {}
    for l in case.leaves:
        for n in var_names(l.name, l.shape):
            p[n] = domain_sample(rng, l.domain)
    for s in case.scalars:
        p[s.name] = s.native if s.native is not None else domain_sample(rng, s.domain)
    if out_shape is not None:
        for n in var_names("g", out_shape):
            p[n] = rng.choice([-1, 1]) * rng.uniform(0.3, 2.0)
    p["EPS"] = 1e-12
    return p


def special_points_check(case, seed):
    """Bounded, native (float64): the symbolic proof explores the sides of a comparison strictly, ties have measure zero -- so what the backward does AT a tie with a constant
    (an operand element exactly 0) is evaluated here: one operand at a time gets exact zeros in every other position, the library's gradient is compared with central finite
    differences of the real forward wherever the forward is smooth in that coordinate (one-sided differences agree); at a kink (relu at 0, a tie inside a max window) nothing is
    demanded, where the forward or a difference quotient is not finite (a pole) the point is skipped.  Counted as bounded evaluations (`faithful`), a mismatch is a reproduced failure."""
    import random
    out = {"points": 0, "failure": None}
    if case.pre is not None:
        return out
    rng = random.Random("special|%s|%d" % (repr(sorted(case.key.items(), key=lambda kv: kv[0])), seed))
    for leaf in [l for l in case.leaves if l.domain == "any" and l.shape and l.requires_grad][:2]:
        names = var_names(leaf.name, leaf.shape)
        if len(names) > 64:
            continue
        try:
            p = sample_point(case, rng, None)
            for n in names[::2]:
                p[n] = 0.0
            with np.errstate(all="ignore"):
                f0 = native_forward(case, p)
                if not np.all(np.isfinite(f0)):
                    continue
                for n in var_names("g", f0.shape):
                    p[n] = rng.choice([-1, 1]) * rng.uniform(0.3, 2.0)
                o, grads, g = native_run(case, p)
                gi = grads[leaf.name]
                if gi is None or not np.all(np.isfinite(gi)):
                    continue
                gq = g
                scale, bad = 1.0, None
                for k_, n in enumerate(names):
                    idx = np.unravel_index(k_, leaf.shape)
                    hh = 1e-6 * max(1.0, abs(p[n]))
                    pp, pm = dict(p), dict(p)
                    pp[n] += hh
                    pm[n] -= hh
                    fp_, fm_ = native_forward(case, pp), native_forward(case, pm)
                    if fp_.shape != f0.shape or fm_.shape != f0.shape or not (np.all(np.isfinite(fp_)) and np.all(np.isfinite(fm_))):
                        continue
                    dplus, dminus = float(np.sum(gq * (fp_ - f0))) / hh, float(np.sum(gq * (f0 - fm_))) / hh
                    central = 0.5 * (dplus + dminus)
                    sc = max(1.0, abs(dplus), abs(dminus))
                    got = float(gi[idx])
                    tol = 2e-4 * sc
                    if abs(dplus - dminus) > tol:
                        continue        # a kink in this coordinate (relu at 0, a tie inside a max window ...): the set of valid subgradients is not an interval of one-sided
                                        # slopes once the element takes part in several kinks, so nothing is demanded here
                    if abs(got - central) <= tol:
                        continue
                    bad = (list(idx), got, central, dplus, dminus)
                    break
            out["points"] += 1
            if bad:
                out["failure"] = {"obligation": "%s.backward.post[%s]" % (case.name, leaf.name),
                                  "what": "at a point with exact zeros in operand %s, element %s of d%s is %r; finite differences of the real forward give %r (from the right %r, from the left %r)" %
                                          (leaf.name, bad[0], leaf.name, bad[1], bad[2], bad[3], bad[4]),
                                  "reproduced": True, "replay": {"inputs": p, "element": bad[0], "actual": bad[1], "expected_between": [bad[4], bad[3]], "oracle": "one-sided finite differences of the real forward (float64)"}}
                return out
        except Exception:
            continue            # completion at special values is C05's / C09's business
    return out


def close(a, b, scale=1.0):
    return abs(a - b) <= TOL * max(1.0, abs(a), abs(b), scale)


# ------------------------------------------------------------------------------------------ symbolic execution
def _same_term(x, y):
    if x is y:
        return True
    try:
        x = S.of(x)
        y = S.of(y)
    except Exception:
        return False
    return x.n.eq(y.n) and x.d.eq(y.d)


class PathResult:
    __slots__ = ("status", "out", "g", "grads", "frames", "exc", "phase", "defined")


def _symbolic_paths(case, eps_mode):
    """run the real code on symbolic arrays on every feasible path"""
    from synapgrad.tensor import Tensor
    sess = new_session()
    with shim.symbolic(eps=eps_mode):
        leafsyms = {l.name: symarr(l.name, l.shape) for l in case.leaves}
        scal = {s.name: S(sess.var(s.name)) for s in case.scalars}
        for l in case.leaves:
            for e in leafsyms[l.name].ravel():
                sess.pre.extend(domain_constraints(e.n, l.domain))
        for s in case.scalars:
            sess.pre.extend(domain_constraints(scal[s.name].n, s.domain))
        if case.pre is not None:
            sess.pre.extend(case.pre(sess))
        ex = Explorer(max_paths=case.max_paths)

        def one_path():
            r = PathResult()
            r.exc = None
            r.phase = None
            r.defined = []
            sess.defined = []
            T = {}
            datas = {}
            for l in case.leaves:
                arr = lay(leafsyms[l.name].copy(), l.layout)
                datas[l.name] = (arr, arr.copy())
                T[l.name] = Tensor(arr, requires_grad=l.requires_grad)
            try:
                out = case.build(T, dict(scal))
            except PathBudgetExceeded:
                raise
            except Exception as e:  # forward rejected (or crashed) on this path
                r.status = "forward-raised"
                r.exc = e
                r.phase = "forward"
                return r
            if not out.requires_grad:
                r.status = "untracked-root"
                return r
            r.out = np.array(out.data, dtype=object) if not isinstance(out.data, np.ndarray) else out.data
            rep_ok = None
            if case.check_frame and case.check_repeat:
                # repeating the operation on unchanged operands gives identical results (fresh Tensors over the same arrays)
                try:
                    T2 = {l.name: Tensor(datas[l.name][0], requires_grad=l.requires_grad) for l in case.leaves}
                    out2 = case.build(T2, dict(scal))
                    o2 = np.asarray(out2.data, dtype=object)
                    rep_ok = o2.shape == r.out.shape and all(_same_term(x, y) for x, y in zip(o2.ravel(), np.asarray(r.out, dtype=object).ravel()))
                except PathBudgetExceeded:
                    raise
                except Exception:
                    rep_ok = False
            garr = symarr("g", r.out.shape)
            gsnap = garr.copy()
            gT = Tensor(garr)
            r.g = gsnap
            fin = case.instrument(out, T) if case.instrument is not None else None
            try:
                out.backward(gT)
            except PathBudgetExceeded:
                raise
            except Exception as e:
                r.status = "backward-raised"
                r.exc = e
                r.phase = "backward"
                r.exc = (type(e).__name__, str(e)[:300], traceback.format_exc()[-1500:])
                return r
            r.status = "ok"
            r.grads = {l.name: T[l.name]._grad for l in case.leaves}
            # frame facts (C11): operand data and caller's gradient untouched
            fr = []
            for l in case.leaves:
                arr, snap = datas[l.name]
                same_obj = T[l.name].data is arr
                same_terms = same_obj and all(a is b for a, b in zip(arr.ravel(), snap.ravel()))
                fr.append(("data[%s]" % l.name, same_obj and same_terms))
            same_g = gT.data is garr and all(a is b for a, b in zip(garr.ravel(), gsnap.ravel()))
            fr.append(("upstream-grad", same_g))
            for l in case.leaves:
                if not l.requires_grad:
                    fr.append(("no-grad-for-non-requiring[%s]" % l.name, T[l.name]._grad is None))
            r.defined = [t for kind, t in sess.defined if kind == "division"]
            if rep_ok is not None:
                fr.append(("repeat-gives-identical-result", rep_ok))
            if case.check_frame and case.check_repeat and fin is None:
                # a second backward over the SAME recorded graph (leaf buffers reset in between, same upstream gradient) delivers the same
                # gradients: nothing a backward function saved or computed may have been consumed or edited by the first sweep
                try:
                    for l in case.leaves:
                        T[l.name]._grad = None
                    out.backward(Tensor(gsnap.copy()))
                    again = True
                    for l in case.leaves:
                        g1, g2 = r.grads[l.name], T[l.name]._grad
                        if (g1 is None) != (g2 is None):
                            again = False
                        elif g1 is not None:
                            a1, a2 = np.asarray(g1, dtype=object), np.asarray(g2, dtype=object)
                            again = again and a1.shape == a2.shape and all(_same_term(x, y) for x, y in zip(a1.ravel(), a2.ravel()))
                except PathBudgetExceeded:
                    raise
                except Exception:
                    again = False
                fr.append(("second-backward-over-the-same-graph-gives-the-same-gradients", again))
                # an operand that was frozen AFTER it received a gradient is a constant of every later graph: its stale buffer must not be touched
                req = [l for l in case.leaves if l.requires_grad]
                if len(req) >= 2 and again:
                    lz = req[-1]
                    tz = T[lz.name]
                    try:
                        buf = tz._grad
                        snap_ = None if buf is None else list(np.asarray(buf, dtype=object).ravel())
                        tz.requires_grad = False
                        out3 = case.build(T, dict(scal))
                        if out3.requires_grad:
                            out3.backward(Tensor(symarr("g", np.shape(out3.data))))
                        kept = tz._grad is buf and (buf is None or all(x is y for x, y in zip(np.asarray(buf, dtype=object).ravel(), snap_)))
                    except PathBudgetExceeded:
                        raise
                    except Exception:
                        kept = None         # the rebuilt graph is not this obligation's business (e.g. a layer that re-wraps its parameters)
                    if kept is not None:
                        fr.append(("frozen-operand[%s]-keeps-its-stale-gradient" % lz.name, kept))
            if fin is not None:
                fr.extend(fin())
            r.frames = fr
            return r

        results = ex.run(one_path)
    return sess, leafsyms, results, ex


class _Timeout(Exception):
    pass


def _alarm(signum, frame):
    raise _Timeout()


def run_vcase(case, seed=0, case_timeout=300, want_post=True):
    """returns a plain-data result dictionary"""
    res = {"name": case.name, "key": {k: core_json(v) for k, v in case.key.items()}, "obligations": 0, "discharged": 0,
           "backends": {}, "paths": 0, "solver_s": 0.0, "failures": [], "undecided": [], "errors": [], "notes": [],
           "status": "ok", "faithful": 0, "sample": None, "eps_mode": None}
    # CPU time of this process, not wall time: a busy machine must not turn into "undecided"
    old = signal.signal(signal.SIGPROF, _alarm)
    signal.setitimer(signal.ITIMER_PROF, case_timeout)
    try:
        modes = {"symbolic": ["symbolic"], "zero": ["zero"], "symbolic-then-zero": ["symbolic", "zero"]}[case.eps]
        final = None
        for i, mode in enumerate(modes):
            probe = i + 1 < len(modes)      # not the last mode: stop at the first obligation that does not discharge
            r = _run_mode(case, seed, mode, want_post, probe=probe)
            final = r
            if not r["failures"] and not r["undecided"] and not r["errors"] and not r.get("probe_failed"):
                break
        for k in ("obligations", "discharged", "backends", "paths", "solver_s", "failures", "undecided", "errors",
                  "notes", "status", "faithful", "sample", "eps_mode"):
            res[k] = final[k]
        if want_post and case.expect == "vjp" and res["status"] == "ok" and not res["failures"] and not res["errors"]:
            sp = special_points_check(case, seed)
            res["faithful"] += sp["points"]
            if sp["failure"]:
                res["obligations"] += 1
                res["failures"].append(sp["failure"])
    except _Timeout:
        res["undecided"].append({"obligation": case.name + ".case", "reason": "case timeout %ds" % case_timeout})
    except PathBudgetExceeded as e:
        res["errors"].append("%s: %s" % (case.name, e))
    except Exception as e:
        res["errors"].append("%s %s: checker exception %s\n%s" % (case.name, res["key"], e, traceback.format_exc()[-2000:]))
    finally:
        signal.setitimer(signal.ITIMER_PROF, 0)
        signal.signal(signal.SIGPROF, old)
    return res


def _run_mode(case, seed, eps_mode, want_post, probe=False):
    out = {"obligations": 0, "discharged": 0, "backends": {}, "paths": 0, "solver_s": 0.0, "failures": [],
           "undecided": [], "errors": [], "notes": [], "status": "ok", "faithful": 0, "sample": None, "eps_mode": eps_mode}
    rng = random.Random("%s|%r|%d" % (case.name, sorted(case.key.items(), key=lambda kv: kv[0]), seed))
    sess, leafsyms, results, ex = _symbolic_paths(case, eps_mode)
    out["paths"] = len(results)
    base = list(sess.pre) + list(sess.axioms)
    pre_ax = sess.relevant_axioms(list(sess.pre))
    if eps_mode == "zero":
        out["notes"].append("guard-consistent at eps=0 (cpu_ops.epsilon := 0)")

    def bump(backend):
        out["discharged"] += 1
        out["backends"][backend] = out["backends"].get(backend, 0) + 1

    statuses = set(r.status for r, _ in results)
    if statuses == {"forward-raised"}:
        out["status"] = "rejected"
        e = results[0][0].exc
        out["notes"].append("forward rejected: %s: %s" % (type(e).__name__, str(e)[:200]))
        return out
    if statuses == {"untracked-root"}:
        out["status"] = "untracked"
        out["notes"].append("result does not require grad (nothing to differentiate)")
        return out
    if "forward-raised" in statuses:
        # accepted on some paths only: value-dependent rejection is a checker-visible anomaly
        e = [r for r, _ in results if r.status == "forward-raised"][0].exc
        out["errors"].append("%s: forward raised on some paths only: %r" % (case.name, e))
        return out

    out_shape = None
    for pi, (r, pc) in enumerate(results):
        path_ax = sess.relevant_axioms(list(pc))
        if out_shape is None and r.status in ("ok", "backward-raised"):
            out_shape = tuple(r.out.shape)
        # ---- completes
        if r.status == "backward-raised" and not want_post:
            out["notes"].append("backward raised (not a frame question; decided by C01/C02)")
            continue
        out["obligations"] += 1
        if r.status == "backward-raised":
            rep = _replay_exception(case, pc, rng, out_shape, sess)
            if rep["reproduced"]:
                out["failures"].append({"obligation": case.name + ".backward.completes", "what":
                                        "backward raised %s: %s (forward was accepted)" % (r.exc[0], r.exc[1]),
                                        "replay": rep, "reproduced": True})
            else:
                out["errors"].append("%s: symbolic backward raised %s: %s but native replay did not (%s)\n%s"
                                     % (case.name, r.exc[0], r.exc[1], rep.get("native"), r.exc[2]))
            continue
        bump("executed")
        # ---- frame
        if case.check_frame:
            for fname, ok in r.frames:
                out["obligations"] += 1
                if ok:
                    bump("syntactic")
                elif fname.startswith("second-backward"):
                    rep = _replay_second_backward(case, sess, pc, rng, out_shape)
                    if rep.get("reproduced"):
                        out["failures"].append({"obligation": case.name + ".backward.repeatable", "what": "a second backward over the same graph (leaf gradients reset, same upstream "
                                                "gradient) gives %s, the first gave %s" % (rep.get("second"), rep.get("first")), "replay": rep, "reproduced": True})
                    else:
                        out["errors"].append("%s: the symbolic second backward differs from the first but the native replay does not (%s)" % (case.name, rep))
                else:
                    rep = _replay_frame(case, sess, pc, rng, out_shape, fname)
                    if rep.get("reproduced") or rep.get("native") == "no point on path found" or fname not in rep.get("checked", [fname]):
                        out["failures"].append({"obligation": case.name + ".frame." + fname, "what":
                                                "frame/ghost fact '%s' does not hold after forward+backward%s" % (fname, "; natively: %s" % rep["detail"] if rep.get("detail") else ""),
                                                "replay": dict(rep, path=pi), "reproduced": bool(rep.get("reproduced")), "frame": True})
                    else:
                        out["errors"].append("%s: frame fact '%s' fails on the symbolic run but holds natively (%s): object-identity artefact of the symbolic layer?" % (case.name, fname, rep))
        if not want_post:
            continue
        # ---- post: grad == vjp, exact shape
        for l in case.leaves:
            if not l.requires_grad:
                continue
            gimpl = r.grads[l.name]
            oname = "%s.backward.post[%s]" % (case.name, l.name)
            out["obligations"] += 1
            if gimpl is None:
                # an operand the root does not depend on gets no buffer: equivalent to an all-zero gradient
                gimpl = np.zeros(l.shape, dtype=object)
            if tuple(np.shape(gimpl)) != l.shape:
                rep = _replay_numeric(case, sess, pc, None, rng, out_shape, l, None)
                out["failures"].append({"obligation": "%s.backward.shape[%s]" % (case.name, l.name), "what":
                                        "gradient has shape %s, operand has shape %s" % (None if gimpl is None else np.shape(gimpl), l.shape),
                                        "replay": rep, "reproduced": True})
                continue
            bump("executed")
            spec = vjp(r.out, r.g, leafsyms[l.name])
            gimpl = np.asarray(gimpl, dtype=object)
            it = [()] if len(l.shape) == 0 else list(np.ndindex(*l.shape))
            for k in it:
                out["obligations"] += 1
                a = S.of(gimpl[k])
                b = spec[k]
                goal_ax = sess.relevant_axioms([a.n, a.d, b.n, b.d])
                assumptions = base + list(pc) + pre_ax + path_ax + goal_ax
                v = prove_equal(a, b, assumptions, timeout_ms=(2000 if probe else case.timeout_ms), use_cvc5=not probe)
                out["solver_s"] += v.seconds
                if probe and v.status != "discharged":
                    out["probe_failed"] = True
                    return out
                if v.status == "discharged":
                    bump(v.backend)
                    if out["sample"] is None and v.backend not in ("syntactic",):
                        out["sample"] = {"obligation": oname + str(list(k)), "lhs": str(a.term())[:160], "rhs": str(b.term())[:160],
                                         "backend": v.backend}
                    continue
                rep = _replay_numeric(case, sess, pc, v.model, rng, out_shape, l, (k, a, b))
                if rep["reproduced"]:
                    out["failures"].append({"obligation": oname, "what": "element %s of d%s: implementation %s vs VJP %s at a replayed input"
                                            % (list(k), l.name, rep.get("actual"), rep.get("expected")), "replay": rep, "reproduced": True,
                                            "solver": v.backend, "answer": v.status})
                    break   # one witness per operand per path is enough
                elif rep.get("symbolic_differs"):
                    out["errors"].append("%s%s: symbolic terms differ numerically but the native run agrees with finite differences "
                                         "(faithfulness of the symbolic layer is in doubt): %s" % (oname, list(k), rep))
                    break
                else:
                    out["undecided"].append({"obligation": oname + str(list(k)), "reason": "%s %s; no numeric difference found"
                                             % (v.backend, v.status)})
    # ---- defined: every division executed has a non-zero divisor on the whole domain (else: a legal input where the result is 0/0)
    if want_post and not out["failures"] and not out.get("probe_failed"):
        _defined_obligations(case, sess, results, rng, out_shape, out)
    # one witness per (obligation) and case is enough; count the rest
    seen = {}
    uniq = []
    for f in out["failures"]:
        if f["obligation"] in seen:
            seen[f["obligation"]]["also_on_paths"] = seen[f["obligation"]].get("also_on_paths", 0) + 1
        else:
            seen[f["obligation"]] = f
            uniq.append(f)
    out["failures"] = uniq
    # ---- cover (non-vacuity) and faithfulness on one sampled point
    if out_shape is not None and not out["failures"]:
        _faithfulness(case, sess, results, leafsyms, rng, out_shape, out)
    return out


def _defined_obligations(case, sess, results, rng, out_shape, out):
    from .core import _syntactically_positive
    from .discharge import _model_env
    seen = set()
    for r, pc in results:
        if r.status != "ok":
            continue
        for t in r.defined:
            if t.get_id() in seen or _syntactically_positive(t):
                continue
            seen.add(t.get_id())
            sv = z3.Solver()
            sv.set("timeout", 3000)
            sv.add(*sess.pre)
            sv.add(*pc)
            sv.add(*sess.relevant_axioms(list(sess.pre) + list(pc) + [t]))
            sv.add(t == 0)
            res = sv.check()
            if res == z3.unsat:
                out["obligations"] += 1
                out["discharged"] += 1
                out["backends"]["z3"] = out["backends"].get("z3", 0) + 1
                continue
            if res != z3.sat:
                out["notes"].append("a divisor could not be shown non-zero (solver unknown); not counted")
                continue
            # a legal input with a zero divisor: replay it natively; it is a violation only if the real gradient is wrong there
            m = _model_env(sv.model())
            p = sample_point(case, rng, out_shape)
            p.update({k: v for k, v in m.items() if k in p})
            if not _pc_holds(list(sess.pre), p):
                continue
            try:
                o, grads, g = native_run(case, p)
            except Exception:
                continue
            if not np.all(np.isfinite(o)):
                out["notes"].append("zero divisor only where the forward value itself is not finite (outside the op's domain); ignored")
                continue
            for l in case.leaves:
                if not l.requires_grad or grads[l.name] is None:
                    continue
                gi = grads[l.name]
                if np.all(np.isfinite(gi)):
                    continue
                try:
                    fd = fd_vjp(case, p, l, o.shape)
                except Exception:
                    continue
                if np.all(np.isfinite(fd)):
                    out["obligations"] += 1
                    out["failures"].append({"obligation": "%s.backward.defined_on_domain[%s]" % (case.name, l.name), "what":
                                            "at a legal input where a divisor of the backward computation is 0 the gradient is %s, finite differences of the forward give %s"
                                            % (gi.tolist(), fd.tolist()), "reproduced": True,
                                            "replay": {"inputs": p, "actual_grad": gi.tolist(), "expected_grad_finite_differences": fd.tolist(), "zero_divisor": str(t)[:200]}})
                    return


def _pc_holds(pc, env):
    memo = {}
    try:
        return all(evalterm(l, env, memo) for l in pc)
    except (EvalError, KeyError):
        return False


def _candidate_points(case, sess, pc, model, rng, out_shape, n_random=120):
    pts = []
    if model:
        p = sample_point(case, rng, out_shape)
        p.update({k: v for k, v in model.items() if k in p})
        pts.append(p)
    # a point on the path from z3
    if pc:
        s = z3.Solver()
        s.set("timeout", 3000)
        s.add(*sess.pre)
        s.add(*pc)
        if s.check() == z3.sat:
            from .discharge import _model_env
            m = _model_env(s.model())
            for _ in range(3):
                p = sample_point(case, rng, out_shape)
                p.update({k: v for k, v in m.items() if k in p})
                pts.append(p)
    for _ in range(n_random):
        pts.append(sample_point(case, rng, out_shape))
    return pts


def _replay_numeric(case, sess, pc, model, rng, out_shape, leaf, elem):
    """try to turn a failed obligation into a failing input of the real code"""
    rep = {"reproduced": False, "symbolic_differs": False}
    tried = 0
    for p in _candidate_points(case, sess, pc, model, rng, out_shape):
        if not _pc_holds(list(sess.pre) + list(pc), p):
            continue
        tried += 1
        if tried > 12:
            break
        if elem is not None:
            k, a, b = elem
            try:
                va = evalS(a, p)
                vb = evalS(b, p)
            except (EvalError, KeyError):
                continue
            if close(va, vb):
                continue
            rep["symbolic_differs"] = True
        # native replay against finite differences
        try:
            o, grads, g = native_run(case, p)
            fd = fd_vjp(case, p, leaf, o.shape)
        except Exception as e:
            rep.update({"reproduced": True, "inputs": p, "native_exception": "%s: %s" % (type(e).__name__, e)})
            return rep
        gi = grads[leaf.name]
        if gi is None or gi.shape != fd.shape:
            rep.update({"reproduced": True, "inputs": p, "actual_shape": None if gi is None else list(gi.shape),
                        "expected_shape": list(fd.shape)})
            return rep
        scale = float(np.max(np.abs(fd))) if fd.size else 1.0
        bad = [idx for idx in np.ndindex(*fd.shape)] if fd.ndim else [()]
        bad = [idx for idx in bad if not close(float(gi[idx]), float(fd[idx]), scale)]
        if bad:
            # a point the path condition pins (x == const) may be a kink of the function: there any value between the one-sided derivatives is a
            # valid subgradient. One-sided differences decide it (they agree wherever the function is differentiable).
            try:
                f0 = native_forward(case, p)
                names = var_names(leaf.name, leaf.shape)
                still = []
                for idx in bad:
                    n_ = names[int(np.ravel_multi_index(idx, leaf.shape))] if leaf.shape else names[0]
                    hh = 1e-6 * max(1.0, abs(p[n_]))
                    pp, pm = dict(p), dict(p)
                    pp[n_] += hh
                    pm[n_] -= hh
                    gq = np.array([p[n] for n in var_names("g", out_shape)], dtype=np.float64).reshape(out_shape)
                    dplus = float(np.sum(gq * (native_forward(case, pp) - f0))) / hh
                    dminus = float(np.sum(gq * (f0 - native_forward(case, pm)))) / hh
                    lo, hi = min(dplus, dminus), max(dplus, dminus)
                    kink = np.isfinite(lo) and np.isfinite(hi) and not close(dplus, dminus, scale)
                    if kink and lo - TOL * max(1.0, scale) <= float(gi[idx]) <= hi + TOL * max(1.0, scale):
                        rep["kink_points_accepted"] = rep.get("kink_points_accepted", 0) + 1
                        continue
                    still.append(idx)
                bad = still
            except Exception:
                pass
        if bad:
            rep.update({"reproduced": True, "inputs": p, "element": list(bad[0]), "actual": float(gi[bad[0]]),
                        "expected": float(fd[bad[0]]), "actual_grad": gi.tolist(), "expected_grad_finite_differences": fd.tolist(),
                        "oracle": "central finite differences of the real forward (float64)"})
            return rep
    rep["points_tried"] = tried
    return rep


def _replay_frame(case, sess, pc, rng, out_shape, fname):
    """natively (byte comparisons): operands and the caller's gradient unchanged by forward+backward, no gradient for non-requiring operands, a repeated
    forward bit-identical, a frozen operand's stale gradient untouched by a later graph"""
    from synapgrad.tensor import Tensor
    rep = {"reproduced": False, "fact": fname}
    for p in _candidate_points(case, sess, pc, None, rng, out_shape, n_random=40):
        if not _pc_holds(list(sess.pre) + list(pc), p):
            continue
        try:
            with shim.native():
                T, K = _native_leaves(case, p)
                snaps = {l.name: (T[l.name].data, T[l.name].data.copy()) for l in case.leaves}
                out = case.build(T, K)
                o1 = np.array(out.data, copy=True)
                T2, K2 = _native_leaves(case, p)
                o2 = np.array(case.build(T2, K2).data)
                g = np.array([p[n] for n in var_names("g", out.shape)], dtype=np.float64).reshape(out.shape)
                gt, g0 = Tensor(g), g.copy()
                if out.requires_grad:
                    out.backward(gt)
                facts = {"upstream-grad": bool(np.array_equal(gt.data, g0) and gt.data is g), "repeat-gives-identical-result": bool(o1.shape == o2.shape and np.array_equal(o1, o2))}
                for l in case.leaves:
                    arr, cp = snaps[l.name]
                    facts["data[%s]" % l.name] = bool(T[l.name].data is arr and np.array_equal(arr, cp))
                    if not l.requires_grad:
                        facts["no-grad-for-non-requiring[%s]" % l.name] = T[l.name]._grad is None
                req = [l for l in case.leaves if l.requires_grad]
                if fname.startswith("frozen-operand") and len(req) >= 2:
                    tz = T[req[-1].name]
                    buf = tz._grad
                    cp = None if buf is None else np.array(buf, copy=True)
                    tz.requires_grad = False
                    out3 = case.build(T, K)
                    if out3.requires_grad:
                        out3.backward(Tensor(np.ones(out3.shape)))
                    facts[fname] = bool(tz._grad is buf and (buf is None or np.array_equal(buf, cp)))
                    if not facts[fname]:
                        rep["detail"] = "operand %s was frozen after receiving the gradient %s; a later backward left %s there" % (req[-1].name, None if cp is None else cp.tolist(), None if tz._grad is None else np.asarray(tz._grad).tolist())
        except Exception as e:
            rep.update({"native_exception": "%s: %s" % (type(e).__name__, str(e)[:300]), "native": "raised"})
            return rep
        rep["checked"] = sorted(facts)
        rep["inputs"] = p
        if fname in facts and not facts[fname]:
            rep["reproduced"] = True
            rep.setdefault("detail", "fact '%s' is false on the float64 run at the recorded inputs" % fname)
        else:
            rep["native"] = "holds"
        return rep
    rep["native"] = "no point on path found"
    return rep


def _replay_second_backward(case, sess, pc, rng, out_shape):
    """natively: forward once, backward twice over the same graph with the leaf gradients reset in between"""
    from synapgrad.tensor import Tensor
    rep = {"reproduced": False}
    for p in _candidate_points(case, sess, pc, None, rng, out_shape, n_random=40):
        if not _pc_holds(list(sess.pre) + list(pc), p):
            continue
        try:
            with shim.native():
                T, K = _native_leaves(case, p)
                out = case.build(T, K)
                g = np.array([p[n] for n in var_names("g", out.shape)], dtype=np.float64).reshape(out.shape)
                out.backward(Tensor(g.copy()))
                first = {l.name: (None if T[l.name]._grad is None else np.array(T[l.name]._grad, dtype=np.float64)) for l in case.leaves}
                for l in case.leaves:
                    T[l.name]._grad = None
                out.backward(Tensor(g.copy()))
                second = {l.name: (None if T[l.name]._grad is None else np.array(T[l.name]._grad, dtype=np.float64)) for l in case.leaves}
        except Exception as e:
            rep.update({"reproduced": True, "inputs": p, "native_exception": "%s: %s" % (type(e).__name__, str(e)[:300])})
            return rep
        for l in case.leaves:
            a, b = first[l.name], second[l.name]
            if (a is None) != (b is None) or (a is not None and (a.shape != b.shape or not np.allclose(a, b, rtol=1e-9, atol=1e-12))):
                rep.update({"reproduced": True, "inputs": p, "operand": l.name, "first": None if a is None else a.tolist(), "second": None if b is None else b.tolist()})
                return rep
        rep["native"] = "both sweeps agree"
        return rep
    rep["native"] = "no point on path found"
    return rep


def _replay_exception(case, pc, rng, out_shape, sess):
    rep = {"reproduced": False}
    for p in _candidate_points(case, sess, pc, None, rng, out_shape, n_random=60):
        if not _pc_holds(list(sess.pre) + list(pc), p):
            continue
        try:
            native_run(case, p)
            rep["native"] = "completed"
            return rep
        except Exception as e:
            rep.update({"reproduced": True, "inputs": p, "native_exception": "%s: %s" % (type(e).__name__, str(e)[:300])})
            return rep
    rep["native"] = "no point on path found"
    return rep


def _faithfulness(case, sess, results, leafsyms, rng, out_shape, out):
    for _ in range(40):
        p = sample_point(case, rng, out_shape)
        if not _pc_holds(sess.pre, p):
            continue
        for r, pc in results:
            if r.status != "ok" or not _pc_holds(pc, p):
                continue
            try:
                o, grads, g = native_run(case, p)
                so = evalarr(r.out, p)
            except Exception as e:
                out["errors"].append("%s: faithfulness run failed: %s: %s" % (case.name, type(e).__name__, e))
                return
            ok = so.shape == o.shape and np.allclose(so, o, rtol=1e-7, atol=1e-9)
            for l in case.leaves:
                if l.requires_grad and r.grads.get(l.name) is not None and grads[l.name] is not None:
                    sg = evalarr(np.asarray(r.grads[l.name], dtype=object), p)
                    ok = ok and sg.shape == grads[l.name].shape and np.allclose(sg, grads[l.name], rtol=1e-7, atol=1e-9)
            if not ok:
                out["errors"].append("%s %s: symbolic execution disagrees with the native run at a sampled point "
                                     "(object-dtype path or shim misrepresents the code)" % (case.name, case.key))
            else:
                out["faithful"] += 1
            return
    out["notes"].append("no sampled point matched a path (faithfulness not sampled)")
