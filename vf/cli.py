"""./check <Cxx> [--tier quick|thorough] | ./check --replay <file> | ./check all"""
import argparse
import importlib
import json
import os
import sys
import traceback

from .report import ROOT


def main(argv=None):
    import warnings
    warnings.filterwarnings("ignore")
    import numpy as _np
    _np.seterr(all="ignore")
    ap = argparse.ArgumentParser()
    ap.add_argument("prop", nargs="?")
    ap.add_argument("--tier", default=os.environ.get("VERIF_TIER", "quick"), choices=["quick", "thorough"])
    ap.add_argument("--replay")
    ap.add_argument("--procs", type=int, default=None)
    ap.add_argument("--only", default=None, help="substring filter on case names (debugging; evidence says so)")
    a = ap.parse_args(argv)
    seed = int(os.environ.get("VERIF_SEED", "0") or 0)
    if a.replay:
        from . import replay
        return replay.main(a.replay)
    if not a.prop:
        ap.error("property id required")
    pid = a.prop.upper()
    try:
        mod = importlib.import_module("vf.props.%s" % pid.lower())
    except ImportError:
        traceback.print_exc()
        print("no check for %s" % pid)
        return 3
    try:
        return mod.main(tier=a.tier, seed=seed, procs=a.procs, only=a.only)
    except SystemExit:
        raise
    except Exception:
        traceback.print_exc()
        print("CHECKER-ERROR unhandled exception in %s" % pid)
        return 3


if __name__ == "__main__":
    sys.exit(main())
