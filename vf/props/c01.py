"""C01 - backward of every tensor op yields the exact vector-Jacobian product.

Contract (per configuration, all operand values, all upstream gradients):
   requires  forward accepted, operands in the op's domain
   ensures   backward(g) completes; for every operand x that requires grad  x.grad == g . d out / d x  (exact shape);
             operands not requiring grad get no gradient; operand data and the caller's g are not modified.
Decided by symreal (symbolic-real execution of the real wrapper + kernel + engine, z3 discharge).
"""
from ..report import Run
from ..symreal.pool import run_catalogue
from ..catalog import tensor_ops

BOUNDS = {
    "quick": "ranks 0-3 (a few rank-4), extents <=4 (unfold_dim extent <=5); every broadcasting pattern onto (3,),(2,3) and a cover onto (2,3,4); "
             "reductions over None / every int dim / all tuples of <=2 dims in mixed sign x keepdims; 40 index expressions; all movedim/transpose pairs on "
             "2-d,3-d; all flatten (start,end); unfold_dim all (dim,size,step<=3); pow exponents {-2,-1,0,1,2,3,.5,-.5,1.5,2.5,.3,-1.7}; all requires_grad subsets "
             "on the small shapes",
    "thorough": "as quick plus rank-4 shapes, extents <=7 for unfold_dim, full broadcasting cover for every operator form",
}


def main(tier="quick", seed=0, procs=None, only=None):
    run = Run("C01", tier, seed, "proof")
    run.assume("reals", "numpy", "shims", "atoms", "engines", "bounded-shapes")
    run.assume("ties of max/min and comparisons are excluded (strictness): the property allows any subgradient there")
    run.bounds = {"configuration_space": BOUNDS[tier]}
    run.rule = ("one case = one (op, shapes, arguments, requires_grad subset); per case all feasible paths are explored and every element of every "
                "gradient is one equality obligation against the symbolic VJP of the forward terms")
    cases = tensor_ops.all_cases(tier)
    if only:
        cases = [c for c in cases if only in c.name]
        run.extra["filtered_only"] = only
    from ..catalog import canaries, kernels
    kc = kernels.tensor_kernels(tier)             # kernel-level contracts (each cpu_ops backward on its own body)
    if only:
        kc = [c for c in kc if only in c.name]
    run.extra["kernel_level_cases"] = len(kc)
    cases = cases + kc + canaries.tensor_canaries()
    run_catalogue(run, cases, seed=seed, procs=procs)
    return run.finish()
