"""C11 - forward and backward never modify operands, targets or the caller's gradient.

 (a) symreal FRAME obligations on every configuration of the C01/C02 catalogues and on backward histories (C04 world):
     operand arrays are the same objects with element-wise identical terms after forward+backward, the caller's upstream
     gradient array is untouched, repeating the op on unchanged operands gives identical terms, non-requiring operands get
     no buffer.  Decided syntactically on the symbolic execution of the REAL code (all values at once).
 (b) STATIC FRAME ANALYSIS over the AST of the real source (re-read every run): every in-place construct in cpu_ops,
     conv_tools, functional, nn.functional, nn.layers, nn.losses, nn.activations must target an array whose base was
     allocated in the same function; the only writes to tensor state are the documented ones.  Unbounded (syntactic).
 (c) run-time byte snapshots in float32/float64 (bounded stand-in): overlapping views as operands, clone()/detach()
     storage independence, out-of-graph tensors across a backward sweep.
"""
import ast
import os

import numpy as np

from ..report import Run
from ..symreal.pool import run_catalogue
from ..catalog import tensor_ops, nn_ops

REPO = os.path.join(os.environ.get("VERIF_REPO", "/repo"), "synapgrad")
FILES = ["cpu_ops.py", "conv_tools.py", "functional.py", "nn/functional.py", "nn/layers.py", "nn/losses.py", "nn/activations.py", "tensor.py"]

ALLOC_CALLS = {"zeros", "ones", "empty", "full", "zeros_like", "ones_like", "empty_like", "full_like", "copy", "array", "pad", "stack", "concatenate",
               "tensordot", "arange", "eye", "split", "where", "exp", "log", "sqrt", "tanh", "maximum", "minimum", "sum", "mean", "max", "min", "var",
               "argmax", "argmin", "astype", "repeat", "tile", "cumprod", "prod", "floor", "rand", "randn", "normal", "uniform", "randint", "outer", "diag",
               "matmul", "dot", "unravel_index", "abs", "clip", "ndindex"}
VIEW_CALLS = {"reshape", "transpose", "moveaxis", "swapaxes", "squeeze", "expand_dims", "rollaxis", "broadcast_to", "ascontiguousarray", "as_strided",
              "sliding_window_view", "ravel", "view", "asarray", "asanyarray", "atleast_1d", "flatten_view"}
INPLACE_CALLS = {("np", "add", "at"): 0, ("np", "subtract", "at"): 0, ("np", "put_along_axis"): 0, ("np", "put"): 0, ("np", "copyto"): 0, ("np", "place"): 0,
                 ("np", "fill_diagonal"): 0}
INPLACE_METHODS = {"fill", "sort", "itemset", "resize", "partition", "put", "setfield", "setflags"}
# documented writes to tensor state (attribute rebinding or gradient buffers)
ALLOWED_ATTR_AUG = {"_grad"}                 # x._grad += ...  : accumulation into gradient buffers
ALLOWED_ATTR_ASSIGN_IN = {"batch_norm": {"data"},        # running_mean.data = new array  (training-mode running statistics)
                          "zero_": None, "backward": None, "copy_from": None}


class FrameScan(ast.NodeVisitor):
    """per function: which local names hold freshly allocated arrays (or views of them); flag in-place writes to anything else"""

    def __init__(self, fname, writers=None):
        self.fname = fname
        self.findings = []
        self.inplace_sites = 0
        self.functions = 0
        self.writers = writers or {}     # private helper name -> positions of the parameters it writes into (interprocedural step: judged at its call sites)

    def scan_function(self, fn, outer_fresh=frozenset(), qual=""):
        self.functions += 1
        qual = (qual + "." if qual else "") + fn.name
        fresh = set(outer_fresh)
        params = {a.arg for a in fn.args.args + fn.args.kwonlyargs}
        ordered_params = [a.arg for a in fn.args.args]
        if fn.args.vararg:
            params.add(fn.args.vararg.arg)

        def base_name(e):
            while True:
                if isinstance(e, ast.Subscript):
                    e = e.value
                elif isinstance(e, ast.Attribute) and e.attr in ("T", "real"):
                    e = e.value
                elif isinstance(e, ast.Call) and isinstance(e.func, ast.Attribute) and e.func.attr in VIEW_CALLS and not _is_np(e.func.value):
                    e = e.func.value
                elif isinstance(e, ast.Call) and isinstance(e.func, ast.Attribute) and e.func.attr in VIEW_CALLS and _is_np(e.func.value) and e.args:
                    e = e.args[0]
                elif isinstance(e, ast.Starred):
                    e = e.value
                else:
                    return e

        def is_fresh_expr(e):
            b = base_name(e)
            if isinstance(b, ast.Name):
                return b.id in fresh
            if isinstance(b, (ast.BinOp, ast.UnaryOp, ast.Compare, ast.BoolOp, ast.Constant, ast.List, ast.Tuple, ast.ListComp, ast.GeneratorExp, ast.Dict, ast.IfExp)):
                if isinstance(b, ast.IfExp):
                    return is_fresh_expr(b.body) and is_fresh_expr(b.orelse)
                return True
            if isinstance(b, ast.Call):
                f = b.func
                name = f.attr if isinstance(f, ast.Attribute) else (f.id if isinstance(f, ast.Name) else None)
                if name in VIEW_CALLS:
                    return False
                return True      # result of a computation (allocation, arithmetic kernel, constructor)
            return False

        def note(node, what, target, expr=None):
            b = base_name(expr) if expr is not None else None
            pidx = ordered_params.index(b.id) if isinstance(b, ast.Name) and b.id in ordered_params and b.id not in fresh else None
            self.findings.append({"file": self.fname, "function": qual, "line": node.lineno, "construct": what, "target": target, "fn_name": fn.name, "param_index": pidx,
                                  "private": fn.name.startswith("_") and not fn.name.startswith("__")})

        def handle_assign_targets(targets, value, node):
            for t in targets:
                if isinstance(t, ast.Name):
                    if value is not None and is_fresh_expr(value) and t.id not in params_written_guard:
                        fresh.add(t.id)
                    elif t.id in fresh and value is not None and not is_fresh_expr(value):
                        fresh.discard(t.id)
                elif isinstance(t, (ast.Tuple, ast.List)):
                    if value is not None and isinstance(value, ast.Call):
                        for el in t.elts:
                            el = el.value if isinstance(el, ast.Starred) else el
                            if isinstance(el, ast.Name):
                                fresh.add(el.id)
                    elif value is not None and isinstance(value, (ast.Tuple, ast.List)) and len(value.elts) == len(t.elts):
                        for el, v in zip(t.elts, value.elts):
                            handle_assign_targets([el], v, node)
                elif isinstance(t, ast.Subscript):
                    self.inplace_sites += 1
                    if not is_fresh_expr(t.value):
                        note(node, "subscript assignment", ast.unparse(t), t.value)
                elif isinstance(t, ast.Attribute):
                    pass        # attribute rebinding is not an in-place array write; tensor-state writes are checked separately

        params_written_guard = set()
        for node in self._walk_body(fn):
            if isinstance(node, ast.Assign):
                handle_assign_targets(node.targets, node.value, node)
            elif isinstance(node, ast.AnnAssign) and node.value is not None:
                handle_assign_targets([node.target], node.value, node)
            elif isinstance(node, ast.For):
                # loop variables iterate over local constructions
                for n in ast.walk(node.target):
                    if isinstance(n, ast.Name):
                        fresh.discard(n.id)
            elif isinstance(node, ast.AugAssign):
                t = node.target
                self.inplace_sites += 1
                if isinstance(t, ast.Name):
                    if t.id not in fresh:
                        # ints/floats are immutable; flag only if the name is a parameter that may be an array
                        if t.id in params and t.id not in ("dimension", "axis", "s", "idx", "i", "j"):
                            note(node, "augmented assignment to a parameter", t.id, t)
                elif isinstance(t, ast.Subscript):
                    if not is_fresh_expr(t.value):
                        note(node, "augmented subscript assignment", ast.unparse(t), t.value)
                elif isinstance(t, ast.Attribute):
                    if t.attr in ALLOWED_ATTR_AUG:
                        continue
                    if t.attr in ("step", "t", "_current_idx", "num_batches_tracked"):
                        continue
                    note(node, "augmented attribute assignment", ast.unparse(t))
            elif isinstance(node, ast.Call):
                f = node.func
                chain = _attr_chain(f)
                if chain in INPLACE_CALLS:
                    self.inplace_sites += 1
                    arg = node.args[INPLACE_CALLS[chain]] if node.args else None
                    if arg is None or not is_fresh_expr(arg):
                        note(node, ".".join(chain), ast.unparse(arg) if arg is not None else "?", arg)
                elif isinstance(f, ast.Attribute) and f.attr in INPLACE_METHODS:
                    self.inplace_sites += 1
                    if not is_fresh_expr(f.value):
                        note(node, "method ." + f.attr, ast.unparse(f.value), f.value)
                # a call of a private helper that writes into one of its parameters is an in-place write on the argument passed there
                callee = f.id if isinstance(f, ast.Name) else (f.attr if isinstance(f, ast.Attribute) else None)
                if callee in self.writers:
                    shift = 1 if isinstance(f, ast.Attribute) and isinstance(f.value, ast.Name) and f.value.id in ("self", "cls") else 0
                    for pidx in sorted(self.writers[callee]):
                        k_ = pidx - shift
                        arg = node.args[k_] if 0 <= k_ < len(node.args) else None
                        self.inplace_sites += 1
                        if arg is None or not is_fresh_expr(arg):
                            note(node, "call of %s, which writes into its parameter %d," % (callee, pidx), ast.unparse(arg) if arg is not None else "?", arg)
                for kw in node.keywords:
                    if kw.arg == "out":
                        self.inplace_sites += 1
                        if not is_fresh_expr(kw.value):
                            note(node, "out= argument", ast.unparse(kw.value), kw.value)
        # nested functions see the enclosing fresh names that are never re-bound (closures over operands are NOT fresh)
        for node in self._direct_nested(fn):
            self.scan_function(node, frozenset(), qual)

    def _walk_body(self, fn):
        """statements/expressions of fn in source order, not descending into nested function definitions"""
        out = []

        def rec(n):
            for ch in ast.iter_child_nodes(n):
                if isinstance(ch, (ast.FunctionDef, ast.AsyncFunctionDef, ast.Lambda, ast.ClassDef)):
                    continue
                out.append(ch)
                rec(ch)
        rec(fn)
        out.sort(key=lambda n: (getattr(n, "lineno", 0), getattr(n, "col_offset", 0)))
        return out

    def _direct_nested(self, fn):
        res = []

        def rec(n):
            for ch in ast.iter_child_nodes(n):
                if isinstance(ch, (ast.FunctionDef, ast.AsyncFunctionDef)):
                    res.append(ch)
                elif not isinstance(ch, (ast.Lambda, ast.ClassDef)):
                    rec(ch)
        rec(fn)
        return res


def _is_np(e):
    return isinstance(e, ast.Name) and e.id in ("np", "numpy") or (isinstance(e, ast.Attribute) and _is_np(e.value))


def _attr_chain(f):
    parts = []
    while isinstance(f, ast.Attribute):
        parts.append(f.attr)
        f = f.value
    if isinstance(f, ast.Name):
        parts.append(f.id)
        return tuple(reversed(parts))
    return None


def tensor_state_writes(tree, fname):
    """every assignment to <expr>.data / ._grad / ._requires_grad outside Tensor's own methods, by enclosing function"""
    writes = []
    for fn in [n for n in ast.walk(tree) if isinstance(n, (ast.FunctionDef,))]:
        for node in ast.walk(fn):
            tgts = []
            if isinstance(node, ast.Assign):
                tgts = node.targets
            elif isinstance(node, ast.AugAssign):
                tgts = [node.target]
            for t in tgts:
                if isinstance(t, ast.Attribute) and t.attr in ("data", "_grad", "grad") and not (isinstance(t.value, ast.Name) and t.value.id == "self"):
                    writes.append({"file": fname, "function": fn.name, "line": node.lineno, "target": ast.unparse(t), "aug": isinstance(node, ast.AugAssign)})
    # nested defs are visited twice (outer + inner): de-duplicate on line
    seen = {}
    for w in writes:
        seen[(w["file"], w["line"])] = w
    return list(seen.values())


DOCUMENTED_STATE_WRITERS = {
    ("nn/functional.py", "batch_norm"): {"running_mean.data", "running_var.data"},
}


def static_part(run):
    total_sites = 0
    total_fns = 0
    for rel in FILES:
        path = os.path.join(REPO, rel)
        src = open(path).read()
        tree = ast.parse(src)
        # interprocedural step for private helpers: a helper that writes into a parameter is not judged on its own (it cannot know what it is given) but at each of its call
        # sites in the file, where the argument must be a locally allocated array; iterated to a fixed point (helpers calling helpers)
        writers = {}
        for _round in range(6):
            sc = FrameScan(rel, writers)
            for node in tree.body:
                if isinstance(node, ast.FunctionDef):
                    sc.scan_function(node)
                elif isinstance(node, ast.ClassDef):
                    for m in node.body:
                        if isinstance(m, ast.FunctionDef):
                            sc.scan_function(m, qual=node.name)
            new = {}
            for f_ in sc.findings:
                if f_["private"] and f_["param_index"] is not None:
                    new.setdefault(f_["fn_name"], set()).add(f_["param_index"])
            if new == writers:
                break
            writers = new
        called = {(n.func.id if isinstance(n.func, ast.Name) else n.func.attr) for n in ast.walk(tree) if isinstance(n, ast.Call) and isinstance(n.func, (ast.Name, ast.Attribute))}
        sc.findings = [f_ for f_ in sc.findings if not (f_["private"] and f_["param_index"] is not None and f_["fn_name"] in called)]
        total_sites += sc.inplace_sites
        total_fns += sc.functions
        run.add_counts(obligations=sc.inplace_sites - len(sc.findings), discharged=sc.inplace_sites - len(sc.findings), backend="static-ast")
        for f in sc.findings:
            run.obligations += 1
            run.violation("static.inplace_write_targets_locally_allocated_array", "%s:%s line %d: %s on %s whose base is not allocated in the same function"
                          % (f["file"], f["function"], f["line"], f["construct"], f["target"]), key={"file": f["file"], "function": f["function"], "construct": f["construct"],
                                                                                                   "target": f["target"]},
                          replay={"static": f, "obligation_failed": "in-place construct on an array that may alias an operand", "verifier_output": f}, reproduced=False)
        # writes to tensor state
        for w in tensor_state_writes(tree, rel):
            fn = w["function"]
            ok = False
            if w["target"].endswith("._grad") and w["aug"]:
                ok = True                                     # gradient accumulation
            elif (rel, fn) in DOCUMENTED_STATE_WRITERS and w["target"] in DOCUMENTED_STATE_WRITERS[(rel, fn)]:
                ok = True
            elif rel == "tensor.py" and fn in ("backward", "zero_", "visit_node", "grad", "__init__", "copy_from"):
                ok = True                                     # the engine's own gradient buffers
            run.obligations += 1
            if ok:
                run.add_counts(discharged=1, backend="static-ast")
            else:
                run.violation("static.only_documented_writes_to_tensor_state", "%s:%s line %d writes %s" % (rel, fn, w["line"], w["target"]),
                              key={"file": rel, "function": fn, "target": w["target"]}, replay={"static": w, "verifier_output": w}, reproduced=False)
    run.extra["static_inplace_sites"] = total_sites
    run.extra["static_functions_scanned"] = total_fns
    run.sample({"static": "every in-place construct (x[...] = , x[...] += , np.add.at, np.put_along_axis, .fill, out=) must target an array whose base "
                          "was allocated in the same function", "sites": total_sites, "functions": total_fns})


# ------------------------------------------------------------------------------------------------ run-time snapshots
def runtime_part(run, tier, seed):
    import synapgrad
    from synapgrad.tensor import Tensor
    import synapgrad.functional as F
    import synapgrad.nn.functional as NF
    rng = np.random.RandomState(seed)

    def snap(a):
        return a.tobytes(), a.shape, a.dtype.str

    def check(name, key, arrays, fn):
        before = {k: snap(v) for k, v in arrays.items()}
        try:
            fn()
        except Exception as e:
            run.rt(("raised", name, str(key)))
            return
        run.rt((name, str(sorted(key.items()))))
        for k, v in arrays.items():
            if snap(v) != before[k]:
                run.violation(name, "array '%s' changed" % k, key={**key, "array": k}, replay={"case": key, "array": k})

    for dt in (np.float32, np.float64):
        # overlapping views of one base as the two operands of every binary op, forward + backward
        for opname, op in (("add", F.add), ("mul", F.mul), ("sub", lambda a, b: a - b), ("div", lambda a, b: a / b), ("matmul", None), ("mse", NF.mse_loss)):
            base = (rng.rand(4, 3) + 0.5).astype(dt)
            a_arr = base[0:3]
            b_arr = base[1:4]
            if opname == "matmul":
                sq = (rng.rand(3, 3) + 0.5).astype(dt)
                a_arr, b_arr, base = sq[:, :], sq.T, sq
                op = F.matmul

            def go(a_arr=a_arr, b_arr=b_arr, op=op):
                a = Tensor(a_arr, requires_grad=True)
                b = Tensor(b_arr, requires_grad=True)
                out = op(a, b)
                g = Tensor(np.ones(out.shape, dtype=dt))
                garr = g.data
                gb = garr.tobytes()
                out.backward(g)
                if garr.tobytes() != gb or g.data is not garr:
                    raise AssertionError("upstream gradient modified")
            check("runtime.operand_views_unchanged", {"op": opname, "dtype": np.dtype(dt).name, "operands": "overlapping views of one base"}, {"base": base}, go)
        # clone / detach: independent storage
        x = Tensor((rng.rand(2, 3)).astype(dt), requires_grad=True)
        for nm, y in (("clone", x.clone()), ("detach", x.detach()), ("F.clone", F.clone(x))):
            run.rt(("storage", nm, np.dtype(dt).name))
            if np.shares_memory(y.data, x.data) or y.data is x.data:
                run.violation("Tensor.%s.independent_storage" % nm, "%s() shares memory with its source" % nm, key={"api": nm, "dtype": np.dtype(dt).name},
                              replay={"api": nm})
            before = x.data.copy()
            y.data[...] = -7.0
            if not np.array_equal(x.data, before):
                run.violation("Tensor.%s.independent_storage" % nm, "writing the result of %s() changed the source" % nm, key={"api": nm, "dtype": np.dtype(dt).name},
                              replay={"api": nm})
        # tensors outside the graph being differentiated: data and gradient untouched by a sweep over another graph that shares a leaf
        p = Tensor(rng.rand(3).astype(dt), requires_grad=True)
        q = Tensor(rng.rand(3).astype(dt), requires_grad=True)
        other = (q * p).sum()
        other.backward()
        qg = q._grad.copy()
        qd = q.data.copy()
        r_ = (p * p).sum()
        r_.backward()
        run.rt(("outside-graph", np.dtype(dt).name))
        if not (np.array_equal(q._grad, qg) and np.array_equal(q.data, qd)):
            run.violation("Tensor.backward.outside_graph_untouched", "a tensor outside the differentiated graph changed", key={"dtype": np.dtype(dt).name}, replay={})
        # the seed gradient of one call stays intact while later calls accumulate into the same leaves
        w = Tensor(rng.rand(3).astype(dt), requires_grad=True)
        g1 = Tensor(rng.rand(3).astype(dt))
        g1b = g1.data.tobytes()
        w.backward(g1)
        (w * 2.0).backward(Tensor(np.ones(3, dtype=dt)))
        w.backward(Tensor(np.ones(3, dtype=dt)))
        run.rt(("seed-alive", np.dtype(dt).name))
        if g1.data.tobytes() != g1b:
            run.violation("Tensor.backward.callers_gradient_unchanged", "the gradient tensor passed to an earlier backward call was modified by later accumulation",
                          key={"dtype": np.dtype(dt).name, "root_kind": "leaf"}, replay={})
        # tensors that only ENTER THE CALLER'S CONTAINERS after the forward call are outside the graph: the list handed to a join is edited afterwards (an entry replaced by
        # an unrelated leaf that already holds a gradient, another unrelated leaf appended), the index list of a lookup is edited -- backward must leave them alone
        import synapgrad.functional as F_
        for jname, join in (("concat", lambda ps: F_.concat(ps, 0)), ("stack", lambda ps: F_.stack(ps, 0))):
            a = Tensor(rng.rand(3).astype(dt), requires_grad=True)
            b = Tensor(rng.rand(3).astype(dt), requires_grad=True)
            c = Tensor(rng.rand(3).astype(dt), requires_grad=True)
            d = Tensor(rng.rand(3).astype(dt), requires_grad=True)
            (c * 3.0).sum().backward()
            c_grad, c_data, d_data = np.asarray(c._grad).tobytes(), c.data.tobytes(), d.data.tobytes()
            parts = [a * 2.0, b]
            y = join(parts)
            parts[0] = c
            parts.append(d)
            run.rt(("outside-graph-container", jname, np.dtype(dt).name))
            try:
                (y * y).sum().backward()
            except Exception as e:
                run.violation("Tensor.backward.outside_graph_untouched", "backward through %s raised %s after the caller edited the list it had passed: %s" % (jname, type(e).__name__, e),
                              key={"dtype": np.dtype(dt).name, "join": jname, "clause": "container edited after the forward"}, replay={})
                continue
            if c._grad is None or np.asarray(c._grad).tobytes() != c_grad or c.data.tobytes() != c_data or d._grad is not None or d.data.tobytes() != d_data:
                run.violation("Tensor.backward.outside_graph_untouched", "after %s([a*2, b]) the caller replaced an entry of its list by an unrelated leaf c and appended another leaf d; "
                              "backward changed them (c.grad changed: %s, d.grad: %s)" % (jname, c._grad is None or np.asarray(c._grad).tobytes() != c_grad, "None" if d._grad is None else "set"),
                              key={"dtype": np.dtype(dt).name, "join": jname, "clause": "container edited after the forward"}, replay={})


def repeat_part(run, tier):
    """'repeating an operation on unchanged operands gives bit-identical results' for whole forward+backward programs in which a tensor has several consumers (the order
    of the float accumulations into its gradient must be fixed by the graph, not by object addresses): (1) static -- every loop of Tensor.backward takes its order from a
    list or a _children tuple, no set is iterated; (2) bounded -- a fixed fan-out program repeated with garbage allocated in between, all results and gradients compared
    by bytes.  Shared with C19 (vf/rtc/static_scan.py, vf/rtc/repro.py)."""
    from ..rtc import repro, static_scan as S
    bo = S.backward_order()
    run.add_counts(obligations=1, discharged=0 if bo["bad"] else 1, backend="static-ast")
    for b in bo["bad"]:
        run.violation("Tensor.backward.order_taken_from_the_graph", "%s: loop over `%s` does not take its order from a list / _children tuple, so the order of the "
                      "accumulations into a shared operand's gradient depends on object addresses" % (b["where"], b["name"]),
                      key=b, replay={"static": bo, "verifier_output": bo}, reproduced=False)
    import numpy as np
    import synapgrad as sg

    def fan_program():
        k = np.arange(1, 25, dtype=np.float32)
        x = sg.tensor((np.sin(k) * 3.7).reshape(4, 6), requires_grad=True)
        cs = [0.1, 1.7, -2.3, 1e-3, 33.3, -0.77, 5.01]
        parts = [x * c for c in cs]
        y = sg.concat(parts, 0)
        z = ((x * cs[0] + x * cs[1]) + x * cs[2]) + (x * cs[3] + sg.exp(x * 0.01))
        loss = (y * y).sum() + (z * 1.3).sum() + sg.stack([x * c for c in cs[:5]], 0).sum()
        loss.backward()
        return [("loss", loss.data.tobytes()), ("x.grad", x._grad.tobytes())]
    keep = []
    for prog_name, prog, times in (("fixed_program", repro.fixed_program, 3), ("fan_program", fan_program, 40 if tier == "quick" else 400)):
        first = None
        for r in range(times):
            cur = prog()
            run.rt(("repeat", prog_name, r))
            if first is None:
                first = cur
            elif [list(c) for c in cur] != [list(c) for c in first]:
                diff = [a[0] for a, b in zip(first, cur) if list(a) != list(b)]
                run.violation("Tensor.backward.repeat_bit_identical", "%s: repetition %d of the same forward+backward program on the same operand values differs bitwise in %s" %
                              (prog_name, r, diff), key={"program": prog_name, "arrays": diff}, replay={"program": prog_name, "repetition": r, "arrays": diff})
                break
            junk = [sg.tensor(np.zeros(1 + (i * 7 + r) % 13), requires_grad=bool(i % 2)) for i in range(100 + 37 * (r % 5))] + [object() for _ in range(500 + 101 * (r % 7))]
            keep.append(junk[::3])
            del junk


def main(tier="quick", seed=0, procs=None, only=None):
    run = Run("C11", tier, seed, "other")
    run.assume("reals", "numpy", "shims", "engines", "bounded-shapes")
    run.assume("static frame analysis is syntactic: 'fresh' = bound in the same function to the result of an allocation / arithmetic / call that is not a NumPy view "
               "function; view functions inherit their base; anything it cannot classify is reported, never assumed safe")
    run.explanation = ("(a) symbolic frame obligations on every C01/C02 configuration and on the C04 histories: operands' arrays identical objects with identical terms, caller's "
                       "gradient untouched, repeat gives identical terms (decided on the symbolic execution of the real code, all values, bounded shapes); "
                       "(b) static frame analysis over the AST of 8 source files (unbounded, syntactic); (c) run-time byte snapshots for overlapping-view operands, "
                       "clone/detach storage, out-of-graph tensors (bounded stand-in, float32 and float64).")
    run.rule = "symbolic: one case = one op configuration, frame facts only; runtime: one evaluation = one (scenario, dtype)"
    run.under_contract("every function of synapgrad.cpu_ops, conv_tools, functional, nn.functional (frame = {}), Tensor.backward (frame = gradient buffers)")
    try:
        static_part(run)
    except Exception as e:
        run.error("static frame analysis failed", e)
    cases = tensor_ops.all_cases(tier) + nn_ops.all_cases(tier)
    if tier == "quick":
        # frame facts do not depend on the value-path taken; keep path-heavy configurations small
        cases = [c for c in cases if c.max_paths <= 3000]
    if only:
        cases = [c for c in cases if only in c.name]
    run_catalogue(run, cases, seed=seed, procs=procs, want_post=False)
    from . import c04
    hist = c04.histories("quick", seed)
    run_catalogue(run, hist[:: (3 if tier == "quick" else 1)], seed=seed, procs=procs)
    try:
        runtime_part(run, tier, seed)
    except Exception as e:
        run.error("runtime snapshots failed", e)
    try:
        repeat_part(run, tier)
    except Exception as e:
        run.error("repetition part failed", e)
    return run.finish()
