"""C10 - results and gradients keep the operand's floating dtype and exact shape (bounded stand-in, run-time contracts).

Contract attached to the REAL functions, for every public op / operator form / nn function / loss module / layer:
   (a) result_dtype     result.dtype == dtype of the floating tensor operands (skipped when the operands' dtypes differ)
   (b) after out.backward(g), g of EITHER dtype:  for every leaf t (operands and parameters)  t.grad.shape == t.shape  and
       t.grad.dtype == t.dtype;  for the root (contract of Tensor.backward)  out.grad.shape == out.shape, out.grad.dtype == out.dtype
   (c) float32_float64_agree   max|out32 - out64| <= 1e-5 * max(1, max|out64|) on the same float32-representable data
Decided by rtc: exhaustive over the lattice {float32, float64, mixed} x operand kind {tensor, 0-d tensor, Python int, Python
float} x result-rank class {0-d, >=1-d} x broadcasting pattern x upstream dtype, for the catalogue below (shapes bounded).
dtype propagation is value-independent, so one seeded data point per configuration is used.  One VIOLATION per failure class.
"""
import sys

import numpy as np

from ..report import Run
from ..rtc import Collector, LibraryRaised, guarded, lib, synapgrad_modules

F32, F64 = np.dtype(np.float32), np.dtype(np.float64)
BIN = [("same", (2, 3), (2, 3)), ("trailing", (2, 3), (3,)), ("both-sides", (2, 1), (1, 3)), ("leading-1", (1, 3), (2, 3)), ("rank-extension", (3,), (2, 2, 3)),
       ("0-d second", (2, 3), ()), ("0-d first", (), (2, 3)), ("0-d both", (), ()), ("one-element", (1,), (1,))]


def T(*shape):
    return ("T", shape)          # float leaf, requires grad, values in [0.5, 2)


def C(*shape):
    return ("C", shape)          # float tensor without grad (running statistics)


def P(*shape):
    return ("P", shape)          # probabilities in (0.1, 0.9), requires grad


def U(*shape):
    return ("U", shape)          # targets in (0.1, 0.9), no grad


def I(v):
    return ("I", v)              # integer tensor (labels)


def S(v):
    return ("S", v)              # Python scalar


def kind(o):
    if o[0] == "S":
        return "python " + type(o[1]).__name__
    if o[0] == "I":
        return "int tensor"
    return "0-d tensor" if o[1] == () else "tensor"


def catalogue(F, NF, nn):
    L = []

    def add(api, fn, ops, pattern="", **kw):
        L.append(dict(api=api, fn=fn, ops=list(ops), pattern=pattern or ",".join(str(o[1]) for o in ops), **kw))

    import operator as op
    # ---- binary tensor ops: functional and operator forms over every broadcasting pattern
    for name, f in (("functional.add", F.add), ("functional.mul", F.mul), ("Tensor.__add__", op.add), ("Tensor.__sub__", op.sub),
                    ("Tensor.__mul__", op.mul), ("Tensor.__truediv__", op.truediv)):
        for pat, s1, s2 in BIN:
            add(name, lambda a, dt, f=f: f(a[0], a[1]), [T(*s1), T(*s2)], pat)
    # ---- operator forms with Python scalars (int and float), direct and reflected, >=1-d and 0-d tensor
    for shape in ((2, 3), ()):
        for s in (2, 2.5):
            for name, f in (("add", op.add), ("sub", op.sub), ("mul", op.mul), ("truediv", op.truediv), ("pow", op.pow)):
                add("Tensor.__%s__" % name, lambda a, dt, f=f: f(a[0], a[1]), [T(*shape), S(s)])
                add("Tensor.__r%s__" % name, lambda a, dt, f=f: f(a[0], a[1]), [S(s), T(*shape)])
            add("functional.pow", lambda a, dt: F.pow(a[0], a[1]), [T(*shape), S(s)])
            add("functional.rpow", lambda a, dt: F.rpow(a[0], a[1]), [T(*shape), S(s)])
        add("functional.pow", lambda a, dt: F.pow(a[0], a[1]), [T(*shape), S(-1)])
        add("Tensor.__neg__", lambda a, dt: -a[0], [T(*shape)])
        for name, f in (("neg", F.neg), ("clone", F.clone), ("exp", F.exp), ("log", F.log), ("sqrt", F.sqrt)):
            add("functional." + name, lambda a, dt, f=f: f(a[0]), [T(*shape)])
        for name in ("relu", "leaky_relu", "selu", "tanh", "sigmoid"):
            add("nn.functional." + name, lambda a, dt, f=getattr(NF, name): f(a[0]), [T(*shape)])
    for name, f in (("functional.matmul", F.matmul), ("Tensor.__matmul__", op.matmul)):
        for pat, s1, s2 in (("matrix", (2, 3), (3, 4)), ("batch-broadcast", (2, 2, 3), (3, 2)), ("row-column", (1, 3), (3, 1))):
            add(name, lambda a, dt, f=f: f(a[0], a[1]), [T(*s1), T(*s2)], pat)
    add("functional.addmm", lambda a, dt: F.addmm(*a), [T(2, 4), T(2, 3), T(3, 4)], "same")
    add("functional.addmm", lambda a, dt: F.addmm(*a), [T(4), T(2, 3), T(3, 4)], "bias-broadcast")
    # ---- indexing (incl. element indexing), joining, splitting
    for pat, shape, idx in (("row", (2, 3), 0), ("element", (2, 3), (1, 2)), ("element-1d", (3,), 0), ("range", (2, 3), (slice(None), slice(1, None))),
                            ("integer-array", (3, 2), ([0, 0, 1],)), ("newaxis", (3,), (Ellipsis, None))):
        add("functional.slice", lambda a, dt, i=idx: F.slice(a[0], i), [T(*shape)], pat)
        add("Tensor.__getitem__", lambda a, dt, i=idx: a[0][i], [T(*shape)], pat)
    add("functional.concat", lambda a, dt: F.concat(a, 0), [T(2, 3), T(1, 3)], "dim0")
    add("functional.concat", lambda a, dt: F.concat(a, 1), [T(2, 1), T(2, 2)], "dim1")
    add("functional.stack", lambda a, dt: F.stack(a, 0), [T(3), T(3)], "vectors")
    add("functional.stack", lambda a, dt: F.stack(a, 0), [T(), T()], "0-d operands")
    add("functional.unbind", lambda a, dt: F.unbind(a[0], 0)[1], [T(2, 3)], "rows")
    add("functional.unbind", lambda a, dt: F.unbind(a[0], 0)[1], [T(3)], "elements")
    # ---- reductions: dim None / int / tuple, keepdims
    for name in ("sum", "mean", "max", "min"):
        f = getattr(F, name)
        for pat, shape, dim, keep in (("full", (2, 3), None, False), ("full-keepdims", (2, 3), None, True), ("dim0", (2, 3), 0, False), ("dim1-keepdims", (2, 3), 1, True),
                                      ("dim-1", (2, 3), -1, False), ("vector-dim0", (3,), 0, False), ("0-d operand", (), None, False)) \
                + ((("tuple-all", (2, 3), (0, 1), False), ("tuple-keepdims", (2, 3, 2), (0, 2), True)) if name in ("sum", "mean") else ()):
            add("functional." + name, lambda a, dt, f=f, d=dim, k=keep: f(a[0], d, k), [T(*shape)], pat)
    # ---- Tensor methods (forwarders to functional.*): full reduction (0-d) and one >=1-d form each
    for name, args in (("sum", ()), ("mean", ()), ("max", ()), ("min", ()), ("sum", (0,)), ("mean", (1, True)), ("max", (0,)), ("min", (1, True)), ("exp", ()), ("log", ()),
                       ("sqrt", ()), ("clone", ()), ("squeeze", ()), ("unsqueeze", (0,)), ("reshape", ((3, 2),)), ("movedim", (0, 1)), ("transpose", (0, 1)), ("flatten", ()),
                       ("unfold", (1, 2, 1))):
        add("Tensor." + name, lambda a, dt, n=name, g=args: getattr(a[0], n)(*g), [T(2, 3)], "args=%s" % (args,))
    # ---- shape ops
    for api, fn, shape, pat in (
            ("functional.squeeze", lambda a, dt: F.squeeze(a[0]), (1, 3), "all"), ("functional.squeeze", lambda a, dt: F.squeeze(a[0]), (1, 1), "to-0-d"),
            ("functional.squeeze", lambda a, dt: F.squeeze(a[0], 1), (2, 1), "dim1"), ("functional.unsqueeze", lambda a, dt: F.unsqueeze(a[0], 0), (3,), "dim0"),
            ("functional.unsqueeze", lambda a, dt: F.unsqueeze(a[0], 0), (), "0-d operand"), ("functional.reshape", lambda a, dt: F.reshape(a[0], (3, 2)), (2, 3), "matrix"),
            ("functional.reshape", lambda a, dt: F.reshape(a[0], ()), (1,), "to-0-d"), ("functional.reshape", lambda a, dt: F.reshape(a[0], (1, 1)), (), "0-d operand"),
            ("functional.movedim", lambda a, dt: F.movedim(a[0], 0, 2), (2, 3, 4), "0->2"), ("functional.transpose", lambda a, dt: F.transpose(a[0], 0, 1), (2, 3), "0,1"),
            ("functional.flatten", lambda a, dt: F.flatten(a[0]), (2, 3, 4), "all"), ("functional.flatten", lambda a, dt: F.flatten(a[0], 1), (2, 3, 4), "start1"),
            ("functional.unfold_dim", lambda a, dt: F.unfold_dim(a[0], 0, 2, 1), (5,), "vector"), ("functional.unfold_dim", lambda a, dt: F.unfold_dim(a[0], 1, 3, 2), (2, 5), "dim1")):
        add(api, fn, [T(*shape)], pat)
    # ---- nn.functional
    for name, mod in (("softmax", "Softmax"), ("log_softmax", "LogSoftmax")):
        add("nn.functional." + name, lambda a, dt, f=getattr(NF, name): f(a[0], 1), [T(2, 3)], "dim1")
        add("nn.functional." + name, lambda a, dt, f=getattr(NF, name): f(a[0], 0), [T(3)], "vector")
        add("nn." + mod, lambda a, dt, m=getattr(nn, mod): m(1)(a[0]), [T(2, 3)], "dim1")
    for mod in ("ReLU", "LeakyReLU", "SELU", "Tanh", "Sigmoid"):
        add("nn." + mod, lambda a, dt, m=getattr(nn, mod): m()(a[0]), [T(2, 3)])
    losses = (("mse_loss", "MSELoss", [T(2, 3), T(2, 3)]), ("nll_loss", "NLLLoss", [T(2, 3), I([0, 2])]), ("binary_cross_entropy", "BCELoss", [P(4), U(4)]),
              ("binary_cross_entropy_with_logits", "BCEWithLogitsLoss", [T(4), U(4)]), ("cross_entropy", "CrossEntropyLoss", [T(2, 3), I([0, 2])]))
    for fname, mod, ops in losses:
        add("nn.functional." + fname, lambda a, dt, f=getattr(NF, fname): f(a[0], a[1]), ops)
        for red in ("mean", "sum", "none"):
            add("nn." + mod, lambda a, dt, m=getattr(nn, mod), r=red: m(reduction=r)(a[0], a[1]), ops, "reduction=" + red, reduction=red)
    add("nn.functional.linear", lambda a, dt: NF.linear(*a), [T(2, 3), T(4, 3), T(4)], "bias")
    add("nn.functional.linear", lambda a, dt: NF.linear(*a), [T(2, 3), T(4, 3)], "no-bias")
    for name, shape in (("max_pool1d", (2, 3, 6)), ("avg_pool1d", (2, 3, 6)), ("max_pool2d", (2, 3, 4, 4)), ("avg_pool2d", (2, 3, 4, 4))):
        add("nn.functional." + name, lambda a, dt, f=getattr(NF, name): f(a[0], 2), [T(*shape)])
        lay = "".join(w.capitalize() for w in name.split("_"))          # max_pool1d -> MaxPool1d
        add("nn." + lay, lambda a, dt, m=getattr(nn, lay): m(2)(a[0]), [T(*shape)])
    # the geometry arguments select different code paths (padding with a fill value, dilation, stride != kernel): dtype must not depend on them
    for name, shape in (("max_pool1d", (2, 3, 6)), ("avg_pool1d", (2, 3, 6)), ("max_pool2d", (2, 3, 5, 5)), ("avg_pool2d", (2, 3, 5, 5))):
        for pat, (k, s_, p_, d_) in (("k2,s1,pad1", (2, 1, 1, 1)), ("k2,s2,dil2", (2, 2, 0, 2)), ("k3,s2,pad1,dil1", (3, 2, 1, 1))):
            add("nn.functional." + name, lambda a, dt, f=getattr(NF, name), k=k, s_=s_, p_=p_, d_=d_: f(a[0], k, s_, p_, d_), [T(*shape)], pat)
    for name, shape in (("max_pool1d", (2, 3, 5)), ("avg_pool1d", (2, 3, 7)), ("max_pool2d", (2, 3, 5, 5)), ("avg_pool2d", (2, 3, 7, 5))):
        add("nn.functional." + name, lambda a, dt, f=getattr(NF, name): f(a[0], 2), [T(*shape)], "k2,default stride,windows do not tile the input")
    add("nn.functional.fold", lambda a, dt: NF.fold(a[0], (5, 5), (2, 2), 1, 2), [T(1, 8, 4)], "stride2,output not tiled")
    add("nn.functional.unfold", lambda a, dt: NF.unfold(a[0], (2, 2), 1, 1, 1), [T(1, 2, 4, 4)], "pad1")
    add("nn.functional.unfold", lambda a, dt: NF.unfold(a[0], (2, 2), 1, 1, 1, 0.5), [T(1, 2, 4, 4)], "pad1,pad_value=0.5")
    add("nn.functional.unfold", lambda a, dt: NF.unfold(a[0], (2, 2), 2, 2, (1, 0)), [T(1, 2, 5, 5)], "dil2,stride2,pad(1,0)")
    add("nn.functional.fold", lambda a, dt: NF.fold(a[0], (4, 4), (2, 2), 1, 2, 1), [T(1, 8, 9)], "stride2,pad1")
    add("nn.functional.conv1d", lambda a, dt: NF.conv1d(a[0], a[1], a[2], 1, 2, 2), [T(2, 3, 6), T(4, 3, 2), T(4)], "bias,pad2,dil2")
    add("nn.functional.conv2d", lambda a, dt: NF.conv2d(a[0], a[1], a[2], (2, 1), (1, 0), (1, 2)), [T(2, 3, 5, 5), T(4, 3, 2, 2), T(4)], "bias,tuple geometry")
    add("nn.functional.unfold", lambda a, dt: NF.unfold(a[0], (2, 2)), [T(1, 2, 4, 4)])
    add("nn.functional.fold", lambda a, dt: NF.fold(a[0], (4, 4), (2, 2)), [T(1, 8, 9)])
    add("nn.Unfold", lambda a, dt: nn.Unfold((2, 2))(a[0]), [T(1, 2, 4, 4)])
    add("nn.Fold", lambda a, dt: nn.Fold((4, 4), (2, 2))(a[0]), [T(1, 8, 9)])
    add("nn.Flatten", lambda a, dt: nn.Flatten()(a[0]), [T(2, 3, 2)])
    add("nn.Dropout", lambda a, dt: nn.Dropout(0.5)(a[0]), [T(2, 3)], agree=False)
    add("nn.functional.conv1d", lambda a, dt: NF.conv1d(*a), [T(2, 3, 6), T(4, 3, 2), T(4)], "bias")
    add("nn.functional.conv1d", lambda a, dt: NF.conv1d(a[0], a[1], None, 2, 1), [T(2, 3, 6), T(4, 3, 2)], "no-bias,stride2,pad1")
    add("nn.functional.conv2d", lambda a, dt: NF.conv2d(*a), [T(2, 3, 5, 5), T(4, 3, 2, 2), T(4)], "bias")
    add("nn.functional.conv2d", lambda a, dt: NF.conv2d(a[0], a[1], None, 2, 1), [T(2, 3, 5, 5), T(4, 3, 2, 2)], "no-bias,stride2,pad1")
    for pat, shape in (("2-d input", (4, 3)), ("4-d input", (2, 3, 2, 2))):
        add("nn.functional.batch_norm", lambda a, dt: NF.batch_norm(a[0], a[1], a[2], a[3], a[4], True), [T(*shape), T(3), T(3), C(3), C(3)], pat + ",training")
        add("nn.functional.batch_norm", lambda a, dt: NF.batch_norm(a[0], a[1], a[2], a[3], a[4], False), [T(*shape), T(3), T(3), C(3), C(3)], pat + ",eval")
        add("nn.functional.batch_norm", lambda a, dt: NF.batch_norm(a[0]), [T(*shape)], pat + ",no-affine")
        bn = nn.BatchNorm1d if len(shape) == 2 else nn.BatchNorm2d
        add("nn." + bn.__name__, lambda a, dt, bn=bn: bn(3, dtype=dt.type)(a[0]), [T(*shape)], "dtype argument")
        add("nn." + bn.__name__, lambda a, dt, bn=bn: bn(3)(a[0]), [T(*shape)], "default float32 parameters", dtypes=("float32",))
    # ---- layers with float32 parameters: only float32 input is in scope
    add("nn.Linear", lambda a, dt: nn.Linear(3, 4)(a[0]), [T(2, 3)], dtypes=("float32",), agree=False)
    add("nn.Conv1d", lambda a, dt: nn.Conv1d(3, 4, 2)(a[0]), [T(2, 3, 6)], dtypes=("float32",), agree=False)
    add("nn.Conv2d", lambda a, dt: nn.Conv2d(3, 4, 2)(a[0]), [T(2, 3, 5, 5)], dtypes=("float32",), agree=False)
    return L


class Checker:
    def __init__(self, run, seed):
        self.run, self.seed = run, seed
        self.C = Collector(run)
        self.Tensor, self.F, self.nn, self.NF = synapgrad_modules()
        self.specs = catalogue(self.F, self.NF, self.nn)

    def build(self, spec, data, dts):
        """operands of one configuration; dts[i] is the dtype of the i-th floating operand"""
        out, k = [], 0
        for o, d in zip(spec["ops"], data):
            if o[0] == "S":
                out.append(o[1])
            elif o[0] == "I":
                out.append(self.Tensor(np.array(o[1])))
            else:
                out.append(self.Tensor(d.astype(dts[k]), requires_grad=o[0] in "TP"))
                k += 1
        return out

    def leaves(self, out, operands):
        seen, res, stack = set(), [], [out]
        while stack:
            n = stack.pop()
            if id(n) in seen:
                continue
            seen.add(id(n))
            if n.requires_grad and n.grad_fn is None:
                idx = [i for i, o in enumerate(operands) if o is n]
                res.append(("operand%d" % idx[0] if idx else "parameter:%s" % (n.name or "?"), n))
            stack.extend(n._children)
        return sorted(res, key=lambda r: r[0])

    def check(self, si, spec):
        api, pattern = spec["api"], spec["pattern"]
        rng = np.random.default_rng([self.seed, si])
        data = [None if o[0] in "SI" else (rng.uniform(0.1, 0.9, o[1]) if o[0] in "PU" else rng.uniform(0.5, 2.0, o[1])).astype(np.float32) for o in spec["ops"]]
        nfl = sum(d is not None for d in data)
        kinds = ",".join(kind(o) for o in spec["ops"])
        uniform = [(np.dtype(n),) * nfl for n in spec.get("dtypes", ("float32", "float64"))]
        mixed = [(F32,) + (F64,) * (nfl - 1), (F64,) + (F32,) * (nfl - 1)] if nfl > 1 and "dtypes" not in spec else []
        src = "%s [%s; operands %s]" % (api, pattern, kinds)
        outs = {}

        def judge(obligation, ok, what, cls, dts, replay, ud=None):
            cid = (api, pattern, kinds, tuple(d.name for d in dts), ud, obligation, cls.get("tensor"))
            if ok:
                return self.C.ok(obligation, cid)
            rep = dict(replay, api=api, pattern=pattern, operand_kinds=kinds, operand_dtypes=[d.name for d in dts], upstream_dtype=ud,
                       operands=[o[1] if o[0] in "SI" else {"shape": list(o[1]), "values": d.tolist()} for o, d in zip(spec["ops"], data)])
            self.C.fail(obligation, "%s, operand dtype(s) %s%s: %s" % (src, "/".join(d.name for d in dts), ", upstream %s" % ud if ud else "", what), cls, cid, rep, member=api)

        for dts in uniform + mixed:
            dname = dts[0].name if len(set(dts)) == 1 else "mixed:" + "+".join(d.name for d in dts)
            base = {"dtype": dname, "operand_kinds": kinds}
            try:
                operands = self.build(spec, data, dts)
                out = lib(spec["fn"], operands, dts[0])
            except LibraryRaised as e:
                judge(api + ".completes", False, "forward raised %s" % e, dict(base, clause="completes", observed="raises"), dts, {"error": str(e)})
                continue
            rank = "0-d" if out.data.ndim == 0 else ">=1-d"
            base["result_rank_class"] = rank
            if len(set(dts)) == 1:
                outs[dts[0]] = np.asarray(out.data, dtype=np.float64)
                judge(api + ".result_dtype", out.dtype == dts[0], "result dtype %s, expected %s (result shape %s)" % (out.dtype, dts[0], out.shape),
                      dict(base, clause="result_dtype", observed=str(out.dtype)), dts, {"expected": dts[0].name, "actual": str(out.dtype), "result_shape": list(out.shape)})
            for ud in (F32, F64):
                try:
                    operands = self.build(spec, data, dts)
                    out = lib(spec["fn"], operands, dts[0])
                    g = self.Tensor(np.random.default_rng([self.seed, si, 1]).uniform(0.5, 2.0, out.shape).astype(ud))
                    lib(out.backward, g)
                except LibraryRaised as e:
                    judge(api + ".backward_completes", False, "backward raised %s" % e, dict(base, clause="backward_completes", upstream_dtype=ud.name, observed="raises"),
                          dts, {"error": str(e)}, ud.name)
                    continue
                for role, t in self.leaves(out, operands) + [("root", out)]:
                    pre = "Tensor.backward.root_" if role == "root" else api + "."
                    b = dict(base, upstream_dtype=ud.name, tensor=role, tensor_dtype=str(t.dtype))
                    if role == "root":     # op-independent contract of Tensor.backward: class = (root dtype, upstream dtype, rank class)
                        b = {"tensor": "root", "tensor_dtype": str(t.dtype), "upstream_dtype": ud.name, "result_rank_class": rank}
                    gshape, gdt = (None, None) if t._grad is None else (np.shape(t._grad), np.asarray(t._grad).dtype)
                    judge(pre + "grad_shape", gshape == t.shape, "%s.grad shape %s, tensor shape %s" % (role, gshape, t.shape),
                          dict(b, clause="grad_shape", observed=str(gshape)), dts, {"expected": list(t.shape), "actual": gshape}, ud.name)
                    judge(pre + "grad_dtype", gdt == t.dtype, "%s.grad dtype %s, tensor dtype %s (tensor shape %s)" % (role, gdt, t.dtype, t.shape),
                          dict(b, clause="grad_dtype", observed=str(gdt)), dts, {"expected": str(t.dtype), "actual": str(gdt)}, ud.name)
        if spec.get("agree", True) and F32 in outs and F64 in outs:
            a, b = outs[F32], outs[F64]
            ok = a.shape == b.shape and bool(np.all(np.abs(a - b) <= 1e-5 * max(1.0, float(np.max(np.abs(b), initial=0.0)))))
            judge(api + ".float32_float64_agree", ok, "float32 result %s vs float64 result %s" % (a.tolist(), b.tolist()),
                  {"operand_kinds": kinds, "clause": "float32_float64_agree", "observed": "differ"}, (F32, F64), {"float32": a.tolist(), "float64": b.tolist()})
        if si % 29 == 0:
            self.run.sample({"api": api, "pattern": pattern, "operand_kinds": kinds, "dtype_assignments": [[d.name for d in t] for t in uniform + mixed],
                             "upstream_dtypes": ["float32", "float64"]})


def layer_histories(run, seed):
    """layers with state (BatchNorm buffers, Dropout masks): the dtype contract must also hold AFTER earlier calls in the other mode"""
    import itertools
    Tensor, F, nn, NF = synapgrad_modules()
    rng = np.random.RandomState(seed)
    for cls, shape in ((nn.BatchNorm1d, (4, 3)), (nn.BatchNorm1d, (3, 2, 4)), (nn.BatchNorm2d, (3, 2, 2, 2))):
        for dt, kw in ((np.float32, {}), (np.float64, {"dtype": np.float64})):
            for mom in (0.1, None):
                for hist in (("train", "eval"), ("train", "train", "eval", "eval"), ("eval", "train", "eval"), ("train", "eval", "train")):
                    L = cls(shape[1], momentum=mom, **kw)
                    key = {"layer": cls.__name__, "dtype": np.dtype(dt).name, "momentum": mom, "history": list(hist)}
                    for step, mode in enumerate(hist):
                        getattr(L, mode)()
                        x = Tensor(rng.rand(*shape).astype(dt) + 0.5, requires_grad=True)
                        try:
                            with np.errstate(all="ignore"):
                                out = L(x)
                                out.backward(Tensor(np.ones(out.shape, dtype=dt)))
                        except Exception as e:
                            run.violation("nn.%s.history_completes" % cls.__name__, "step %d (%s) raised %s: %s" % (step, mode, type(e).__name__, e), key={**key, "step": step}, replay=key)
                            break
                        run.rt(("bn-history", cls.__name__, np.dtype(dt).name, mom, hist, step))
                        facts = {"result_dtype": out.data.dtype == dt, "input_grad_dtype": x._grad is not None and x._grad.dtype == dt,
                                 "running_mean_dtype": L.running_mean.data.dtype == dt, "running_var_dtype": L.running_var.data.dtype == dt,
                                 "weight_grad_dtype": L.weight._grad is None or L.weight._grad.dtype == L.weight.data.dtype}
                        bad = [k for k, ok in facts.items() if not ok]
                        if bad:
                            run.violation("nn.%s.%s_after_history" % (cls.__name__, bad[0]), "after %s (step %d, %s mode) with %s input: %s is wrong (result %s, running_var %s)"
                                          % (list(hist[:step + 1]), step, mode, np.dtype(dt).name, bad, out.data.dtype, L.running_var.data.dtype),
                                          key={**key, "step": step, "clause": bad[0], "mode": mode}, replay=key)
                            break
    for dt in (np.float32, np.float64):
        for p in (0.0, 0.3, 1.0):
            for hist in (("train",), ("eval", "train"), ("train", "eval", "train")):
                L = nn.Dropout(p)
                for step, mode in enumerate(hist):
                    getattr(L, mode)()
                    x = Tensor(rng.rand(3, 4).astype(dt), requires_grad=True)
                    out = L(x)
                    out2 = out * 1.0
                    out2.backward(Tensor(np.ones(out2.shape, dtype=dt)))
                    run.rt(("dropout-history", np.dtype(dt).name, p, hist, step))
                    if out.data.dtype != dt or x._grad.dtype != dt:
                        run.violation("nn.Dropout.result_dtype_after_history", "p=%s %s: result %s grad %s for %s input" % (p, list(hist[:step + 1]), out.data.dtype, x._grad.dtype, np.dtype(dt).name),
                                      key={"layer": "Dropout", "dtype": np.dtype(dt).name, "p": p, "history": list(hist)}, replay={})
                        break


def grad_histories(run, seed, tier):
    """after ANY interleaving of backward / Tensor.zero_ / Module.zero_grad / Optimizer.zero_grad / Optimizer.step the .grad of every
    parameter has exactly the parameter's shape and dtype, and the parameter keeps its dtype (all histories up to the stated length)"""
    import itertools
    Tensor, F, nn, NF = synapgrad_modules()
    import synapgrad.optim.optimizers as O
    from synapgrad.nn.modules import Parameter, Module
    rng = np.random.RandomState(seed)
    # conv_*: the parameters are converted to the other floating dtype (p.data = p.data.astype(...)) and their gradients reset by the named route
    alphabet = ("bw", "bw_other_dtype", "zero_t", "zero_mod", "zero_opt", "step", "conv_zero_t", "conv_zero_opt")
    maxlen = 4 if tier == "quick" else 5
    for kind in ("SGD", "Adam", "AdamW"):
        for dt in (np.float32, np.float64):
            other = np.float64 if dt == np.float32 else np.float32
            for n in range(1, maxlen + 1):
                for hist in itertools.product(alphabet, repeat=n):
                    if not any(e.startswith("bw") for e in hist):
                        continue
                    w = Parameter(rng.rand(2, 3).astype(dt), requires_grad=True)
                    b = Parameter(rng.rand(3).astype(dt), requires_grad=True)

                    class M(Module):
                        def __init__(s):
                            super().__init__()
                            s.w, s.b = w, b
                    mod = M()
                    opt = getattr(O, kind)([w, b], lr=0.01, **({"momentum": 0.9} if kind == "SGD" else {}))
                    key = {"optimizer": kind, "dtype": np.dtype(dt).name, "history": list(hist)}
                    cur = dt
                    for step, ev in enumerate(hist):
                        try:
                            if ev.startswith("conv"):
                                cur = np.float64 if cur == np.float32 else np.float32
                                for p_ in (w, b):
                                    p_.data = p_.data.astype(cur)
                                if ev == "conv_zero_t":
                                    w.zero_()
                                    b.zero_()
                                else:
                                    opt.zero_grad()
                            elif ev.startswith("bw"):
                                xd = cur if ev == "bw" else (np.float64 if cur == np.float32 else np.float32)
                                x = Tensor(rng.rand(4, 2).astype(xd))
                                out = (x @ w + b).sum()
                                out.backward()
                            elif ev == "zero_t":
                                w.zero_()
                                b.zero_()
                            elif ev == "zero_mod":
                                mod.zero_grad()
                            elif ev == "zero_opt":
                                opt.zero_grad()
                            else:
                                opt.step()
                        except Exception as e:
                            run.violation("grad_history.completes", "event %d (%s) raised %s: %s" % (step, ev, type(e).__name__, e), key={**key, "step": step}, replay=key)
                            break
                        run.rt(("grad-history", kind, np.dtype(dt).name, hist, step))
                        bad = [nm for nm, p_, sh in (("w", w, (2, 3)), ("b", b, (3,)))
                               if p_.data.dtype != cur or p_.data.shape != sh or (p_._grad is not None and (p_._grad.dtype != cur or p_._grad.shape != sh))]
                        if bad:
                            p_ = w if bad[0] == "w" else b
                            api = {"bw": "Tensor.backward", "bw_other_dtype": "Tensor.backward", "conv_zero_t": "Tensor.zero_", "conv_zero_opt": "Optimizer.zero_grad", "zero_t": "Tensor.zero_", "zero_mod": "Module.zero_grad", "zero_opt": "Optimizer.zero_grad",
                                   "step": "Optimizer.step"}[ev]
                            run.violation(api + ".grad_has_parameter_dtype_and_shape", "after %s the %s parameter %s has data %s%s and .grad %s%s" %
                                          (list(hist[:step + 1]), np.dtype(cur).name, bad[0], p_.data.dtype, p_.data.shape, None if p_._grad is None else p_._grad.dtype,
                                           None if p_._grad is None else p_._grad.shape), key={**key, "step": step, "event": ev}, replay=key)
                            break


def retained_interior_part(run, specs, seed):
    """".grad of EVERY tensor": also of interior results whose gradient is kept (retain_grad() on them, or the sweep run under retain_grads()). Every catalogue configuration is
    run with each tracked operand replaced by an interior result h = t * 1 of the operand's dtype; after backward the kept gradient of h has h's shape and dtype, whatever
    the dtype of the first contribution its consumer hands back"""
    Tensor, F, nn, NF = synapgrad_modules()
    tm = sys.modules["synapgrad.tensor"]
    for si, spec in enumerate(specs):
        if "empty" in spec["api"].split(".")[-1]:
            continue
        rng = np.random.default_rng([seed, si, 7])
        data = [None if o[0] in "SI" else (rng.uniform(0.1, 0.9, o[1]) if o[0] in "PU" else rng.uniform(0.5, 2.0, o[1])) for o in spec["ops"]]
        for dt in (np.float32, np.float64):
            for how in ("retain_grad()", "retain_grads()"):
                leaves, ops, hs = [], [], []
                try:
                    for o, d in zip(spec["ops"], data):
                        if o[0] == "S":
                            ops.append(o[1])
                        elif o[0] == "I":
                            ops.append(Tensor(np.array(o[1])))
                        elif o[0] in "TP":
                            t = Tensor(d.astype(dt), requires_grad=True)
                            h = t * 1.0
                            if how == "retain_grad()":
                                h.retain_grad()
                            leaves.append(t)
                            hs.append(h)
                            ops.append(h)
                        else:
                            ops.append(Tensor(d.astype(dt)))
                    if not hs:
                        continue
                    with np.errstate(all="ignore"):
                        out = spec["fn"](ops, dt)
                        root = (list(out) if isinstance(out, (tuple, list)) else [out])[0]
                        if not root.requires_grad:
                            continue
                        g = Tensor(np.ones(root.shape, dtype=root.data.dtype))
                        if how == "retain_grads()":
                            with tm.retain_grads():
                                root.backward(g)
                        else:
                            root.backward(g)
                except Exception:
                    continue                # completion is C01/C02's business
                run.rt(("retained-interior", spec["api"], spec["pattern"], np.dtype(dt).name, how))
                for k, h in enumerate(hs):
                    gk = h._grad
                    if gk is None:
                        continue            # an operand the result does not depend on
                    if np.asarray(gk).dtype != h.data.dtype or np.asarray(gk).shape != h.data.shape:
                        run.violation("Tensor.backward.kept_interior_grad_has_tensor_dtype_and_shape", "%s [%s], %s operands, gradient kept by %s: the interior operand %d of shape %s holds .grad %s%s" %
                                      (spec["api"], spec["pattern"], np.dtype(dt).name, how, k, h.data.shape, np.asarray(gk).dtype, np.asarray(gk).shape),
                                      key={"api": spec["api"], "dtype": np.dtype(dt).name, "kept_by": how}, replay={"api": spec["api"], "pattern": spec["pattern"], "dtype": np.dtype(dt).name, "kept_by": how})
                        break


def leaf_root_histories(run, seed, tier):
    """a LEAF that is also used as the root of backward (x.backward(), x.backward(g)) between ordinary sweeps: after any interleaving its .grad has exactly its shape and dtype
    (0-d leaves included: NumPy turns the sum of two 0-d arrays into a scalar, which later in-place additions rebind instead of updating) and the accumulated value"""
    import itertools
    Tensor, F, nn, NF = synapgrad_modules()
    alphabet = ("root", "root_g_other", "bw", "bw_other", "zero")
    maxlen = 3 if tier == "quick" else 4
    for dt in (np.float32, np.float64):
        other = np.float64 if dt == np.float32 else np.float32
        for shape in ((), (1,), (2,), (1, 1)):
            for n in range(1, maxlen + 1):
                for hist in itertools.product(alphabet, repeat=n):
                    x = Tensor(np.full(shape, 1.5, dtype=dt), requires_grad=True)
                    acc = np.zeros(shape)
                    key = {"dtype": np.dtype(dt).name, "shape": list(shape), "history": list(hist)}
                    for step, ev in enumerate(hist):
                        try:
                            if ev == "root":
                                x.backward(Tensor(np.ones(shape, dtype=dt))) if shape != () else x.backward()
                                acc = acc + 1
                            elif ev == "root_g_other":
                                x.backward(Tensor(np.full(shape, 0.5, dtype=other)))
                                acc = acc + 0.5
                            elif ev in ("bw", "bw_other"):
                                w = Tensor(np.full(shape, 2.0, dtype=dt if ev == "bw" else other))
                                (x * w).sum().backward()
                                acc = acc + 2.0
                            else:
                                x.zero_()
                                acc = np.zeros(shape)
                        except Exception as e:
                            run.violation("leaf_root_history.completes", "event %d (%s) raised %s: %s" % (step, ev, type(e).__name__, e), key={**key, "step": step}, replay=key)
                            break
                        run.rt(("leaf-root-history", np.dtype(dt).name, shape, hist, step))
                        g = x._grad
                        if g is None or np.asarray(g).dtype != dt or np.asarray(g).shape != shape or not np.allclose(np.asarray(g), acc):
                            run.violation("Tensor.backward.grad_has_tensor_dtype_and_shape", "after %s the %s leaf of shape %s holds .grad %s" %
                                          (list(hist[:step + 1]), np.dtype(dt).name, shape, "None" if g is None else "%s%s = %s (expected %s)" % (np.asarray(g).dtype, np.asarray(g).shape, np.asarray(g).tolist(), acc.tolist())),
                                          key={**key, "step": step, "event": ev}, replay=key)
                            break


OFFSETS = np.array([0.0, -150.0, -400.0, -30.0, -95.0, -12.0])


def scale_part(run, ck, specs):
    """'float32 results agree with the float64 results to single precision' on operands whose slices live at different scales: the first floating tensor operand is shifted
    by 0/-150/-400/-30/-95/-12 along each of its axes in turn (ordinary finite numbers; a normalisation that is stabilised per slice is indifferent to this, one stabilised
    with a global statistic underflows in float32 long before it does in float64).  Result and leaf gradients (unit upstream), both dtypes; configurations whose float64
    run raises or is not finite (log of a negative number, ...) are outside the clause and skipped."""
    for si, spec in specs:
        if not spec.get("agree", True) or "dtypes" in spec:
            continue
        tpos = [k for k, o in enumerate(spec["ops"]) if o[0] == "T" and len(o[1]) >= 1]
        ppos = [k for k, o in enumerate(spec["ops"]) if o[0] in "PU" and len(o[1]) >= 1]
        if not tpos and not ppos:
            continue
        k0 = tpos[0] if tpos else ppos[0]
        shape = spec["ops"][k0][1]
        for axis in ((list(range(len(shape))) + ["zeros"]) if tpos else []) + (["tiny"] if ppos else []):
            if axis not in ("zeros", "tiny") and shape[axis] < 2:
                continue
            rng = np.random.default_rng([ck.seed, si, 7])
            data = [None if o[0] in "SI" else (rng.uniform(0.1, 0.9, o[1]) if o[0] in "PU" else rng.uniform(0.5, 2.0, o[1])).astype(np.float32) for o in spec["ops"]]
            if axis == "tiny":
                # probabilities next to 0 (1e-8 is below float32's machine epsilon, 1e-20 far below, 0 itself): guards such as clip(p, eps, 1-eps) must not depend on the dtype
                k0 = ppos[0]
                shape = spec["ops"][k0][1]
                flat = data[k0].reshape(-1)
                flat[::2] = np.resize(np.array([1e-8, 1e-20, 0.0, 3e-8], dtype=np.float32), flat[::2].shape)
                data[k0] = flat.reshape(shape)
                axis, how = 0, "holding probabilities 1e-8, 1e-20, 0 and 3e-8 at every other position"
            elif axis == "zeros":
                # exact zeros (a relu output, a zero-initialised weight) in every other position: guards such as log(x + eps) must not depend on the dtype
                flat = data[k0].reshape(-1)
                flat[::2] = 0.0
                data[k0] = flat.reshape(shape)
                axis, how = 0, "holding exact zeros at every other position"
            else:
                sh = [1] * len(shape)
                sh[axis] = shape[axis]
                data[k0] = (data[k0] + np.resize(OFFSETS, shape[axis]).reshape(sh)).astype(np.float32)
                how = "shifted by %s along axis %d" % (np.resize(OFFSETS, shape[axis]).tolist(), axis)
            nfl = sum(d is not None for d in data)
            res = {}
            try:
                with np.errstate(all="ignore"):
                    for dt in (F64, F32):
                        operands = ck.build(spec, data, (dt,) * nfl)
                        out = spec["fn"](operands, dt)
                        o0 = out[0] if isinstance(out, (tuple, list)) else out
                        vals = [np.asarray(o0.data, dtype=np.float64)]
                        if o0.requires_grad:
                            o0.backward(ck.Tensor(np.ones(o0.shape, dtype=dt)))
                            vals += [np.asarray(t._grad, dtype=np.float64) for t in operands if hasattr(t, "_grad") and t._grad is not None]
                        res[dt] = vals
            except Exception:
                continue
            if not all(np.all(np.isfinite(v)) for v in res[F64]) or len(res[F64]) != len(res[F32]):
                continue
            run.rt(("scale", spec["api"], spec["pattern"], axis))
            for j, (a, b) in enumerate(zip(res[F32], res[F64])):
                tol = 1e-3 * max(1.0, float(np.max(np.abs(b), initial=0.0)))
                if a.shape != b.shape or not np.all(np.isfinite(a)) or not np.all(np.abs(a - b) <= tol):
                    what = "result" if j == 0 else "gradient %d" % (j - 1)
                    run.violation("%s.float32_float64_agree" % spec["api"], "%s [%s]: with operand %d %s the float32 %s is %s while the float64 one is %s" %
                                  (spec["api"], spec["pattern"], k0, how, what, a.tolist(), b.tolist()),
                                  key={"api": spec["api"], "clause": "float32_float64_agree at mixed scales", "what": what},
                                  replay={"api": spec["api"], "pattern": spec["pattern"], "operands": [None if d is None else d.tolist() for d in data], "axis": axis})
                    break


def upstream_shape_part(run, seed):
    """'whatever the shapes ... of the upstream gradient': an upstream gradient whose shape merely BROADCASTS to the root's shape is either refused or expanded -- after
    backward the root's .grad (leaf root, retained root, or under retain_grads) and every leaf's .grad have exactly their tensor's shape and dtype"""
    Tensor, F, nn, NF = synapgrad_modules()
    tm = sys.modules["synapgrad.tensor"]
    rng = np.random.RandomState(seed + 9)
    builders = [("leaf root", lambda x: x), ("functional.mul", lambda x: x * 2.0), ("functional.add", lambda x: x + x), ("nn.functional.relu", lambda x: NF.relu(x)),
                ("functional.sum(keepdims)", lambda x: F.sum(x, 1, True)), ("functional.transpose", lambda x: F.transpose(x, 0, 1))]
    for dt in (np.float32, np.float64):
        for name, build in builders:
            for how in ("retain_grad", "retain_grads", "plain"):
                x = Tensor(rng.rand(3, 4).astype(dt) + 0.5, requires_grad=True)
                y = build(x)
                cands = {(), (1,), (y.shape[-1],), (1, y.shape[-1]), (y.shape[0], 1), (1, 1)} - {tuple(y.shape)}
                for gs in sorted(cands, key=repr):
                    for gdt in (np.float32, np.float64):
                        x = Tensor(rng.rand(3, 4).astype(dt) + 0.5, requires_grad=True)
                        y = build(x)
                        if how == "retain_grad" and y is not x:
                            y.retain_grad()
                        g = Tensor(np.ones(gs, dtype=gdt))
                        run.rt(("upstream-shape", name, how, np.dtype(dt).name, gs, np.dtype(gdt).name))
                        try:
                            if how == "retain_grads":
                                with tm.retain_grads():
                                    y.backward(g)
                            else:
                                y.backward(g)
                        except Exception:
                            continue            # refusing a gradient of another shape is fine
                        bad = []
                        if y._grad is not None and (tuple(np.shape(y._grad)) != tuple(y.shape) or np.asarray(y._grad).dtype != dt):
                            bad.append("root .grad has shape %s dtype %s" % (np.shape(y._grad), np.asarray(y._grad).dtype))
                        if x._grad is not None and (tuple(np.shape(x._grad)) != (3, 4) or np.asarray(x._grad).dtype != dt):
                            bad.append("leaf .grad has shape %s dtype %s" % (np.shape(x._grad), np.asarray(x._grad).dtype))
                        if bad:
                            run.violation("Tensor.backward.grad_has_tensor_shape_and_dtype_for_any_upstream_gradient", "%s root of shape %s %s, backward(g) with g of shape %s %s (%s): %s" %
                                          (name, tuple(y.shape), np.dtype(dt).name, gs, np.dtype(gdt).name, how, "; ".join(bad)),
                                          key={"root": name, "upstream_shape": list(gs), "dtype": np.dtype(dt).name, "how": how}, replay={"root": name, "upstream_shape": list(gs)})


# ------------------------------------------------------------------------------------------- deductive part (pyvc)
def vc_targets():
    """The part of "every .grad has exactly its tensor's shape and dtype" that is integer / object logic, for all ranks <= 4 and all extents:
       * Tensor.matches_shape(t) is True exactly when the two shapes are equal (rank and every extent);
       * the .grad setter stores the given tensor's array iff the shapes match and refuses otherwise (nothing stored);
       * Tensor.zero_() installs, through that setter, a fresh array of zeros with the shape AND the dtype of the tensor's data (np.zeros_like under its contract).
    Accumulation (`_grad += ...`, NumPy in-place addition keeps shape and dtype of the left operand) and the seeding of the root are executed natively below."""
    import z3
    from ..pyvc.engine import Executor, State, Obj, Opaque, Raised
    from ..pyvc.harness import Target
    TENSOR_PY, NAME = "synapgrad/tensor.py", "synapgrad.tensor.Tensor."
    ts = []
    for ra in range(0, 5):
        for rb in range(0, 5):
            if abs(ra - rb) > 1 and (ra, rb) not in ((0, 4), (4, 0)):
                continue

            def setup(ex, ra=ra, rb=rb):
                s = State()
                me, other = Obj("Tensor"), Obj("Tensor")
                da = tuple(z3.Int("a%d" % i) for i in range(ra))
                db = tuple(z3.Int("b%d" % i) for i in range(rb))
                s.pc += [d >= 0 for d in da + db]
                s.attrs(me)["shape"], s.attrs(other)["shape"] = da, db
                return s, [me, other], {"da": da, "db": db}

            def ens(ctx, s, out):
                if isinstance(out, Raised):
                    return [("completes", False)]
                da, db = ctx["da"], ctx["db"]
                equal = z3.BoolVal(False) if len(da) != len(db) else z3.And(*[x == y for x, y in zip(da, db)]) if da else z3.BoolVal(True)
                v = out.value
                return [("true_exactly_for_equal_shapes", (v if z3.is_expr(v) else z3.BoolVal(bool(v))) == equal)]
            ts.append(Target(NAME + "matches_shape[ranks %d, %d]" % (ra, rb), TENSOR_PY, "Tensor.matches_shape", setup, ens, key={"ranks": [ra, rb]}))

    def setup_set(ex):
        s = State()
        me, g, arr = Obj("Tensor"), Obj("Tensor"), Obj("ndarray")
        old = Opaque("old_grad")
        s.attrs(me).update(_grad=old, shape=Opaque("shape"))
        s.attrs(g).update(data=arr, shape=Opaque("gshape"))
        m = z3.Bool("shapes_match")
        ex.models["Tensor.matches_shape"] = lambda ex_, st, args, kw: m
        return s, [me, g], {"me": me, "arr": arr, "old": old, "m": m}

    def ens_set(ctx, s, out):
        a = s.attrs(ctx["me"])
        if isinstance(out, Raised):
            return [("refuses_only_a_gradient_of_another_shape", z3.Not(ctx["m"])), ("nothing_stored_when_refused", a["_grad"] is ctx["old"])]
        return [("accepts_only_a_gradient_of_the_tensors_shape", ctx["m"]), ("stores_the_given_array", a["_grad"] is ctx["arr"])]
    ts.append(Target(NAME + "grad[setter]", TENSOR_PY, "Tensor.grad@setter", setup_set, ens_set, executor=lambda: Executor(havoc={"RuntimeError"})))

    def setup_zero(ex):
        s = State()
        me, data = Obj("Tensor"), Obj("ndarray")
        shp, dt = Opaque("shape"), Opaque("dtype")
        s.attrs(data).update(shape=shp, dtype=dt, values="data")
        s.attrs(me).update(data=data, device=Opaque("device"), _grad=Opaque("old_grad"))

        def zeros_like(ex_, st, args, kw):
            src = st.attrs(args[0])
            z = Obj("ndarray")
            st.attrs(z).update(shape=src["shape"], dtype=kw.get("dtype", src["dtype"]) if kw.get("dtype") is not None else src["dtype"], values="zeros")
            return z
        ex.models["np.zeros_like"] = zeros_like

        def tensor_ctor(ex_, st, args, kw):          # contract of Tensor(array): the array is stored as it is (C07 discharges the constructor)
            t = Obj("Tensor")
            arr = args[0]
            if kw.get("dtype") is not None:
                n = Obj("ndarray")
                st.attrs(n).update(st.attrs(arr))
                st.attrs(n)["dtype"] = kw["dtype"]
                arr = n
            st.attrs(t).update(data=arr)
            return t
        ex.models["Tensor"] = tensor_ctor

        def grad_setter(ex_, st, obj, value):       # contract of the setter proved above, with the callee's answer for equal shapes
            va, oa = st.attrs(st.attrs(value)["data"]), st.attrs(st.attrs(obj)["data"])
            if va["shape"] is oa["shape"]:
                st.attrs(obj)["_grad"] = st.attrs(value)["data"]
                return None
            return Raised("RuntimeError")
        ex.setattr_models[("Tensor", "grad")] = grad_setter
        return s, [me], {"me": me, "shape": shp, "dtype": dt, "data": data}

    def ens_zero(ctx, s, out):
        if isinstance(out, Raised):
            return [("completes", False)]
        g = s.attrs(ctx["me"]).get("_grad")
        if not isinstance(g, Obj) or g.cls != "ndarray":
            return [("installs_an_array_as_gradient_buffer", False)]
        ga = s.attrs(g)
        return [("buffer_has_the_shape_of_the_data", ga["shape"] is ctx["shape"]), ("buffer_has_the_dtype_of_the_data", ga["dtype"] is ctx["dtype"]),
                ("buffer_is_all_zero", ga["values"] == "zeros"), ("buffer_is_not_the_data_array", g is not ctx["data"]), ("data_untouched", s.attrs(ctx["me"])["data"] is ctx["data"])]
    ts.append(Target(NAME + "zero_", TENSOR_PY, "Tensor.zero_", setup_zero, ens_zero, executor=lambda: Executor()))
    return ts


def main(tier="quick", seed=0, procs=None, only=None):
    run = Run("C10", tier, seed, "other")
    run.assume("bounded stand-in: dtype/shape contracts are executed natively; NumPy's promotion rules are executed, not axiomatised",
               "dtype and shape propagation do not depend on operand values: one seeded data point (values in [0.5,2), probabilities in (0.1,0.9)) per configuration",
               "layers that create float32 parameters without a dtype argument (Linear, Conv1d, Conv2d, BatchNorm default) are in scope for float32 input only; "
               "BatchNorm1d/2d are additionally run with dtype=<input dtype>",
               "mixed-dtype operand combinations are checked for clause (b) only (the property fixes no result dtype there)",
               "the root's gradient clauses are attributed to synapgrad.tensor.Tensor.backward (the code that stores it) and grouped over ops; "
               "Tensor methods that merely forward to functional.* are run on one (2,3) operand each (full reduction and one >=1-d form); their patterns are those of functional.*",
               "max/min with tuple dims (C01 known finding) and Neuron/Sequential/optimizers are not part of this catalogue")
    ck = guarded(run, "setup", Checker, run, seed)
    if ck is not None:
        specs = [(i, s) for i, s in enumerate(ck.specs) if not only or only in s["api"]]
        if tier == "thorough":     # extra, larger broadcasting patterns for the binary forms (the lattice itself is already complete in quick)
            extra = [("rank4", (2, 1, 3, 1), (4, 1, 5)), ("ones", (1, 1), (1,)), ("0-d vs rank3", (), (2, 1, 2))]
            import operator as op
            for name, f in (("functional.add", ck.F.add), ("functional.mul", ck.F.mul), ("Tensor.__sub__", op.sub), ("Tensor.__truediv__", op.truediv)):
                for pat, s1, s2 in extra:
                    for sa, sb in ((s1, s2), (s2, s1)):
                        spec = dict(api=name, fn=lambda a, dt, f=f: f(a[0], a[1]), ops=[T(*sa), T(*sb)], pattern=pat + ("" if sa is s1 else ",swapped"))
                        if not only or only in name:
                            specs.append((len(ck.specs) + len(specs), spec))       # index only seeds the data of the configuration
        for i, s in specs:
            guarded(run, "%s [%s]" % (s["api"], s["pattern"]), ck.check, i, s)
        apis = sorted({s["api"] for _, s in specs})
        run.under_contract(*["synapgrad." + a for a in apis], "synapgrad.tensor.Tensor.backward", "synapgrad.tensor.Tensor.__init__")
        run.bounds = {"catalogue": "%d configurations of %d api forms" % (len(specs), len(apis)), "operand dtypes": "all float32; all float64; mixed (first operand vs the rest, both ways) when "
                      "there are >=2 floating operands", "operand kinds": ["tensor", "0-d tensor", "python int", "python float", "int tensor (labels)"],
                      "result rank classes": ["0-d", ">=1-d"], "broadcasting patterns (binary forms)": [b[0] + ":%s,%s" % b[1:] for b in BIN],
                      "upstream gradient dtypes": ["float32", "float64"], "shapes": "extents <= 6, ranks 0-4", "reductions (losses)": ["mean", "sum", "none"]}
        guarded(run, "operands at mixed scales", scale_part, run, ck, specs)
        guarded(run, "kept gradients of interior results", retained_interior_part, run, [s_ for _, s_ in specs], seed)
        run.extra["configurations_run"] = len(specs)
        run.extra["failure_classes"] = ck.C.flush()
        if only:
            run.extra["filtered_only"] = only
    try:
        from ..pyvc.harness import TargetCase
        from ..symreal.pool import run_catalogue
        run_catalogue(run, [TargetCase(t) for t in vc_targets()], seed=seed, procs=procs)
    except Exception as e:
        run.error("deductive part failed", e)
    guarded(run, "stateful layer histories", layer_histories, run, seed)
    guarded(run, "gradient-buffer histories", grad_histories, run, seed, tier)
    guarded(run, "leaf-root histories", leaf_root_histories, run, seed, tier)
    guarded(run, "upstream gradients of broadcastable shapes", upstream_shape_part, run, seed)
    run.rule = ("one evaluation = one clause (result_dtype | grad_shape | grad_dtype per leaf | root grad_shape/grad_dtype | backward_completes | float32_float64_agree) on one "
                "(api form, pattern, operand kinds, operand dtype assignment, upstream dtype); all are distinct")
    run.explanation = ("dtype promotion is defined by NumPy and the Tensor constructor, so it is executed on the real functions over the complete finite lattice of dtype x operand kind x "
                       "result rank x upstream dtype for a bounded set of shapes; failures are grouped by (obligation, class fields) with the affected api forms listed as `members`.")
    run.exhaustive = True
    return run.finish()
