"""C17 - deep graphs; untracked computations keep no history.  Level `other`: static AST obligations + bounded run-time contracts.

Static (decided syntactically on the source re-read from the imported synapgrad package on every run):
  Tensor.backward.no_graph_depth_recursion   no function reachable from Tensor.backward is (mutually) recursive along `_children`
  Tensor.__init__.untracked_keeps_no_children  not requiring grad  =>  self._children == ()   (abstract execution of __init__)
  wrapper.grad_fn_only_when_requires_grad    every public op wrapper stores grad_fn only inside `if out.requires_grad`
Run time (child interpreters, default recursion limit, vf/rtc/deep.py):
  backward.completes_on_deep_chain / backward.each_op_exactly_once / backward.leaf_gradient / backward.cost_linear
  untracked.operands_released
"""
from ..report import Run
from ..rtc import deep, static_scan as S

DEPTHS = {"quick": [10**3, 10**4], "thorough": [10**3, 10**4, 2 * 10**4, 5 * 10**4]}
# (family, n, timing): graphs that do not need a deep interpreter stack come first so that cost/once-only is also evaluated
# where the library is able to finish.  ladder: every interior node has two consumers; wide: n ops in branches of depth 200.
SHALLOW = {"quick": [("chain", 400, True), ("ladder", 400, True), ("fanin", 1000, True), ("wide", 10**4, True), ("stack", 6000, True)],
           "thorough": [("chain", 400, True), ("ladder", 400, True), ("fanin", 1000, True), ("wide", 10**4, True), ("wide", 5 * 10**4, True), ("stack", 6000, True), ("stack", 15000, True)]}
LOOPS = [10**3, 10**4]
RATIO_MAX, REL_TOL, LAST_FEW, LIVE_MAX = 3.5, 1e-6, 3, 16


def static_part(run):
    rec = S.backward_recursion()
    run.under_contract("Tensor.backward", "Tensor.__init__")
    run.extra["static_backward_call_graph"] = rec["reached"]
    bad = [c for c in rec["cycles"] if c["along_children"]]
    run.extra["static_recursion_not_along_children"] = [c for c in rec["cycles"] if not c["along_children"]]
    run.add_counts(obligations=1, discharged=0 if bad else 1, backend="static-ast")
    for c in bad:
        run.violation("Tensor.backward.no_graph_depth_recursion",
                      "%s calls itself (via %s, line %s) inside a loop over node._children: interpreter stack use grows with graph depth"
                      % (c["where"], ", ".join(c["via"]), c["lines"]),
                      key={"where": c["where"], "clause": c["clause"], "along_children": True}, replay={"static": c, "verifier_output": c}, reproduced=False)
    ini = S.init_children()
    run.extra["static_init_children"] = ini
    run.add_counts(obligations=1, discharged=1 if ini["ok"] else 0, backend="static-ast")
    if not ini["ok"]:
        run.violation("Tensor.__init__.untracked_keeps_no_children",
                      "on a path where the tensor does not require grad (%s false) __init__ ends with self._children = the `children` argument, not (): %s"
                      % ("/".join(ini["assumed_false"]), ini["trace"][0]),
                      key={"where": ini["where"], "clause": "children_retained_when_not_requiring_grad"}, replay={"static": ini, "verifier_output": ini}, reproduced=False)
    checked = {}
    for rel in ("functional.py", "nn/functional.py"):
        w = S.wrapper_guards(rel)
        checked[rel] = w["checked"]
        run.under_contract(*["%s:%s" % (rel, f) for f in w["checked"]])
        badfns = {b["where"] for b in w["bad"]}
        run.add_counts(obligations=len(w["checked"]), discharged=len(w["checked"]) - len(badfns), backend="static-ast")
        for b in w["bad"]:
            run.violation("wrapper.grad_fn_only_when_requires_grad", "%s: %s" % (b["where"], b["clause"]), key=b, replay={"static": b, "verifier_output": b}, reproduced=False)
        if len(w["checked"]) < 20:
            run.error("static: only %d op wrappers recognised in %s (pattern matcher out of date?)" % (len(w["checked"]), rel))
    run.extra["static_wrappers_checked"] = checked
    run.sample({"static": "Tensor.__init__ under 'requires grad is false'", "result": ini["trace"][0], "ok": ini["ok"]})


def graph_contracts(run, r, family, n):
    """evaluate the contracts on one child result `r` (dict of backward_once) for graph (family, n)"""
    base = {"family": family, "depth": n}
    run.rt(("graph", family, n))
    if not r.get("completed"):
        return ("backward.completes_on_deep_chain",
                "backward on a %s of %d recorded ops raised %s (%s) with the default recursion limit %s; smallest failing size here: %s"
                % (family, r.get("recorded_ops", n), r.get("exception"), r.get("message"), r.get("recursion_limit"), r.get("smallest_failing_n")),
                dict(base, clause="completes", exception=r.get("exception")))
    if r["constructed_ops"] != r["recorded_ops"]:
        raise RuntimeError("harness: constructed %s ops but found %s in the graph" % (r["constructed_ops"], r["recorded_ops"]))
    if "calls_total" in r and (r["calls_total"] != r["recorded_ops"] or r["calls_max_per_op"] != 1 or r["ops_never_called"] or r.get("calls_to_unrecorded")):
        return ("backward.each_op_exactly_once", "%d recorded ops but %d grad_fn invocations (max per op %d, never called %d)"
                % (r["recorded_ops"], r["calls_total"], r["calls_max_per_op"], r["ops_never_called"]),
                dict(base, clause="invocation_count", kind="more" if r["calls_total"] > r["recorded_ops"] else "fewer"))
    if r["grad_rel_err"] is None or not r["grad_rel_err"] <= REL_TOL:
        return ("backward.leaf_gradient", "leaf gradient %s differs from the analytic value %s (rel %s)" % (r["grad"], r["expected"], r["grad_rel_err"]),
                dict(base, clause="gradient_value"))
    return None


def runtime_part(run, tier):
    jobs = [(f, n, t) for f, n, t in SHALLOW[tier]] + [("chain", n, True) for n in DEPTHS[tier]] + [("ladder", DEPTHS[tier][-1], False)]
    ratios = {}
    for family, n, timing in jobs:
        spec = {"kind": "graph", "family": family, "n": n, "timing": timing}
        j = deep.run_job(spec, timeout=400)
        if j["status"] != "ok":
            if j["status"] == "crash" and j["last_phase"].startswith(("backward", "timing")):
                run.rt(("graph", family, n))
                run.violation("backward.completes_on_deep_chain", "child interpreter died (exit %s) during %s" % (j.get("returncode"), j["last_phase"]),
                              key={"family": family, "depth": n, "clause": "completes", "exception": "process_crash"}, replay=j)
            else:
                run.error("deep job %s: %s in phase %s: %s" % (spec, j["status"], j.get("last_phase"), j.get("stderr_tail", "")[-400:]))
            continue
        r = j["result"]
        evals = [(r, n)] + ([(r["double"], 2 * n)] if r.get("double") else [])
        for res, size in evals:
            v = graph_contracts(run, res, family, size)
            if v:
                run.violation(v[0], v[1], key=v[2], replay={"cmd": j["cmd"], "spec": spec, "result": r})
        if "ratio" in r:
            ratios["%s:%d" % (family, n)] = round(r["ratio"], 2)
            run.rt(("timing", family, n))
            if r["ratio"] >= RATIO_MAX:
                run.violation("backward.cost_linear", "backward time for 2n/n = %.2f (n=%d %s; %.4fs -> %.4fs, minimum of 2 runs) exceeds %.1f"
                              % (r["ratio"], n, family, r["t_n"], r["t_2n"], RATIO_MAX),
                              key={"family": family, "depth": n, "clause": "time_ratio"}, replay={"cmd": j["cmd"], "spec": spec, "result": r})
        elif timing:
            ratios["%s:%d" % (family, n)] = "not measurable: backward did not complete"
        run.sample({"graph": family, "n": n, "completed": r.get("completed"), "recorded_ops": r.get("recorded_ops"), "grad_fn_calls": r.get("calls_total"),
                    "grad_rel_err": r.get("grad_rel_err"), "time_ratio_2n_over_n": r.get("ratio"), "exception": r.get("exception")})
    run.extra["time_ratio_2n_over_n"] = ratios

    # many small random DAGs with shared intermediates (each op exactly once, gradient = forward-mode derivative)
    ndag = 3000 if tier == "quick" else 30000
    spec = {"kind": "dags", "first_seed": 0, "count": ndag, "max_ops": 10}
    j = deep.run_job(spec, timeout=900)
    if j["status"] != "ok":
        run.error("dag job: %s in phase %s: %s" % (j["status"], j.get("last_phase"), j.get("stderr_tail", "")[-400:]))
    else:
        r = j["result"]
        for sd in range(ndag):
            run.rt(("dag", sd))
        run.extra["random_dags"] = {"count": ndag, "ops": "3-12 binary elementwise ops each", "failing": r["n_bad"]}
        for bd in r["bad"][:5]:
            once = "invocations" in bd["what"]
            run.violation("backward.each_op_exactly_once" if once else ("backward.completes_on_any_graph" if "raised" in bd["what"] else "backward.leaf_gradient"),
                          "random DAG seed %d (%d ops, shared intermediates): %s [%d of %d DAGs fail]" % (bd["seed"], bd["ops"], bd["what"], r["n_bad"], ndag),
                          key={"family": "dag", "seed": bd["seed"], "clause": "dag"}, replay={"cmd": j["cmd"].replace(json_of(spec), json_of({**spec, "first_seed": bd["seed"], "count": 1})), "case": bd})
    # several roots over one shared trunk, one sweep per root
    # ... also when interior nodes keep their gradient between the sweeps (retain_grad() on trunk nodes, sweeps inside retain_grads(), the same root swept repeatedly)
    spec = {"kind": "heads", "configs": [[40, 2], [40, 3], [3000, 3], [7, 5]] + [[n_, h_, m_] for m_ in ("retain_grad", "retain_grads", "same_root") for n_, h_ in ((7, 3), (40, 2), (3000, 2))]}
    j = deep.run_job(spec, timeout=600)
    if j["status"] != "ok":
        run.error("heads job: %s in phase %s: %s" % (j["status"], j.get("last_phase"), j.get("stderr_tail", "")[-400:]))
    else:
        for cfg in j["result"]["configs"]:
            run.rt(("heads", cfg["trunk_ops"], cfg["heads"], cfg.get("mode")))
            key = {"family": "shared trunk", "trunk_ops": cfg["trunk_ops"], "heads": cfg["heads"], "mode": cfg.get("mode", "plain")}
            bad = None
            for si, sw in enumerate(cfg["sweeps"]):
                if not sw["completed"]:
                    bad = ("backward.completes_on_any_graph", "sweep %d raised %s: %s" % (si, sw["exception"], sw["message"]))
                elif sw["calls_total"] != sw["recorded_ops"] or sw["calls_max_per_op"] != 1 or sw["ops_never_called"]:
                    bad = ("backward.each_op_exactly_once", "sweep %d (root %d of %d over a shared trunk of %d ops, %s): %d recorded ops reachable, %d grad_fn invocations, %d never invoked"
                           % (si, si, cfg["heads"], cfg["trunk_ops"], cfg.get("mode", "plain"), sw["recorded_ops"], sw["calls_total"], sw["ops_never_called"]))
                if bad:
                    break
            if not bad and (cfg["grad_rel_err"] is None or not cfg["grad_rel_err"] <= REL_TOL):
                bad = ("backward.leaf_gradient", "after one sweep per head the leaf holds %s, the sum of the heads' derivatives is %s" % (cfg["grad"], cfg["expected"]))
            if bad:
                run.violation(bad[0], bad[1], key=dict(key, clause="multi_root"), replay={"cmd": j["cmd"], "spec": spec, "result": cfg})
    for mode in ("plain", "no_grad", "no_grad_reused", "plain_varying", "no_grad_varying", "plain_named", "no_grad_named", "plain_views", "no_grad_views", "no_grad_logging", "no_grad_inner_exception"):
        spec = {"kind": "untracked", "mode": mode, "loops": LOOPS}
        j = deep.run_job(spec, timeout=300)
        if j["status"] != "ok":
            run.error("untracked job %s: %s in phase %s: %s" % (spec, j["status"], j.get("last_phase"), j.get("stderr_tail", "")[-400:]))
            continue
        runs = j["result"]["runs"]
        for u in runs:
            run.rt(("untracked", mode, u["loop"]))
            if mode != "plain" and (u["result_requires_grad"] or u["result_has_grad_fn"]):
                run.violation("untracked.no_history_inside_no_grad", "a tensor computed inside an open no_grad() block (%s) has requires_grad=%s, grad_fn %s" %
                              (mode, u["result_requires_grad"], "set" if u["result_has_grad_fn"] else "None"), key={"mode": mode, "clause": "tracked_inside_no_grad", "loop": u["loop"]},
                              replay={"cmd": j["cmd"], "spec": spec, "result": j["result"]})
            elif u["result_requires_grad"] or u["result_has_grad_fn"] or not u["value_ok"]:
                run.error("untracked %s loop %d: harness precondition failed %s" % (mode, u["loop"], u))
        for u in runs:
            if "footprint_at_end" in u and u["footprint_at_end"] > u["footprint_after_20_steps"] + 256:
                run.violation("untracked.bounded_memory", "%d updates of a running value from NAMED operands (%s): everything reachable from the result tensor takes %d bytes after 20 steps and %d "
                              "bytes at the end - the result keeps something of every step" % (u["loop"], "inside no_grad()" if mode.startswith("no_grad") else "operands do not require grad",
                                                                                               u["footprint_after_20_steps"], u["footprint_at_end"]),
                              key={"mode": mode, "clause": "footprint_grows", "loop": u["loop"]}, replay={"cmd": j["cmd"], "spec": spec, "result": j["result"]})
                break
        small, big = runs[0], runs[-1]
        alive = [u for u in runs if u["operands_alive"] > LAST_FEW]
        grows = big["live_tensors_added"] > LIVE_MAX or big["live_tensors_added"] - small["live_tensors_added"] > LAST_FEW
        if alive or grows:
            clause = "operands_alive_after_loop" if alive else "live_tensor_count_grows"
            run.violation("untracked.operands_released",
                          "%s updates w = w - c*g (%s): after the loop and gc.collect() %s of %s operand tensors are still alive; live Tensor objects added: %s"
                          % (big["loop"], ("operands do not require grad" if mode.startswith("plain") else "operands require grad, inside no_grad()") + (", a new Python-number coefficient at every step" if mode.endswith("varying") else ""),
                             big["operands_alive"], big["loop"], {u["loop"]: u["live_tensors_added"] for u in runs}),
                          key={"mode": mode, "clause": clause, "loop": big["loop"]}, replay={"cmd": j["cmd"], "spec": spec, "result": j["result"]})
        run.sample({"untracked": mode, "runs": runs})


def json_of(spec):
    import json
    return json.dumps(spec)


def main(tier="quick", seed=0, procs=None, only=None):
    run = Run("C17", tier, seed, "other")
    run.assume("CPython reference counting + gc.collect() decide liveness; gc.get_objects() sees every Tensor (instances carry a __dict__)",
               "the default interpreter recursion limit (sys.getrecursionlimit() of a fresh interpreter, 1000) is the stack budget a user has",
               "the call graph below Tensor.backward is resolved by name: nested defs, Tensor members (receiver not a module global), module-level "
               "functions; the op closures invoked through grad_fn() are not followed statically (they are executed by the run-time part)")
    run.bounds = {"static": "whole of tensor.py / functional.py / nn/functional.py, all paths of Tensor.__init__",
                  "chains": "sequential ops n in %s (and 2n for timing); mul/add/neg/reshape on a float64 leaf of 3 elements" % DEPTHS[tier],
                  "shallow graphs": "chain/ladder 400 (+800), fan-in of 1000 (+2000) products of one leaf summed by a balanced add tree, one stack of 6000 (+12000) operands, "
                                    "wide graphs of %s ops in branches of depth 200" % [n for f, n, _ in SHALLOW[tier] if f == "wide"],
                  "untracked loops": "w = w - 0.1*g, lengths %s, (a) operands not requiring grad, (b) operands requiring grad inside no_grad(), (c) the same inside an open no_grad block "
                                     "that also enters a stored, re-used no_grad object" % LOOPS,
                  "random DAGs": "%d seeded DAGs of 3-12 binary elementwise ops over one leaf and earlier nodes (shared intermediates)" % (3000 if tier == "quick" else 30000),
                  "tolerances": "gradient rel %g; time(2n)/time(n) < %g (min of 2 runs each, cyclic GC paused while timing); <= %d operands alive; <= %d live tensors added"
                                % (REL_TOL, RATIO_MAX, LAST_FEW, LIVE_MAX)}
    run.rule = ("static obligation = one syntactic fact about one function (counted as obligation); run-time evaluation = one graph (family, size) "
                "or one loop (mode, length) executed in a child interpreter and checked against all its contracts")
    run.explanation = (
        "Decided statically (AST of the sources under %s, re-read on this run): (S1) no function reachable from Tensor.backward is recursive along "
        "_children; (S2a) abstract execution of every path of Tensor.__init__ under 'requires-grad is false' ends with self._children == (); "
        "(S2b) each public op wrapper in functional.py and nn/functional.py stores grad_fn only in the body of `if <out>.requires_grad` and its backward "
        "closure is referenced nowhere else. These are for all inputs, but purely syntactic. Only explored at run time, bounded: backward completing with "
        "the default recursion limit, each recorded grad_fn invoked exactly once (ghost counter on BackwardFunction.__call__), the analytic leaf "
        "gradient, and time(2n)/time(n) (coarse: flagged only at >= 3.5), on chains of %s ops, ladders, a fan-in of 1000 and wide graphs; operand liveness (weakref + live Tensor "
        "count) after update loops of %s steps. 'Any depth and size that fits in memory' and 'loops of any length' are therefore covered by the "
        "static facts plus these sizes, not proved." % (S.package_dir(), DEPTHS[tier], LOOPS))
    for name, part in (("static", lambda: static_part(run)), ("runtime", lambda: runtime_part(run, tier))):
        try:
            part()
        except Exception as e:                      # a failure of the harness itself is never a violation
            import traceback
            traceback.print_exc()
            run.error("C17 %s part" % name, e)
    return run.finish()
