"""C16 - im2col / col2im variants agree and col2im is the exact adjoint of im2col.

Contracts (symreal; x, y and pad_value symbolic, so every statement holds for all values per geometry):
   im2col, im2col_v2, im2col_fast return element-wise identical term arrays in both layouts, equal to the index-notation
       spec  cols[n, (c,u,v), (i,j)] = xpad[n, c, i*sH + u*dH, j*sW + v*dW];
   extract_windows[i, j, n, c, u, v] is the same element;
   col2im, col2im_v2, col2im_fast and place_windows return identical sums, equal to the spec
       img[n,c,p,q] = sum of y over all (u,v,i,j) with (i*sH+u*dH-pH, j*sW+v*dW-pW) == (p,q);
   <im2col(x), y> == <x, col2im(y)>  (bilinear identity, zero padding);
   fold(unfold(x))[p] == x[p] * (number of windows covering p).
pyvc (unbounded in all sizes): the output-size formulas equal floor((L+2p-d(k-1)-1)/s)+1, and the last element of the
last window lies inside the padded array (the as_strided view of extract_windows is in bounds).
"""
import itertools

import numpy as np
import z3

from ..report import Run
from ..symreal import core, shim
from ..symreal.core import S, symarr, new_session
from ..symreal.discharge import prove_equal
from ..symreal.pool import run_catalogue
from ..catalog.nn_ops import REP_1D, out_len

CT = "synapgrad.conv_tools."


class GeomCase:
    expect = "c16"
    functions = tuple(CT + f for f in ("im2col", "im2col_v2", "im2col_fast", "col2im", "col2im_v2", "col2im_fast", "extract_windows", "place_windows",
                                       "get_im2col_indices", "get_conv2d_output_size"))

    def __init__(self, N, C, gh, gw, int_args=False, layout="C"):
        self.N, self.C, self.gh, self.gw = N, C, gh, gw
        self.int_args = int_args
        self.layout = layout            # memory layout of the input array: C-contiguous, Fortran-ordered, or a strided view of a larger buffer
        self.name = "conv_tools[geometry]"
        (H, kh, sh, ph, dh), (W, kw, sw, pw, dw) = gh, gw
        self.key = {"shape": (N, C, H, W), "kernel": (kh, kw), "stride": (sh, sw), "padding": (ph, pw), "dilation": (dh, dw), "int_args": int_args, "layout": layout}

    def run(self, seed):
        res = {"name": self.name, "key": dict(self.key), "obligations": 0, "discharged": 0, "backends": {}, "paths": 1, "solver_s": 0.0,
               "failures": [], "undecided": [], "errors": [], "notes": [], "status": "ok", "faithful": 0, "sample": None}
        try:
            self._run(res)
        except Exception as e:
            import traceback
            res["errors"].append("%s %s: %s\n%s" % (self.name, self.key, e, traceback.format_exc()[-1500:]))
        return res

    def _run(self, res):
        from synapgrad import conv_tools as ct
        sess = new_session()
        N, C = self.N, self.C
        (H, kh, sh, ph, dh), (W, kw, sw, pw, dw) = self.gh, self.gw
        lH, lW = out_len(H, kh, sh, ph, dh), out_len(W, kw, sw, pw, dw)
        L = lH * lW
        if self.int_args:
            k, s_, p, d = kh, sh, ph, dh
        else:
            k, s_, p, d = (kh, kw), (sh, sw), (ph, pw), (dh, dw)

        # history: the routines are functions of their arguments only -- earlier calls with OTHER geometries (same kernel/stride/dilation/padding arguments on
        # the same input with its two spatial axes swapped, and on a larger input) must not influence this one (memoised index tables, reused buffers)
        try:
            with shim.native():
                for (H2, W2) in ((W, H), (H + sh, W), (H, W + sw)):
                    if out_len(H2, kh, sh, ph, dh) < 1 or out_len(W2, kw, sw, pw, dw) < 1:
                        continue
                    x2 = np.arange(N * C * H2 * W2, dtype=np.float64).reshape(N, C, H2, W2)
                    for fn in (ct.im2col, ct.im2col_v2, ct.im2col_fast):
                        cols = fn(x2, k, d, s_, p, 0.0, as_unfold=True)
                    for fn in (ct.col2im, ct.col2im_v2, ct.col2im_fast):
                        fn(np.asarray(cols, dtype=np.float64), (N, C, H2, W2), k, d, s_, p)
        except Exception as e:
            res["notes"].append("warm-up calls on neighbouring geometries raised %s: %s (their own cases decide that)" % (type(e).__name__, str(e)[:100]))

        def compare(name, got, exp, what):
            got = np.asarray(got, dtype=object)
            exp = np.asarray(exp, dtype=object)
            res["obligations"] += 1
            if got.shape != exp.shape:
                res["failures"].append({"obligation": name + ".shape", "what": "%s: shape %s, expected %s" % (what, got.shape, exp.shape), "reproduced": True,
                                        "replay": {"geometry": self.key}})
                return
            res["discharged"] += 1
            res["backends"]["executed"] = res["backends"].get("executed", 0) + 1
            for idx in np.ndindex(*exp.shape):
                a, b = got[idx], exp[idx]
                res["obligations"] += 1
                if a is b:
                    v = None
                    backend = "syntactic"
                else:
                    v = prove_equal(S.of(a), S.of(b), list(sess.pre))
                    res["solver_s"] += v.seconds
                    backend = v.backend if v.status == "discharged" else None
                if backend:
                    res["discharged"] += 1
                    res["backends"][backend] = res["backends"].get(backend, 0) + 1
                    if res["sample"] is None and backend == "z3-simplify":
                        res["sample"] = {"obligation": name, "geometry": self.key, "element": list(idx), "lhs": str(S.of(a).term())[:120], "rhs": str(S.of(b).term())[:120], "backend": backend}
                else:
                    rep = self._native(name)
                    res["failures"].append({"obligation": name, "what": "%s: element %s is %s, expected %s" % (what, list(idx), str(S.of(a).term())[:100], str(S.of(b).term())[:100]),
                                            "reproduced": rep.get("reproduced", False), "replay": rep, "solver": v.backend if v else None, "answer": v.status if v else None})
                    return

        with shim.symbolic(eps="native"):
            x = _layout(symarr("x", (N, C, H, W)), self.layout)
            pv = S(sess.var("pv"))
            # ---- specification in index notation
            xpad = np.empty((N, C, H + 2 * ph, W + 2 * pw), dtype=object)
            xpad[...] = pv
            xpad[:, :, ph:ph + H, pw:pw + W] = x
            spec_unf = np.empty((N, C * kh * kw, L), dtype=object)
            spec_win = np.empty((lH, lW, N, C, kh, kw), dtype=object)
            for n, c, u, v, i, j in itertools.product(range(N), range(C), range(kh), range(kw), range(lH), range(lW)):
                e = xpad[n, c, i * sh + u * dh, j * sw + v * dw]
                spec_unf[n, (c * kh + u) * kw + v, i * lW + j] = e
                spec_win[i, j, n, c, u, v] = e
            spec_col = spec_unf.transpose(1, 2, 0).reshape(C * kh * kw, L * N)     # (C*kH*kW, L*N), column index l*N + n as the three variants lay it out

            try:
                variants = {"im2col": ct.im2col, "im2col_v2": ct.im2col_v2, "im2col_fast": ct.im2col_fast}
                for nm, fn in variants.items():
                    compare(CT + nm + ".unfold_layout", fn(x, k, d, s_, p, pv, as_unfold=True), spec_unf, nm + "(as_unfold=True)")
                cols2d = {}
                for nm, fn in variants.items():
                    cols2d[nm] = np.asarray(fn(x, k, d, s_, p, pv, as_unfold=False), dtype=object)
                ref = cols2d["im2col"]
                for nm in ("im2col_v2", "im2col_fast"):
                    compare(CT + nm + ".column_layout_agrees_with_im2col", cols2d[nm], ref, nm + "(as_unfold=False) vs im2col")
                compare(CT + "extract_windows.elements", ct.extract_windows(x, k, s_, p, d, pad_value=pv), spec_win, "extract_windows")
                # ---- col2im family on a symbolic y
                y = symarr("y", (N, C * kh * kw, L))
                spec_img = np.empty((N, C, H, W), dtype=object)
                spec_img[...] = 0
                cnt = np.zeros((H, W), dtype=int)
                for n, c, u, v, i, j in itertools.product(range(N), range(C), range(kh), range(kw), range(lH), range(lW)):
                    pp, qq = i * sh + u * dh - ph, j * sw + v * dw - pw
                    if 0 <= pp < H and 0 <= qq < W:
                        spec_img[n, c, pp, qq] = spec_img[n, c, pp, qq] + y[n, (c * kh + u) * kw + v, i * lW + j]
                        if n == 0 and c == 0:
                            cnt[pp, qq] += 1
                outs = {"col2im": ct.col2im(y, (N, C, H, W), k, d, s_, p), "col2im_v2": ct.col2im_v2(y, (N, C, H, W), k, d, s_, p),
                        "col2im_fast": ct.col2im_fast(y, (N, C, H, W), k, d, s_, p)}
                for nm, o in outs.items():
                    compare(CT + nm + ".fold_layout", o, spec_img, nm + " on (N, C*kH*kW, L)")
                # fold with a 2-tuple output size (the documented Fold form)
                compare(CT + "col2im_fast.output_size_pair", ct.col2im_fast(y, (H, W), k, d, s_, p), spec_img, "col2im_fast(output_shape=(H,W))")
                # 2-D column layout round trip: col2im of the 2-D matrix form of y
                y2 = np.asarray(y, dtype=object).transpose(1, 2, 0).reshape(C * kh * kw, L * N)
                for nm, fn in (("col2im", ct.col2im), ("col2im_v2", ct.col2im_v2), ("col2im_fast", ct.col2im_fast)):
                    compare(CT + nm + ".column_layout", fn(y2, (N, C, H, W), k, d, s_, p), spec_img, nm + " on the 2-D column matrix")
                # place_windows on the window form of y
                ywin = np.empty((lH, lW, N, C, kh, kw), dtype=object)
                for n, c, u, v, i, j in itertools.product(range(N), range(C), range(kh), range(kw), range(lH), range(lW)):
                    ywin[i, j, n, c, u, v] = y[n, (c * kh + u) * kw + v, i * lW + j]
                compare(CT + "place_windows.sums", ct.place_windows(ywin, (N, C, H, W), k, s_, p, d), spec_img, "place_windows")
                # ---- adjointness with zero padding:  <im2col(x), y> == <x, col2im(y)>
                unf0 = np.asarray(ct.im2col_fast(x, k, d, s_, p, 0, as_unfold=True), dtype=object)
                lhs = S.of(0)
                for a, b in zip(unf0.ravel(), np.asarray(y, dtype=object).ravel()):
                    lhs = lhs + S.of(a) * b
                rhs = S.of(0)
                for a, b in zip(np.asarray(x, dtype=object).ravel(), np.asarray(outs["col2im_fast"], dtype=object).ravel()):
                    rhs = rhs + a * S.of(b)
                compare(CT + "col2im_fast.adjoint_of_im2col", np.array(lhs, dtype=object), np.array(rhs, dtype=object), "<im2col(x),y> vs <x,col2im(y)>")
                # ---- fold(unfold(x)) == x * count
                fu = ct.col2im_fast(unf0, (N, C, H, W), k, d, s_, p)
                spec_fu = np.empty((N, C, H, W), dtype=object)
                for idx in np.ndindex(N, C, H, W):
                    spec_fu[idx] = x[idx] * int(cnt[idx[2], idx[3]])
                compare(CT + "fold_of_unfold.multiplies_by_window_count", fu, spec_fu, "fold(unfold(x))")
                # the same clauses natively on float64 and on int64 operands above 2**53 (bounded; "any x and y" includes values floats cannot carry)
                with shim.native():
                    nrep = self._native("native clauses")
                res["faithful"] += 1
                if nrep.get("reproduced") and not res["failures"]:
                    bad = [k_ for k_, v_ in (nrep.get("native_facts") or {}).items() if not v_]
                    res["obligations"] += 1
                    res["failures"].append({"obligation": CT + "variants_agree_for_any_x_and_y", "what": "natively: %s" % (bad or nrep.get("native_exception")), "reproduced": True, "replay": nrep})
            except Exception as e:
                rep = self._native("raises")
                import traceback
                if rep.get("native_exception"):
                    res["failures"].append({"obligation": CT + "accepts_documented_geometry", "what": "raised %s: %s on a geometry with %d windows"
                                            % (type(e).__name__, str(e)[:200], L), "reproduced": True, "replay": rep})
                elif rep.get("reproduced"):
                    bad = [k_ for k_, v_ in (rep.get("native_facts") or {}).items() if not v_]
                    res["failures"].append({"obligation": CT + "variants_agree_for_any_x_and_y", "what": "natively: %s fail(s) (the symbolic run raised %s: %s)" % (bad, type(e).__name__, str(e)[:120]),
                                            "reproduced": True, "replay": rep})
                else:
                    # the routine does not run on symbolic (object-dtype) arrays although it runs on floats and integers: outside what this verifier can execute
                    res["obligations"] += 1
                    res["undecided"].append({"obligation": CT + "symbolic_run %s" % (self.key,), "reason": "raised %s: %s on object arrays; the native float64 / int64 replay satisfies every clause"
                                             % (type(e).__name__, str(e)[:160])})

    def on_crash(self, why):
        """the symbolic run killed the interpreter (e.g. a strided view over object pointers read out of bounds): decide on floats"""
        rep = self._native("symbolic run crashed: " + why)
        if rep.get("reproduced"):
            return {"failure": {"obligation": CT + "variants_agree_on_any_memory_layout", "what": "native float64 run on a %s-layout input: %s"
                                % (self.layout, rep.get("native_facts") or rep.get("native_exception")), "reproduced": True, "replay": rep}}
        return {"native": rep}

    def _native(self, name):
        """native float64 replay of all agreement / adjointness clauses"""
        from synapgrad import conv_tools as ct
        rng = np.random.RandomState(0)
        N, C = self.N, self.C
        (H, kh, sh, ph, dh), (W, kw, sw, pw, dw) = self.gh, self.gw
        if self.int_args:
            k, s_, p, d = kh, sh, ph, dh
        else:
            k, s_, p, d = (kh, kw), (sh, sw), (ph, pw), (dh, dw)
        x = _layout(rng.randn(N, C, H, W), self.layout)
        rep = {"geometry": self.key, "clause": name}
        try:
            a = ct.im2col(x, k, d, s_, p, 0.5, as_unfold=True)
            b = ct.im2col_v2(x, k, d, s_, p, 0.5, as_unfold=True)
            c = ct.im2col_fast(x, k, d, s_, p, 0.5, as_unfold=True)
            y = rng.randn(*a.shape)
            i1 = ct.col2im(y, (N, C, H, W), k, d, s_, p)
            i2 = ct.col2im_v2(y, (N, C, H, W), k, d, s_, p)
            i3 = ct.col2im_fast(y, (N, C, H, W), k, d, s_, p)
            a0 = ct.im2col_fast(x, k, d, s_, p, 0, as_unfold=True)
            facts = {"im2col variants agree": bool(np.array_equal(a, b) and np.array_equal(a, c)), "col2im variants agree": bool(np.allclose(i1, i2) and np.allclose(i1, i3)),
                     "adjoint": bool(np.isclose((a0 * y).sum(), (x * i3).sum()))}
            # "any x and y": integer operands beyond 2**53 (not representable in float64) -- the routines only move and add values, so the variants agree EXACTLY
            # and the adjoint identity holds in exact integer arithmetic
            xi = _layout(rng.randint(-3, 4, size=(N, C, H, W)).astype(np.int64), self.layout)
            yi = (rng.randint(1, 8, size=a.shape).astype(np.int64) << 54) + rng.randint(0, 1000, size=a.shape)
            j1, j2, j3 = (f_(yi, (N, C, H, W), k, d, s_, p) for f_ in (ct.col2im, ct.col2im_v2, ct.col2im_fast))
            ai = ct.im2col(xi, k, d, s_, p, 0, as_unfold=True)
            facts["col2im variants agree exactly on int64 operands above 2**53"] = bool(all(np.asarray(j).dtype.kind == "i" for j in (j1, j2, j3)) and np.array_equal(j1, j2) and np.array_equal(j1, j3))
            facts["adjoint exact on int64"] = bool(int((np.asarray(ai, dtype=object) * np.asarray(yi, dtype=object)).sum()) == int((np.asarray(xi, dtype=object) * np.asarray(j1, dtype=object)).sum()))
            rep["native_facts"] = facts
            rep["reproduced"] = not all(facts.values())
        except Exception as e:
            rep["native_exception"] = "%s: %s" % (type(e).__name__, str(e)[:200])
            rep["reproduced"] = True
        return rep


def _layout(x, layout):
    """same values, different memory layout (the routines must not depend on it)"""
    if layout == "F":
        return np.asfortranarray(x)
    if layout == "view":
        big = np.empty(x.shape[:-1] + (2 * x.shape[-1],), dtype=x.dtype)
        big[..., ::2] = x
        big[..., 1::2] = x[..., ::-1] if x.dtype != object else 0
        return big[..., ::2]
    if layout == "T":
        return np.ascontiguousarray(x.transpose(3, 2, 1, 0)).transpose(3, 2, 1, 0)
    return x


def geometry_cases(tier):
    R = REP_1D
    cases = []
    for i, a in enumerate(R):
        js = range(len(R)) if tier == "thorough" else sorted({i, (i + 1) % len(R), (i + 4) % len(R), (i + 7) % len(R)})
        for j in js:
            N, C = (2, 2) if (i + j) % 5 == 0 else ((1, 2) if (i + j) % 5 == 1 else (1, 1))
            cases.append(GeomCase(N, C, a, R[j]))
    for g in [(3, 2, 1, 0, 1), (4, 2, 2, 1, 1), (5, 3, 1, 1, 2)]:
        cases.append(GeomCase(1, 2, g, g, int_args=True))
    # inputs that are not C-contiguous (Fortran order, transposed buffers, strided views)
    for layout in ("F", "T", "view"):
        for (a, b), (N, C) in zip([(R[1], R[2]), (R[3], R[6]), (R[7], R[4]), (R[8], R[0])], [(2, 2), (1, 2), (2, 1), (1, 1)]):
            cases.append(GeomCase(N, C, a, b, layout=layout))
    return cases


# ----------------------------------------------------------------------------------------------- pyvc size lemmas
def size_targets():
    from ..pyvc.engine import Executor, State, Returned, Raised
    from ..pyvc.harness import Target

    def floor_model(ex, s, args, kw):
        from ..pyvc.engine import py_floor
        return py_floor(args[0])

    def item_model(ex, s, args, kw):
        return args[0]

    def make_ex():
        ex = Executor()
        ex.models["np.floor"] = floor_model
        ex.models["np.broadcast_to"] = lambda ex_, s, a, k: (a[0] if isinstance(a[0], (tuple, list)) else tuple([a[0]] * a[1]))
        return ex

    def setup1(ex):
        s = State()
        L, k, st, p, d = z3.Ints("L k s p d")
        s.pc += [L >= 1, k >= 1, st >= 1, p >= 0, d >= 1]
        return s, [L, k, st, p, d], {"L": L, "k": k, "s": st, "p": p, "d": d}

    def spec(c):
        from ..pyvc.engine import py_floordiv
        return py_floordiv(c["L"] + 2 * c["p"] - c["d"] * (c["k"] - 1) - 1, c["s"]) + 1

    def ens1(ctx, s, out):
        if isinstance(out, Raised):
            return [("completes", False)]
        v = out.value
        return [("equals_floor_formula", v == spec(ctx)),
                ("last_window_inside_padded_input", z3.Implies(v >= 1, (v - 1) * ctx["s"] + (ctx["k"] - 1) * ctx["d"] <= ctx["L"] + 2 * ctx["p"] - 1)),
                ("one_more_window_would_not_fit", v * ctx["s"] + (ctx["k"] - 1) * ctx["d"] > ctx["L"] + 2 * ctx["p"] - 1)]

    ex1 = make_ex
    t1 = Target(CT + "get_conv1d_output_size", "synapgrad/conv_tools.py", "get_conv1d_output_size", setup1, ens1, executor=ex1)

    def setup2(ex):
        s = State()
        H, W = z3.Ints("H W")
        kh, kw_, sh, sw, ph, pw, dh, dw = z3.Ints("kh kw sh sw ph pw dh dw")
        for v in (H, W, kh, kw_, sh, sw, dh, dw):
            s.pc.append(v >= 1)
        s.pc += [ph >= 0, pw >= 0]
        ctx = {"h": {"L": H, "k": kh, "s": sh, "p": ph, "d": dh}, "w": {"L": W, "k": kw_, "s": sw, "p": pw, "d": dw}}
        return s, [(z3.Int("N"), z3.Int("C"), H, W), (kh, kw_), (dh, dw), (sh, sw), (ph, pw)], ctx

    def ens2(ctx, s, out):
        if isinstance(out, Raised):
            return [("completes", False)]
        v = out.value
        return [("height_equals_floor_formula", v[0] == spec(ctx["h"])), ("width_equals_floor_formula", v[1] == spec(ctx["w"]))]
    t2 = Target(CT + "get_conv2d_output_size", "synapgrad/conv_tools.py", "get_conv2d_output_size", setup2, ens2, executor=make_ex)
    return [t1, t2]


def native_edge_part(run, tier):
    """Bounded, native (float64): the agreement / adjointness clauses where the symbolic geometries cannot go --
      (a) extents next to the limits of the narrow integer types (253..257, 65533..65537 along one axis) with every padding 0..3: index arithmetic on the PADDED image
          must not wrap;
      (b) 'any x and y' and any pad value include the non-finite ones: pad_value in {-inf (what max-pooling passes), +inf, nan} and images with inf / -inf / nan pixels
          on the border and inside -- the routines only move values (im2col) or add them (col2im), so the variants agree element for element (nan == nan)."""
    from synapgrad import conv_tools as ct
    rng = np.random.RandomState(3)

    def same(a, b):
        return a.shape == b.shape and bool(np.array_equal(a, b, equal_nan=True))

    def facts_for(x, k, d, s_, p, pv):
        a, b, c = (f_(x, k, d, s_, p, pv, as_unfold=True) for f_ in (ct.im2col, ct.im2col_v2, ct.im2col_fast))
        a2, b2, c2 = (f_(x, k, d, s_, p, pv, as_unfold=False) for f_ in (ct.im2col, ct.im2col_v2, ct.im2col_fast))
        f = {"im2col variants agree (unfold layout)": same(a, b) and same(a, c), "im2col variants agree (matrix layout)": same(a2, b2) and same(a2, c2)}
        # independent reference for one layout: explicit padding, then a plain gather
        kh, kw = k
        xp = np.pad(x, ((0, 0), (0, 0), (p[0], p[0]), (p[1], p[1])), constant_values=pv)
        lh = (xp.shape[2] - d[0] * (kh - 1) - 1) // s_[0] + 1
        lw = (xp.shape[3] - d[1] * (kw - 1) - 1) // s_[1] + 1
        ref = np.empty((x.shape[0], x.shape[1] * kh * kw, lh * lw), dtype=x.dtype)
        r_ = 0
        for ch in range(x.shape[1]):
            for i in range(kh):
                for j in range(kw):
                    ref[:, r_, :] = xp[:, ch, i * d[0]: i * d[0] + s_[0] * (lh - 1) + 1: s_[0], j * d[1]: j * d[1] + s_[1] * (lw - 1) + 1: s_[1]].reshape(x.shape[0], -1)
                    r_ += 1
        f["im2col equals explicit padding followed by a gather"] = same(a, ref)
        if np.all(np.isfinite(x)):
            y = rng.randn(*a.shape)
            i1, i2, i3 = (f_(y, x.shape, k, d, s_, p) for f_ in (ct.col2im, ct.col2im_v2, ct.col2im_fast))
            f["col2im variants agree"] = bool(np.allclose(i1, i2) and np.allclose(i1, i3))
            a0 = ct.im2col(x, k, d, s_, p, 0, as_unfold=True)
            f["adjoint"] = bool(np.isclose((a0 * y).sum(), (x * i1).sum()))
        return f

    jobs = []
    big = (253, 254, 255, 256, 257) + ((65533, 65535, 65536, 65537) if tier == "thorough" else (65535,))
    for L in big:
        for pad in (0, 1, 2, 3):
            for axis in (2, 3):
                if L > 1000 and (pad not in (0, 2) or axis == 2):
                    continue
                shape = [1, 1, 3, 3]
                shape[axis] = L
                k, p = ((3, 2), (pad, 1)) if axis == 2 else ((2, 3), (1, pad))
                jobs.append(("extent %d along axis %d, padding %s" % (L, axis, p), rng.randn(*shape), k, (1, 1), (1, 1) if L < 1000 else ((1, 7) if axis == 3 else (7, 1)), p, 0.5))
    for pv in (-np.inf, np.inf, np.nan, 0.5):
        for special in (None, np.inf, -np.inf, np.nan):
            for k, d, s_, p in (((2, 2), (1, 1), (1, 1), (1, 1)), ((3, 2), (1, 2), (2, 1), (2, 1)), ((2, 3), (1, 1), (2, 2), (0, 2)), ((1, 1), (1, 1), (1, 1), (1, 0))):
                x = rng.randn(2, 2, 5, 4)
                if special is not None:
                    x[0, 0, 0, 0] = x[1, 1, -1, -1] = x[0, 1, 2, 0] = x[1, 0, 2, 2] = special       # corners, an edge, the interior
                if pv == 0.5 and special is None:
                    continue
                jobs.append(("pad_value %s, image with %s pixels, kernel %s dilation %s stride %s padding %s" % (pv, special, k, d, s_, p), x, k, d, s_, p, pv))
    # (c) views with unusual strides: NumPy calls an array C-contiguous whatever the strides of its extent-1 axes are (x[..., None] has stride 0 there, a transposed row image
    #     a stride of a whole row), broadcast views repeat one buffer, Fortran order and sliced views -- with and without padding, which is what normalises strides by copying
    base = rng.randn(2, 2, 5)
    row = rng.randn(2, 2, 1, 5)
    views = [("x[..., None] (one pixel wide, last stride 0)", base[..., None], (2, 1)), ("row image transposed to a column image", row.transpose(0, 1, 3, 2), (2, 1)),
             ("x[:, :, None, :] (one pixel high)", base[:, :, None, :], (1, 2)), ("column image transposed to a row image", row.transpose(0, 1, 3, 2).transpose(0, 1, 3, 2).swapaxes(2, 3).swapaxes(2, 3), (1, 2)),
             ("broadcast of one row to five", np.broadcast_to(rng.randn(2, 2, 1, 4), (2, 2, 5, 4)), (2, 2)), ("Fortran order", np.asfortranarray(rng.randn(2, 2, 4, 3)), (2, 2)),
             ("every second row and column of a larger image", rng.randn(2, 2, 8, 6)[:, :, ::2, ::2], (2, 2)), ("reversed rows", rng.randn(2, 2, 4, 3)[:, :, ::-1, :], (2, 2))]
    for vname, xv, k in views:
        for p in ((0, 0), (1, 0), (0, 1)):
            if p[0] > k[0] // 2 + 1 or p[1] > k[1] // 2 + 1:
                continue
            jobs.append(("view: %s, kernel %s, padding %s" % (vname, k, p), xv, k, (1, 1), (1, 1), p, 0.5))
    for label, x, k, d, s_, p, pv in jobs:
        run.rt(("native-edge", label))
        try:
            with np.errstate(all="ignore"):
                f = facts_for(x, k, d, s_, p, pv)
        except Exception as e:
            f = {"completes (%s: %s)" % (type(e).__name__, str(e)[:120]): False}
        bad = [k_ for k_, v_ in f.items() if not v_]
        if bad:
            run.violation(CT + "variants_agree_for_any_x_and_y", "natively, %s: %s" % (label, "; ".join(bad)), key={"case": label.split(",")[0], "facts": bad},
                          replay={"case": label, "shape": list(x.shape), "kernel": k, "dilation": d, "stride": s_, "padding": p, "pad_value": repr(pv), "failing": bad})


def main(tier="quick", seed=0, procs=None, only=None):
    from ..pyvc.harness import TargetCase
    run = Run("C16", tier, seed, "proof")
    run.assume("reals", "numpy", "shims", "engines", "bounded-shapes", "pyvc-encoding")
    run.bounds = {"geometries": "12 representative per-axis geometries (L<=6, k<=3, s<=3, p<=2, d<=2; non-square, stride>kernel, non-tiling, padding, dilation) in a covering product "
                                "(quick: 4 partners each; thorough: full 12x12), (N,C) in {(1,1),(1,2),(2,2)}, int-or-tuple arguments, symbolic pad value; size lemmas: all integers"}
    run.rule = "one case = one 2-d geometry; every element of every compared array is one equality obligation (x, y, pad value symbolic)"
    cases = geometry_cases(tier) + [TargetCase(t) for t in size_targets()]
    run_catalogue(run, cases, seed=seed, procs=procs)
    try:
        native_edge_part(run, tier)
    except Exception as e:
        run.error("native edge part failed", e)
    return run.finish()
