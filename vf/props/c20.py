"""C20 - Trainer.fit / Trainer.test / Evaluator: the training protocol as predicates over a ghost call log.

Bounded stand-in (DESIGN 2.4): real synapgrad objects (Trainer, Evaluator, DataLoader with a transform, SGD with momentum, MSELoss /
CrossEntropyLoss, a model Linear -> BatchNorm1d -> Dropout -> Linear) are wrapped by logging subclasses / proxies (vf/rtc/trainlog.py);
every configuration of a finite space is run once and the contracts of the statement are evaluated on the log:

  Trainer.fit   steps_per_epoch                      #optimizer.step == epochs x len(train_loader)
                zero_grad_then_backward_before_step  since the previous step: a zero_grad, then exactly one backward, then the step
                update_computed_in_training_mode     every training forward: model and every submodule .training, gradient mode on
                validation_in_eval_mode / validation_without_gradient_tracking / validation_changes_no_state (parameters, running
                                                     mean/var, num_batches_tracked byte-identical around each validation)
                restores_gradient_mode               gradient__ after fit == before, also when the validation loop raises
                history_one_entry_per_epoch / history_val_prefix / epoch_loss_is_mean_of_batch_losses / epoch_accuracy_is_fraction_correct
                completes                            every configuration of the quantifier is a legal input (0 epochs, 0 batches included)
  Trainer.test  in_eval_mode, without_gradient_tracking, changes_no_state, restores_gradient_mode (ambient mode on / off, loop raising)
  Evaluator     step / compute accuracy == fraction of correct predictions under the mode (own decoding), names carry the prefix
"""
import itertools
import multiprocessing as mp
import glob
import os
import traceback

from ..report import OUT as ROOT, Run

FIT_DEFAULT = dict(epochs=1, n_train=1, bs=2, val=None, ev=None, cb_train=False, cb_val=False, rem=0, val_raises=False, ev_cb=False)


def fit_cases(tier):
    modes = (None, "binary", "multi-class", "categorical")
    top = 5 if tier == "thorough" else 4
    out = []
    for ep, nt, bs, val, ev, ct, cv, rem in itertools.product(range(top), range(top), (1, 2, 3), (None, 0, 1, 2), modes, (False, True, "child"), (False, True, "child"), (0, 1)):
        if rem and bs == 1:
            continue
        for vr in ((False, True) if val else (False,)):
            for ecb in ((False, True) if ev and not vr else (False,)):      # Evaluator built with user epoch_callback / step_callback metrics
                out.append(dict(epochs=ep, n_train=nt, bs=bs, val=val, ev=ev, cb_train=ct, cb_val=cv, rem=rem, val_raises=vr, ev_cb=ecb))
    # histories of the loaders: somebody looked at a first batch (next(iter(loader))) before fit, or an epoch callback does so in every epoch -- the loader is then
    # partially consumed when the epoch's own iteration starts, which must start from the first batch all the same
    for peek, ep, nt, bs, val, ev in itertools.product(("before", "callback"), (1, 2, 3), (1, 2, 3), (1, 2), (None, 1, 2), (None, "multi-class")):
        for ct, cv in (((True, True), (True, False), ("child", True)) if peek == "callback" else ((False, False), (True, True))):
            out.append(dict(FIT_DEFAULT, epochs=ep, n_train=nt, bs=bs, val=val, ev=ev, cb_train=ct, cb_val=cv, peek=peek))
    # histories of the model: a BatchNorm layer whose track_running_stats flag is switched off after construction (buffers stay: eval must use and keep them); a layer
    # frozen while the optimizer was built and unfrozen by the epoch callback (its gradients must be cleared before each update like everybody else's)
    for hist, ep, nt, bs, val, ev in itertools.product(("bn_untracked_later", "unfreeze_in_callback"), (1, 2, 3), (1, 2, 3), (2, 3), (None, 1, 2), (None, "multi-class")):
        out.append(dict(FIT_DEFAULT, epochs=ep, n_train=nt, bs=bs, val=val, ev=ev, cb_train=(hist == "unfreeze_in_callback"), cb_val=False, hist=hist))
    return out


def test_cases():
    for nb, bs, ev, amb, vr in itertools.product((0, 1, 2), (1, 2, 3), (None, "multi-class"), (True, False), (False, True)):
        if vr and nb == 0:
            continue
        yield dict(FIT_DEFAULT, val=nb, bs=bs, ev=ev, val_raises=vr), amb


def _features(kind, case, amb=None):
    from ..rtc import trainlog as tl
    if kind == "fit":
        return tl.features(case)
    f = []
    if case["val"] == 0: f.append("zero_test_batches")
    if case["bs"] == 1: f.append("batch_size_1")
    if case["bs"] == 3: f.append("batch_size_3")
    if case["ev"]: f.append("vector_outputs")
    if case["val_raises"]: f.append("test_loop_raises")
    if amb is False: f.append("ambient_no_grad")
    return f


def _work(job):
    from ..rtc import trainlog as tl
    kind = job[0]
    try:
        if kind == "fit":
            n, fails, replay = tl.run_fit(job[1])
        elif kind == "test":
            n, fails, replay = tl.run_test(job[1], job[2])
        else:
            n, fails, replay = tl.run_evaluator(job[1], job[2], job[3])
        return job, n, fails, replay, None
    except Exception:
        return job, 0, [], None, "%s: %s" % (repr(job)[:200], traceback.format_exc(limit=4))


def _ckey(case):
    return tuple(case[k] for k in FIT_DEFAULT)


def main(tier="quick", seed=0, procs=None, only=None):
    from ..rtc import trainlog as tl
    run = Run("C20", tier, seed, "other")
    run.under_contract(*["synapgrad.nn.utils.train." + f for f in ("Trainer.fit", "Trainer.test", "Evaluator.step", "Evaluator.compute")])
    run.assume("bounded stand-in: run-time contracts over an exhaustively enumerated finite configuration space; nothing is proved beyond the bound",
               "the call log is complete: optimizer, loss, evaluator, loaders and model are reached only through the logging subclasses / proxies, "
               "Tensor.backward is patched for the duration of the call",
               "pkg_resources (needed by pkbar) is provided as a stub module outside /repo; pkbar output is discarded",
               "batches of one sample use ReLU in place of BatchNorm1d (batch statistics of one sample are rejected by the layer itself, as in torch)",
               "binary mode: scores equal to the threshold 0.5 are not in the alphabet (the statement does not say which side they fall on)",
               "epoch loss compared with the float64 mean of the logged batch losses to relative 1e-5 (float32 accumulation in fit)",
               "callbacks leave the model in the wrong mode (on_train_epoch -> eval, on_validation_epoch -> train); an exception inside validation is raised by the loader")
    for f in glob.glob(os.path.join(ROOT, "replays", "C20", "*.json")):
        os.remove(f)
    jobs = [("fit", c) for c in fit_cases(tier)] + [("test", c, a) for c, a in test_cases()]
    sizes = (1, 2, 3)
    for mode in tl.MODES:
        for n in sizes:
            for b in tl.evaluator_batches(mode, n):
                jobs.append(("ev", mode, [b], None if n % 2 else "val"))
        canned = [b for i, b in enumerate(tl.evaluator_batches(mode, 3)) if i % (73 if tier == "quick" else 17) == 0]
        for first in tl.evaluator_batches(mode, 2):                       # accumulation over two steps, then compute()
            for second in canned:
                jobs.append(("ev", mode, [first, second], "val" if len(jobs) % 2 else None))
    if seed:                                                              # extra seeded configurations beyond the core
        import random
        rng = random.Random(seed)
        for _ in range(40):
            jobs.append(("fit", dict(FIT_DEFAULT, epochs=rng.randint(4, 5), n_train=rng.randint(1, 5), bs=rng.randint(2, 4), val=rng.choice((None, 1, 3)),
                                     ev=rng.choice((None,) + tl.MODES), cb_train=rng.random() < .5, cb_val=rng.random() < .5, rem=0, val_raises=False)))
    if only:
        jobs = [j for j in jobs if only in repr(j)]
        run.extra["filtered_only"] = only
    top = 4 if tier == "thorough" else 3
    run.bounds = {"fit": "epochs 0..%d x train batches 0..%d x batch size 1..3 x validation loader {none, 0, 1, 2 batches} x evaluator {none, binary, multi-class, "
                         "categorical} x on_train_epoch {no, yes} x on_validation_epoch {no, yes} x partial last batch {no, yes: a loader shorter than one batch "
                         "when there are 0 batches} x validation loop raising in its last batch {no, yes}" % (top, top),
                  "test": "test batches 0..2 x batch size 1..3 x scalar / vector outputs x ambient gradient mode {on, off} x loop raising {no, yes}",
                  "evaluator": "every batch of 1..3 samples over scores {0.1,0.49,0.51,0.9} x labels {0,1} (binary) or 3 score rows x 3 labels (multi-class, "
                               "categorical); every 2-sample batch followed by a selection of 3-sample batches, then compute(); with and without prefix",
                  "jobs": len(jobs)}
    run.rule = "one case = one configuration: the real call is made once under observation and every clause is evaluated on its log / result"
    run.explanation = ("all configurations of the stated space are run; failing configurations are grouped by (obligation, exception type) and each is shrunk towards the "
                       "default configuration (1 epoch, 1 train batch of 2, no validation, no evaluator, no callbacks) by looking the simpler configurations up in the "
                       "results; the fields that cannot be reset name the triggering feature")
    run.exhaustive = not only
    results = {}
    try:
        with mp.get_context("fork").Pool(procs or min(16, os.cpu_count() or 1)) as pool:
            for job, n, fails, replay, err in pool.imap_unordered(_work, jobs, chunksize=64):
                if err:
                    run.error(err)
                    continue
                run.rt(repr(job[:1] + tuple(sorted(job[1].items())) + job[2:]) if job[0] != "ev" else (job[0], job[1], job[3], repr(replay["batches"])), n=max(n, 1))
                results[(job[0], _ckey(job[1]), job[2] if job[0] == "test" else None) if job[0] != "ev" else len(results)] = (job, fails, replay)
                if job[0] == "fit" and len(run.samples) < 6 and job[1]["epochs"] == 2 and job[1]["val"] == 1 and job[1]["n_train"] == 2 and replay:
                    run.sample({"case": job[1], "log": [e[0] for e in replay["call_log"]][:40]}, limit=6)
    except Exception as e:
        run.error("enumeration", e)
    # ---- group failures; shrink fit/test configurations by looking up simpler ones
    classes = {}
    for key, (job, fails, replay) in results.items():
        for obl, what, extra in fails:
            exc = extra.get("exception")
            if job[0] == "ev":
                feats = ["batch_size_1"] if len(job[2][0][0]) == 1 else []
                small, fields = job, {"mode": job[1], "batch_sizes": [len(b[0]) for b in job[2]], "prefix": job[3]}
            else:
                case = dict(job[1])
                changed = True
                while changed:
                    changed = False
                    for k, v in FIT_DEFAULT.items():
                        if case[k] != v:
                            cand = dict(case, **{k: v})
                            if cand["val"] is None or cand["val"] == 0:
                                cand["val_raises"] = False
                            r = results.get((job[0], _ckey(cand), job[2] if job[0] == "test" else None))
                            if r and any(o == obl and x.get("exception") == exc for o, _, x in r[1]):
                                case, changed = cand, True
                small = (job[0], case) + job[2:]
                feats = _features(job[0], case, job[2] if job[0] == "test" else None)
                fields = dict(case, ambient_gradient_mode=job[2]) if job[0] == "test" else dict(case)
                rr = results.get((job[0], _ckey(case), job[2] if job[0] == "test" else None))
                what, replay = next(((w, rr[2]) for o, w, x in rr[1] if o == obl and x.get("exception") == exc), (what, replay))
            feature = "+".join(feats) or "default_configuration"
            k = (obl, feature, exc, extra.get("which"), job[1] if job[0] == "ev" else None)
            c = classes.setdefault(k, {"n": 0, "what": what, "fields": fields, "replay": replay, "feats": feats, "extra": extra})
            c["n"] += 1
    for (obl, feature, exc, which, mode), c in sorted(classes.items(), key=lambda kv: repr(kv[0])):
        key = {"clause": obl.rsplit(".", 1)[1], "feature": feature, "features": c["feats"], "exception": exc}
        key.update({k: v for k, v in c["extra"].items() if k != "exception"})
        key.update(c["fields"])
        run.violation(obl, "%s [minimal configuration: %s] [%d failing configuration(s) in this class]" % (c["what"], c["fields"], c["n"]),
                      key=key, replay=dict(c["replay"] or {}, failing_cases_in_class=c["n"], observed=c["what"]))
    # ---- deductive part (vf/props/c20_vc.py): the update protocol for EVERY number of epochs and batches, loop contracts discharged by z3 on the real AST
    from . import c20_vc
    from ..pyvc.harness import TargetCase
    from ..symreal.pool import run_catalogue
    run.assume("deductive part: loops of Trainer.__train / __validate / fit are verified with inductive loop contracts over ghost counters (sidecar, keyed by the loop's iterable text); "
               "callee contracts: Module.train/eval set the whole model's mode (C12/C13), model(...) leaves modes alone, no_grad follows its protocol (C07), DataLoader yields len(loader) batches (C18), "
               "a user callback may leave the model in any mode but calls no optimizer method; fit uses __train / __validate through their proved contracts; the history dictionary is not interpreted (bounded part)",
               "the zero-batches obligations state what the code does (UnboundLocalError): they are the deductive form of the known findings C20-zero-train-batches / C20-zero-validation-batches")
    run_catalogue(run, [TargetCase(t) for t in c20_vc.targets()], seed=seed, procs=procs)
    return run.finish()
