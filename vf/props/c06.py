"""C06 - forward results of nn ops / layers / losses match their documented definitions.

Contracts (symreal, values symbolic; reference semantics in vf/spec/refsem.py written from the PyTorch definitions):
   conv{1,2}d(x,w,b)[n,o,pos] == b[o] + sum_{c,k} w[o,c,k] * xpad[n,c,pos*s + k*d],   output extent floor((L+2p-d(k-1)-1)/s)+1
   max pooling = max over the window's real elements (padding never wins); avg pooling divides by the full window size
   unfold: channel-major kernel layout, row-major block order; fold sums overlaps
   batch norm: biased batch variance in training, running statistics in eval; running buffers updated with the unbiased variance
   activations and per-element losses by their formulas, then mean / sum / none;  linear = x @ W.T + b
   legal configurations (int-or-tuple geometry arguments, any softmax dim, optional bias) are accepted;
   geometries without a window, wrong input rank or mismatched channels raise.
pyvc (unbounded): the two output-size functions equal the floor formula and the last window is in bounds (shared with C16);
Conv / pooling layer constructors normalise int-or-tuple / 'same' / 'valid' / default-stride arguments as documented.
"""
import itertools

import numpy as np
import z3

from ..report import Run
from ..spec import refsem as R
from ..spec.refsem import Reject
from ..symreal.core import S
from ..symreal.pool import run_catalogue
from ..catalog.nn_ops import REP_1D, out_len, geoms_1d, _labels, _const
from .c05 import FwdCase

NFN = "synapgrad.nn.functional."
ALPHA = 1.6732632423543772848170429916717
SCALE = 1.0507009873554804934193349852946


def _sqrt(x):
    return S.of(x).sqrt() if isinstance(x, S) else np.sqrt(x)


def _exp(x):
    return S.of(x).exp() if isinstance(x, S) else np.exp(x)


def _log(x):
    return S.of(x).log() if isinstance(x, S) else np.log(x)


def _tanh(x):
    return S.of(x).tanh() if isinstance(x, S) else np.tanh(x)


def softmax_ref(a, dim, log=False):
    """exp(x_i) / sum_j exp(x_j) along dim (the mathematical definition, no shift)"""
    a = np.asarray(a)
    n = a.ndim
    if n == 0:
        raise Reject("softmax of a 0-d tensor")
    d = R.norm_dim(dim, n)
    out = np.empty(a.shape, dtype=a.dtype)
    for idx in np.ndindex(*a.shape):
        row = []
        for k in range(a.shape[d]):
            j = list(idx)
            j[d] = k
            row.append(a[tuple(j)])
        if log:
            # log-sum-exp form with a shift by the row maximum (mathematically x_i - log sum_j exp(x_j) for ANY shift; the shifted
            # form is used because log(sum) cannot be factored structurally)
            m = row[0]
            for v in row[1:]:
                m = v if bool(v > m) else m
            tot = 0
            for v in row:
                tot = tot + _exp(v - m)
            out[idx] = a[idx] - (m + _log(tot))
        else:
            tot = 0
            for v in row:
                tot = tot + _exp(v)
            out[idx] = _exp(a[idx]) / tot
    return out


def loss_ref(kind, p, t, reduction, labels=None):
    p = np.asarray(p)
    if kind == "mse":
        per = R.binary(p, t, lambda x, y: (x - y) * (x - y))
    elif kind == "bce":
        per = R.binary(p, t, lambda x, y: -(y * _log(x) + (1 - y) * _log(1 - x)))
    elif kind == "bce_logits":
        # max(x,0) - x*y + log(1 + exp(-|x|))
        per = R.binary(p, t, lambda x, y: (x if bool(x > 0) else 0 * x) - x * y + _log(1 + _exp(-(x if bool(x > 0) else -x))))
    elif kind in ("nll", "ce"):
        N, C = p.shape
        if len(labels) != N or any(not (0 <= l < C) for l in labels):
            raise Reject("labels")
        src = softmax_ref(p, 1, log=True) if kind == "ce" else p
        per = np.empty((N, 1), dtype=p.dtype)
        for i, l in enumerate(labels):
            per[i, 0] = -src[i, l]
    if reduction == "none":
        return per
    tot = 0
    for v in per.ravel():
        tot = tot + v
    if reduction == "sum":
        return np.array(tot, dtype=per.dtype)
    return np.array(tot / per.size, dtype=per.dtype)


def cases(tier):
    import synapgrad.nn.functional as NF
    import synapgrad.nn as nn
    from synapgrad.nn.modules import Parameter
    cs = []
    ANY = "any"

    def add(name, key, leaves, call, ref, **kw):
        cs.append(FwdCase(name, key, leaves, call, ref, functions=(NFN + name.split(".")[-1],) if name.startswith("nn.functional.") else (), **kw))
    # ---- activations
    shapes = [(), (3,), (2, 2)]
    for s in shapes:
        add("nn.functional.relu", {"shape": s}, [("a", s, ANY)], lambda T: NF.relu(T["a"]), lambda A: R.unary(A["a"], lambda x: x if bool(x > 0) else 0 * x))
        add("nn.functional.leaky_relu", {"shape": s, "slope": 0.1}, [("a", s, ANY)], lambda T: NF.leaky_relu(T["a"], 0.1), lambda A: R.unary(A["a"], lambda x: x if bool(x > 0) else 0.1 * x))
        for sl in (2.5, -1.0, 0.0, 1.0):      # the slope is any real number: above 1, negative (slope -1 is |x|), 0 (relu), 1 (identity)
            add("nn.functional.leaky_relu", {"shape": s, "slope": sl}, [("a", s, ANY)], lambda T, sl=sl: NF.leaky_relu(T["a"], sl), lambda A, sl=sl: R.unary(A["a"], lambda x, sl=sl: x if bool(x > 0) else sl * x))
        add("nn.functional.leaky_relu", {"shape": s, "slope": "default 0.01"}, [("a", s, ANY)], lambda T: NF.leaky_relu(T["a"]), lambda A: R.unary(A["a"], lambda x: x if bool(x > 0) else 0.01 * x))
        add("nn.functional.selu", {"shape": s}, [("a", s, ANY)], lambda T: NF.selu(T["a"]),
            lambda A: R.unary(A["a"], lambda x: SCALE * (x if bool(x > 0) else ALPHA * (_exp(x) - 1))))
        add("nn.functional.tanh", {"shape": s}, [("a", s, ANY)], lambda T: NF.tanh(T["a"]), lambda A: R.unary(A["a"], _tanh))
        add("nn.functional.sigmoid", {"shape": s}, [("a", s, ANY)], lambda T: NF.sigmoid(T["a"]), lambda A: R.unary(A["a"], lambda x: 1 / (1 + _exp(-x))))
    for mod, rf in ((nn.ReLU, lambda x: x if bool(x > 0) else 0 * x), (nn.Tanh, _tanh), (nn.Sigmoid, lambda x: 1 / (1 + _exp(-x))),
                    (nn.SELU, lambda x: SCALE * (x if bool(x > 0) else ALPHA * (_exp(x) - 1)))):
        add("nn." + mod.__name__, {"shape": (3,)}, [("a", (3,), ANY)], lambda T, mod=mod: mod()(T["a"]), lambda A, rf=rf: R.unary(A["a"], rf))
    add("nn.LeakyReLU", {"shape": (3,), "slope": 0.2}, [("a", (3,), ANY)], lambda T: nn.LeakyReLU(0.2)(T["a"]), lambda A: R.unary(A["a"], lambda x: x if bool(x > 0) else 0.2 * x))
    for s in [(3,), (2, 3), (3, 2), (2, 2, 2)] + ([(2, 3, 2)] if tier == "thorough" else []):
        n = len(s)
        for dim in list(range(-n, n)) + [n, -n - 1]:
            add("nn.functional.softmax", {"shape": s, "dim": dim}, [("a", s, ANY)], lambda T, dim=dim: NF.softmax(T["a"], dim), lambda A, dim=dim: softmax_ref(A["a"], dim))
            add("nn.functional.log_softmax", {"shape": s, "dim": dim}, [("a", s, ANY)], lambda T, dim=dim: NF.log_softmax(T["a"], dim), lambda A, dim=dim: softmax_ref(A["a"], dim, log=True))
    add("nn.Softmax", {"shape": (2, 3), "dim": -1}, [("a", (2, 3), ANY)], lambda T: nn.Softmax(dim=-1)(T["a"]), lambda A: softmax_ref(A["a"], -1))
    add("nn.LogSoftmax", {"shape": (2, 3), "dim": 0}, [("a", (2, 3), ANY)], lambda T: nn.LogSoftmax(dim=0)(T["a"]), lambda A: softmax_ref(A["a"], 0, log=True))
    # ---- losses: per-element value then reduction
    for red in ("mean", "sum", "none"):
        add("nn.MSELoss", {"shape": (2, 2), "reduction": red}, [("p", (2, 2), ANY), ("t", (2, 2), ANY)], lambda T, red=red: nn.MSELoss(reduction=red)(T["p"], T["t"]),
            lambda A, red=red: loss_ref("mse", A["p"], A["t"], red))
        add("nn.BCELoss", {"shape": (3,), "reduction": red}, [("p", (3,), "unit"), ("t", (3,), "unit")], lambda T, red=red: nn.BCELoss(reduction=red)(T["p"], T["t"]),
            lambda A, red=red: loss_ref("bce", A["p"], A["t"], red))
        add("nn.BCEWithLogitsLoss", {"shape": (2,), "reduction": red}, [("p", (2,), ANY), ("t", (2,), "unit")], lambda T, red=red: nn.BCEWithLogitsLoss(reduction=red)(T["p"], T["t"]),
            lambda A, red=red: loss_ref("bce_logits", A["p"], A["t"], red))
        for lab in ([2, 0], [1, 1]):
            add("nn.NLLLoss", {"shape": (2, 3), "labels": lab, "reduction": red}, [("p", (2, 3), ANY)], lambda T, red=red, lab=lab: nn.NLLLoss(reduction=red)(T["p"], _labels(lab)),
                lambda A, red=red, lab=lab: loss_ref("nll", A["p"], None, red, lab))
            add("nn.CrossEntropyLoss", {"shape": (2, 3), "labels": lab, "reduction": red}, [("p", (2, 3), ANY)],
                lambda T, red=red, lab=lab: nn.CrossEntropyLoss(reduction=red)(T["p"], _labels(lab)), lambda A, red=red, lab=lab: loss_ref("ce", A["p"], None, red, lab))
    add("nn.functional.mse_loss", {"shapes": [(2, 2), (2,)], "note": "shape mismatch must raise"}, [("p", (2, 2), ANY), ("t", (2,), ANY)], lambda T: NF.mse_loss(T["p"], T["t"]),
        lambda A: (_ for _ in ()).throw(Reject("shapes differ")))
    # ---- linear
    for (N, I, O) in [(2, 3, 2), (1, 2, 3)]:
        add("nn.functional.linear", {"N": N, "in": I, "out": O, "bias": True}, [("x", (N, I), ANY), ("w", (O, I), ANY), ("b", (O,), ANY)], lambda T: NF.linear(T["x"], T["w"], T["b"]),
            lambda A: R.binary(R.matmul(A["x"], R.transpose(A["w"], 0, 1)), A["b"], lambda p, q: p + q))
        add("nn.functional.linear", {"N": N, "in": I, "out": O, "bias": False}, [("x", (N, I), ANY), ("w", (O, I), ANY)], lambda T: NF.linear(T["x"], T["w"]),
            lambda A: R.matmul(A["x"], R.transpose(A["w"], 0, 1)))
    add("nn.functional.linear", {"N": 2, "in": 3, "out": 2, "note": "feature mismatch must raise"}, [("x", (2, 3), ANY), ("w", (2, 2), ANY)], lambda T: NF.linear(T["x"], T["w"]),
        lambda A: R.matmul(A["x"], R.transpose(A["w"], 0, 1)))
    # ---- conv1d: every geometry (incl. those without a window -> must raise)
    Ls = [3, 4, 5, 6] if tier == "quick" else [3, 4, 5, 6, 7]
    g1 = [g for g in itertools.product(Ls, [1, 2, 3], [1, 2, 3], [0, 1, 2], [1, 2]) if g[3] <= g[4] * (g[1] - 1) or g[3] == 0]
    for gi, (L, k, s, p, d) in enumerate(g1):
        if gi % (1 if tier == "thorough" else 2) != 0 and out_len(L, k, s, p, d) >= 1:
            continue
        bias = gi % 3 != 0
        shp = (2, 2, 2) if gi % 8 == 0 else (1, 1, 1)
        N, Ci, Co = shp
        leaves = [("x", (N, Ci, L), ANY), ("w", (Co, Ci, k), ANY)] + ([("b", (Co,), ANY)] if bias else [])
        add("nn.functional.conv1d", {"N": N, "C_in": Ci, "C_out": Co, "L": L, "kernel": k, "stride": s, "padding": p, "dilation": d, "bias": bias, "windows": out_len(L, k, s, p, d)},
            leaves, lambda T, s=s, p=p, d=d, bias=bias: NF.conv1d(T["x"], T["w"], T["b"] if bias else None, s, p, d),
            lambda A, s=s, p=p, d=d, bias=bias: R.conv(A["x"], A["w"], A["b"] if bias else None, s, p, d, 1))
    add("nn.functional.conv1d", {"note": "channel mismatch must raise"}, [("x", (1, 2, 4), ANY), ("w", (1, 3, 2), ANY)], lambda T: NF.conv1d(T["x"], T["w"]),
        lambda A: R.conv(A["x"], A["w"], None, 1, 0, 1, 1))
    # a channel count of 1 on either side must not be broadcast against the other side's channels (contractions written with einsum / broadcasting products accept it silently)
    for cx, cw in ((3, 1), (1, 3), (1, 2), (2, 1)):
        add("nn.functional.conv1d", {"note": "channel mismatch must raise", "C_x": cx, "C_w": cw}, [("x", (1, cx, 4), ANY), ("w", (2, cw, 2), ANY)], lambda T: NF.conv1d(T["x"], T["w"]),
            lambda A: R.conv(A["x"], A["w"], None, 1, 0, 1, 1))
        add("nn.functional.conv2d", {"note": "channel mismatch must raise", "C_x": cx, "C_w": cw}, [("x", (1, cx, 3, 3), ANY), ("w", (2, cw, 2, 2), ANY)], lambda T: NF.conv2d(T["x"], T["w"]),
            lambda A: R.conv(A["x"], A["w"], None, (1, 1), (0, 0), (1, 1), 2))
    add("nn.functional.conv1d", {"note": "wrong input rank must raise"}, [("x", (2, 4), ANY), ("w", (1, 2, 2), ANY)], lambda T: NF.conv1d(T["x"], T["w"]),
        lambda A: R.conv(A["x"], A["w"], None, 1, 0, 1, 1))
    # ---- conv2d / pools / unfold / fold on the covering product of per-axis geometries, int and tuple arguments
    Rg = REP_1D + [(3, 3, 2, 0, 2), (2, 3, 1, 0, 1)]       # the last two have no window
    pairs = []
    for i, a in enumerate(Rg):
        js = range(len(Rg)) if tier == "thorough" else sorted({i, (i + 1) % len(Rg), (i + 6) % len(Rg)})
        pairs += [(a, Rg[j]) for j in js]
    for pi, ((H, kh, sh, ph, dh), (W, kw, sw, pw, dw)) in enumerate(pairs):
        N, Ci, Co = (2, 2, 2) if pi % 9 == 0 and H * W <= 16 else (1, 1, 1)
        bias = pi % 2 == 0
        leaves = [("x", (N, Ci, H, W), ANY), ("w", (Co, Ci, kh, kw), ANY)] + ([("b", (Co,), ANY)] if bias else [])
        key = {"HW": (H, W), "kernel": (kh, kw), "stride": (sh, sw), "padding": (ph, pw), "dilation": (dh, dw)}
        add("nn.functional.conv2d", {"N": N, "C_in": Ci, "C_out": Co, "bias": bias, **key}, leaves,
            lambda T, s=(sh, sw), p=(ph, pw), d=(dh, dw), bias=bias: NF.conv2d(T["x"], T["w"], T["b"] if bias else None, s, p, d),
            lambda A, s=(sh, sw), p=(ph, pw), d=(dh, dw), bias=bias: R.conv(A["x"], A["w"], A["b"] if bias else None, s, p, d, 2))
        add("nn.functional.unfold", {"shape": (N, Ci, H, W), **key}, [("x", (N, Ci, H, W), ANY)], lambda T, k=(kh, kw), d=(dh, dw), s=(sh, sw), p=(ph, pw): NF.unfold(T["x"], k, d, s, p),
            lambda A, k=(kh, kw), d=(dh, dw), s=(sh, sw), p=(ph, pw): R.unfold(A["x"], k, d, s, p))
        lH, lW = out_len(H, kh, sh, ph, dh), out_len(W, kw, sw, pw, dw)
        if lH >= 1 and lW >= 1:
            add("nn.functional.fold", {"output": (H, W), **key}, [("y", (N, Ci * kh * kw, lH * lW), ANY)],
                lambda T, o=(H, W), k=(kh, kw), d=(dh, dw), s=(sh, sw), p=(ph, pw): NF.fold(T["y"], o, k, d, s, p),
                lambda A, o=(H, W), k=(kh, kw), d=(dh, dw), s=(sh, sw), p=(ph, pw): R.fold(A["y"], o, k, d, s, p))
        if ph <= kh // 2 and pw <= kw // 2 and (lH < 1 or lW < 1 or (2 ** (kh * kw - 1)) ** (lH * lW) <= 1500):
            for kind, fn in (("max", NF.max_pool2d), ("avg", NF.avg_pool2d)):
                add("nn.functional.%s_pool2d" % kind, {"shape": (1, 1, H, W), **key}, [("x", (1, 1, H, W), ANY)],
                    lambda T, fn=fn, k=(kh, kw), s=(sh, sw), p=(ph, pw), d=(dh, dw): fn(T["x"], k, s, p, d),
                    lambda A, kind=kind, k=(kh, kw), s=(sh, sw), p=(ph, pw), d=(dh, dw): R.pool(A["x"], k, s, p, d, 2, kind), max_paths=3000)
    # operands that are non-contiguous views of their storage
    import synapgrad.functional as F_
    for (H, W, k, s_, p_, d_) in [(3, 4, (2, 2), (1, 1), (0, 0), (1, 1)), (4, 3, (2, 3), (2, 1), (1, 1), (1, 1)), (5, 3, (2, 2), (1, 2), (0, 1), (2, 1))]:
        add("nn.functional.conv2d", {"HW": (H, W), "kernel": k, "stride": s_, "padding": p_, "dilation": d_, "input_layout": "transposed view"},
            [("xt", (2, 2, W, H), ANY), ("w", (2, 2) + k, ANY)], lambda T, s_=s_, p_=p_, d_=d_: NF.conv2d(F_.transpose(T["xt"], 2, 3), T["w"], None, s_, p_, d_),
            lambda A, s_=s_, p_=p_, d_=d_: R.conv(R.transpose(A["xt"], 2, 3), A["w"], None, s_, p_, d_, 2))
        add("nn.functional.unfold", {"HW": (H, W), "kernel": k, "stride": s_, "padding": p_, "dilation": d_, "input_layout": "transposed view"}, [("xt", (1, 2, W, H), ANY)],
            lambda T, k=k, s_=s_, p_=p_, d_=d_: NF.unfold(F_.transpose(T["xt"], 2, 3), k, d_, s_, p_), lambda A, k=k, s_=s_, p_=p_, d_=d_: R.unfold(R.transpose(A["xt"], 2, 3), k, d_, s_, p_))
        add("nn.functional.avg_pool2d", {"HW": (H, W), "kernel": k, "stride": s_, "padding": (0, 0), "input_layout": "transposed view"}, [("xt", (1, 2, W, H), ANY)],
            lambda T, k=k, s_=s_: NF.avg_pool2d(F_.transpose(T["xt"], 2, 3), k, s_, 0, 1), lambda A, k=k, s_=s_: R.pool(R.transpose(A["xt"], 2, 3), k, s_, 0, 1, 2, "avg"))
    # a fully reversed axis order (x.T of a (W,H,C,N) buffer) is Fortran-contiguous: np.pad keeps that order
    rev = lambda t: F_.movedim(t, (0, 1, 2, 3), (3, 2, 1, 0))
    rrev = lambda a: R.movedim(a, (0, 1, 2, 3), (3, 2, 1, 0))
    add("nn.functional.conv2d", {"HW": (3, 4), "kernel": (2, 2), "input_layout": "Fortran-contiguous (reversed axes)"}, [("xt", (4, 3, 2, 2), ANY), ("w", (1, 2, 2, 2), ANY)],
        lambda T: NF.conv2d(rev(T["xt"]), T["w"], None, 1, (0, 1), 1), lambda A: R.conv(rrev(A["xt"]), A["w"], None, 1, (0, 1), 1, 2))
    add("nn.functional.unfold", {"HW": (3, 3), "kernel": (2, 2), "input_layout": "Fortran-contiguous (reversed axes)"}, [("xt", (3, 3, 2, 2), ANY)],
        lambda T: NF.unfold(rev(T["xt"]), (2, 2), 1, 1, 1), lambda A: R.unfold(rrev(A["xt"]), (2, 2), 1, 1, 1))
    add("nn.functional.avg_pool2d", {"HW": (4, 4), "kernel": (2, 2), "input_layout": "Fortran-contiguous (reversed axes)"}, [("xt", (4, 4, 1, 2), ANY)],
        lambda T: NF.avg_pool2d(rev(T["xt"]), 2), lambda A: R.pool(rrev(A["xt"]), 2, None, 0, 1, 2, "avg"))
    add("nn.functional.max_pool1d", {"L": 5, "kernel": 2, "input_layout": "Fortran-contiguous (reversed axes)"}, [("xt", (5, 1, 1), ANY)],
        lambda T: NF.max_pool1d(F_.movedim(T["xt"], (0, 1, 2), (2, 1, 0)), 2, 1), lambda A: R.pool(R.movedim(A["xt"], (0, 1, 2), (2, 1, 0)), 2, 1, 0, 1, 1, "max"), max_paths=3000)
    # a trailing axis of extent 1 that carries a NON-canonical stride (NumPy calls such an array C-contiguous whatever that stride is): the transposed view of a row
    for N_, C_, H_ in [(1, 2, 3), (2, 1, 4)]:
        tv = lambda t: F_.transpose(t, 2, 3)
        add("nn.functional.conv2d", {"HW": (H_, 1), "kernel": (2, 1), "padding": 0, "input_layout": "extent-1 last axis with a foreign stride"}, [("xt", (N_, C_, 1, H_), ANY), ("w", (2, C_, 2, 1), ANY)],
            lambda T: NF.conv2d(tv(T["xt"]), T["w"], None, 1, 0, 1), lambda A: R.conv(R.transpose(A["xt"], 2, 3), A["w"], None, 1, 0, 1, 2))
        add("nn.functional.unfold", {"HW": (H_, 1), "kernel": (2, 1), "padding": 0, "input_layout": "extent-1 last axis with a foreign stride"}, [("xt", (N_, C_, 1, H_), ANY)],
            lambda T: NF.unfold(tv(T["xt"]), (2, 1), 1, 1, 0), lambda A: R.unfold(R.transpose(A["xt"], 2, 3), (2, 1), 1, 1, 0))
        for kind in ("max", "avg"):
            add("nn.functional.%s_pool2d" % kind, {"HW": (H_, 1), "kernel": (2, 1), "padding": 0, "input_layout": "extent-1 last axis with a foreign stride"}, [("xt", (N_, C_, 1, H_), ANY)],
                lambda T, kind=kind: getattr(NF, kind + "_pool2d")(tv(T["xt"]), (2, 1), (1, 1), 0, 1), lambda A, kind=kind: R.pool(R.transpose(A["xt"], 2, 3), (2, 1), (1, 1), 0, 1, 2, kind), max_paths=3000)
        add("nn.functional.conv1d", {"L": 1, "kernel": 1, "padding": 0, "input_layout": "extent-1 last axis with a foreign stride"}, [("xt", (N_, 1, C_), ANY), ("w", (2, C_, 1), ANY)],
            lambda T: NF.conv1d(F_.transpose(T["xt"], 1, 2), T["w"], None, 1, 0, 1), lambda A: R.conv(R.transpose(A["xt"], 1, 2), A["w"], None, 1, 0, 1, 1))
    # int arguments / defaults
    add("nn.functional.conv2d", {"int_args": True, "stride": 2, "padding": 1}, [("x", (1, 1, 4, 3), ANY), ("w", (1, 1, 2, 2), ANY)], lambda T: NF.conv2d(T["x"], T["w"], None, 2, 1),
        lambda A: R.conv(A["x"], A["w"], None, 2, 1, 1, 2))
    add("nn.functional.unfold", {"int_args": True, "kernel": 2}, [("x", (1, 2, 3, 3), ANY)], lambda T: NF.unfold(T["x"], 2), lambda A: R.unfold(A["x"], 2))
    add("nn.functional.unfold", {"int_args": True, "kernel": 2, "stride": 2, "padding": 1, "pad_value": 0}, [("x", (1, 1, 3, 4), ANY)], lambda T: NF.unfold(T["x"], 2, 1, 2, 1),
        lambda A: R.unfold(A["x"], 2, 1, 2, 1))
    add("nn.functional.fold", {"int_args": True, "kernel": 2}, [("y", (1, 4, 4), ANY)], lambda T: NF.fold(T["y"], (3, 3), 2), lambda A: R.fold(A["y"], (3, 3), 2))
    add("nn.functional.unfold", {"note": "wrong rank must raise"}, [("x", (2, 3, 3), ANY)], lambda T: NF.unfold(T["x"], 2), lambda A: R.unfold(A["x"], 2))
    for kind, fn1, fn2 in (("max", NF.max_pool1d, NF.max_pool2d), ("avg", NF.avg_pool1d, NF.avg_pool2d)):
        for (L, k, s, p, d) in geoms_1d([3, 4, 5, 6], [1, 2, 3], [1, 2, 3], [0, 1], [1, 2], pool=True)[:: (1 if tier == "thorough" else 2)] + [(2, 3, 1, 0, 1), (3, 2, 1, 0, 3)]:
            add("nn.functional.%s_pool1d" % kind, {"shape": (1, 1, L), "kernel": k, "stride": s, "padding": p, "dilation": d}, [("x", (1, 1, L), ANY)],
                lambda T, fn1=fn1, k=k, s=s, p=p, d=d: fn1(T["x"], k, s, p, d), lambda A, kind=kind, k=k, s=s, p=p, d=d: R.pool(A["x"], k, s, p, d, 1, kind), max_paths=3000)
        add("nn.functional.%s_pool1d" % kind, {"shape": (1, 1, 5), "kernel": 2, "stride": "default"}, [("x", (1, 1, 5), ANY)], lambda T, fn1=fn1: fn1(T["x"], 2),
            lambda A, kind=kind: R.pool(A["x"], 2, None, 0, 1, 1, kind))
        add("nn.functional.%s_pool2d" % kind, {"shape": (1, 1, 2, 4), "kernel": 2, "stride": "default", "int_args": True}, [("x", (1, 1, 2, 4), ANY)], lambda T, fn2=fn2: fn2(T["x"], 2),
            lambda A, kind=kind: R.pool(A["x"], 2, None, 0, 1, 2, kind), max_paths=3000)
        add("nn.functional.%s_pool2d" % kind, {"note": "wrong rank must raise"}, [("x", (1, 4, 4), ANY)], lambda T, fn2=fn2: fn2(T["x"], 2), lambda A, kind=kind: R.pool(A["x"], 2, None, 0, 1, 2, kind))
    # ---- layers: argument normalisation
    def conv_layer(T, cls, args, kw):
        L = cls(*args, **kw)
        L.weight = Parameter(T["w"])
        if kw.get("bias", True):
            L.bias = Parameter(T["b"])
        return L(T["x"])
    for kw, k, s, p, d in (({}, 3, 1, 0, 1), ({"stride": 2, "padding": 1}, 3, 2, 1, 1), ({"padding": "same"}, 3, 1, 1, 1), ({"padding": "valid", "dilation": 2}, 2, 1, 0, 2),
                           ({"padding": "same", "bias": False}, 1, 1, 0, 1)):
        bias = kw.get("bias", True)
        add("nn.Conv1d", {"kernel": k, **kw}, [("x", (1, 2, 5), ANY), ("w", (2, 2, k), ANY)] + ([("b", (2,), ANY)] if bias else []),
            lambda T, kw=kw, k=k: conv_layer(T, nn.Conv1d, (2, 2, k), kw), lambda A, s=s, p=p, d=d, bias=bias: R.conv(A["x"], A["w"], A["b"] if bias else None, s, p, d, 1))
    for kw, ks, s, p, d in (({}, 2, 1, 0, 1), ({"stride": (2, 1), "padding": (1, 0), "bias": False}, (2, 3), (2, 1), (1, 0), 1), ({"padding": "same"}, 3, 1, 1, 1),
                            ({"dilation": (1, 2), "padding": 1}, 2, 1, 1, (1, 2)), ({"stride": 2}, (1, 2), 2, 0, 1)):
        bias = kw.get("bias", True)
        kk = (ks, ks) if isinstance(ks, int) else ks
        add("nn.Conv2d", {"kernel": ks, **kw}, [("x", (1, 1, 4, 5), ANY), ("w", (2, 1) + kk, ANY)] + ([("b", (2,), ANY)] if bias else []),
            lambda T, kw=kw, ks=ks: conv_layer(T, nn.Conv2d, (1, 2, ks), kw), lambda A, s=s, p=p, d=d, bias=bias: R.conv(A["x"], A["w"], A["b"] if bias else None, s, p, d, 2))
    for cls, kind, nd, sh, args, geo in ((nn.MaxPool1d, "max", 1, (1, 1, 5), (2,), (2, None, 0, 1)), (nn.AvgPool1d, "avg", 1, (1, 2, 5), (3, 1, 1), (3, 1, 1, 1)),
                                         (nn.MaxPool2d, "max", 2, (1, 1, 3, 4), (2,), (2, None, 0, 1)), (nn.AvgPool2d, "avg", 2, (1, 1, 4, 3), ((2, 1), (1, 2), (1, 0)), ((2, 1), (1, 2), (1, 0), 1)),
                                         (nn.MaxPool2d, "max", 2, (1, 1, 4, 4), ((2, 2), None, 1, 1), ((2, 2), None, 1, 1))):
        add("nn." + cls.__name__, {"shape": sh, "args": args}, [("x", sh, ANY)], lambda T, cls=cls, args=args: cls(*args)(T["x"]),
            lambda A, kind=kind, nd=nd, geo=geo: R.pool(A["x"], geo[0], geo[1], geo[2], geo[3], nd, kind), max_paths=3000)
    add("nn.Unfold", {"kernel": 2, "stride": 1, "padding": 1}, [("x", (1, 1, 3, 4), ANY)], lambda T: nn.Unfold(2, stride=1, padding=1)(T["x"]), lambda A: R.unfold(A["x"], 2, 1, 1, 1))
    add("nn.Fold", {"output": (3, 3), "kernel": 2}, [("y", (1, 4, 4), ANY)], lambda T: nn.Fold((3, 3), 2)(T["y"]), lambda A: R.fold(A["y"], (3, 3), 2))
    add("nn.Flatten", {"start": 1, "end": -1}, [("x", (2, 3, 2), ANY)], lambda T: nn.Flatten()(T["x"]), lambda A: R.flatten(A["x"], 1, -1))

    def lin_layer(T, cls, bias):
        L = cls(3, bias=bias) if cls is nn.Neuron else cls(3, 2, bias=bias)
        L.weight = Parameter(T["w"])
        if bias:
            L.bias = Parameter(T["b"])
        return L(T["x"])
    for cls, O in ((nn.Linear, 2), (nn.Neuron, 1)):
        add("nn." + cls.__name__, {"bias": True}, [("x", (2, 3), ANY), ("w", (O, 3), ANY), ("b", (O,), ANY)], lambda T, cls=cls: lin_layer(T, cls, True),
            lambda A: R.binary(R.matmul(A["x"], R.transpose(A["w"], 0, 1)), A["b"], lambda p, q: p + q))
    # ---- batch norm: every mode, values and running-statistics update
    for shape in [(3, 2), (2, 2, 2)] + ([(2, 1, 2, 2)] if tier == "thorough" else []):
        C = shape[1]
        for training, affine, running in itertools.product([True, False], repeat=3):
            leaves = [("x", shape, ANY)] + ([("gamma", (C,), ANY), ("beta", (C,), ANY)] if affine else []) + ([("rm", (C,), ANY), ("rv", (C,), "pos")] if running else [])

            def call(T, training=training, affine=affine, running=running):
                out = NF.batch_norm(T["x"], T["gamma"] if affine else None, T["beta"] if affine else None, T["rm"] if running else None, T["rv"] if running else None,
                                    training, 0.25, 0.5)
                return [out] + ([T["rm"], T["rv"]] if running else [])

            def ref(A, training=training, affine=affine, running=running):
                y, nrm, nrv = R.batch_norm(A["x"], A["gamma"] if affine else None, A["beta"] if affine else None, A["rm"] if running else None, A["rv"] if running else None,
                                           training, 0.25, 0.5, _sqrt)
                return [y] + ([nrm, nrv] if running else [])
            add("nn.functional.batch_norm", {"shape": shape, "training": training, "affine": affine, "running_stats": running, "momentum": 0.25, "eps": 0.5}, leaves, call, ref)
    return cs


# --------------------------------------------------------------------------------------------------- pyvc: layer constructors
def pyvc_targets():
    from .c16 import size_targets
    return size_targets()


def native_layer_args(run):
    """int-or-tuple / 'same' / 'valid' / default-stride normalisation of the layer constructors (native, exhaustive over a small grid)"""
    import synapgrad.nn as nn
    for k, s, p, d in itertools.product([1, 2, 3, (2, 3)], [1, 2, (2, 1)], [0, 1, (1, 0), "same", "valid"], [1, 2, (1, 2)]):
        run.rt(("Conv2d-args", str((k, s, p, d))))
        kk = (k, k) if isinstance(k, int) else k
        ss = (s, s) if isinstance(s, int) else s
        dd = (d, d) if isinstance(d, int) else d
        try:
            L = nn.Conv2d(1, 1, k, stride=s, padding=p, dilation=d)
        except ValueError:
            if p == "same" and ss != (1, 1):
                continue
            run.violation("nn.Conv2d.__init__.accepts_documented_arguments", "Conv2d(kernel=%s, stride=%s, padding=%s, dilation=%s) raised ValueError" % (k, s, p, d),
                          key={"layer": "Conv2d", "padding": str(p)}, replay={})
            continue
        exp_p = (kk[0] // 2, kk[0] // 2) if p == "same" else ((0, 0) if p == "valid" else ((p, p) if isinstance(p, int) else p))
        got = (tuple(int(v) for v in L.kernel_size), tuple(int(v) for v in L.stride), tuple(int(v) for v in L.padding), tuple(int(v) for v in L.dilation))
        if p == "same" and kk[0] != kk[1]:
            continue            # 'same' with a non-square kernel is not defined by the documentation
        if got != (tuple(kk), tuple(ss), tuple(exp_p), tuple(dd)):
            run.violation("nn.Conv2d.__init__.normalises_geometry_arguments", "Conv2d(kernel=%s, stride=%s, padding=%s, dilation=%s) stored %s" % (k, s, p, d, got),
                          key={"layer": "Conv2d", "padding": str(p)}, replay={"stored": got})
    for cls in (nn.MaxPool1d, nn.AvgPool1d, nn.MaxPool2d, nn.AvgPool2d):
        run.rt(("pool-default-stride", cls.__name__))
        L = cls(3)
        st = L.stride
        ok = (tuple(np.atleast_1d(st)) in ((3,), (3, 3)))
        if not ok:
            run.violation("nn.%s.__init__.default_stride_is_kernel" % cls.__name__, "default stride is %s for kernel 3" % (st,), key={"layer": cls.__name__}, replay={})


def float_part(run, seed):
    """bounded, native ("any operand values", "to rounding"): batch statistics on operands whose mean is far from zero relative to their spread. The proof
    over the reals cannot tell a two-pass variance from E[x^2]-E[x]^2; in floats the latter cancels catastrophically. Reference: longdouble two-pass on the
    exact operand values; tolerance 64 ulp of the operand dtype scaled by the conditioning |mean|/std of the normalisation itself."""
    import synapgrad.nn as nn
    import synapgrad.nn.functional as NF
    from synapgrad.tensor import Tensor
    rng = np.random.RandomState(seed + 11)
    for dt, offsets in ((np.float32, (0.0, 30.0, 300.0)), (np.float64, (0.0, 1e4, 1e6))):
        eps_dt = float(np.finfo(dt).eps)
        for shape in [(8, 3), (4, 2, 5), (3, 2, 2, 3)]:
            for off in offsets:
                for mode in ("train", "eval-untracked", "functional-train"):
                    x = (rng.randn(*shape) + off * (1 + np.arange(shape[1]).reshape([1, -1] + [1] * (len(shape) - 2)))).astype(dt)
                    key = {"op": "batch_norm", "mode": mode, "shape": list(shape), "dtype": np.dtype(dt).name, "mean_offset": off}
                    run.rt(("bn-float", mode, shape, np.dtype(dt).name, off))
                    try:
                        with np.errstate(all="ignore"):
                            if mode == "functional-train":
                                y = NF.batch_norm(Tensor(x), None, None, None, None, True, 0.1, 1e-5).data
                            else:
                                cls = nn.BatchNorm1d if len(shape) <= 3 else nn.BatchNorm2d
                                L = cls(shape[1], affine=False, track_running_stats=(mode == "train"), dtype=dt)
                                if mode != "train":
                                    L.eval()
                                y = L(Tensor(x)).data
                    except Exception as e:
                        run.violation("nn.functional.batch_norm.float_forward_completes", "%s: %s" % (type(e).__name__, e), key=key, replay=key)
                        continue
                    xl = x.astype(np.longdouble)
                    ax = tuple(i for i in range(len(shape)) if i != 1)
                    m = xl.mean(axis=ax, keepdims=True)
                    v = ((xl - m) ** 2).mean(axis=ax, keepdims=True)
                    want = ((xl - m) / np.sqrt(v + np.longdouble(1e-5))).astype(np.float64)
                    cond = float(np.max(np.abs(m) / np.sqrt(v))) + 1.0
                    tol = 64 * eps_dt * cond
                    err = float(np.max(np.abs(np.asarray(y, dtype=np.float64) - want))) if np.all(np.isfinite(y)) else float("inf")
                    if mode == "train" and np.all(np.isfinite(y)):
                        # the running variance absorbs the batch variance (unbiased): same conditioning argument, relative to the variance itself
                        nred = x.size // shape[1]
                        want_rv = 0.9 * 1.0 + 0.1 * (v.reshape(-1) * nred / (nred - 1)).astype(np.float64)
                        rv_err = float(np.max(np.abs(np.asarray(L.running_var.data, dtype=np.float64) - want_rv) / want_rv))
                        if not rv_err <= 64 * eps_dt * cond * cond:
                            run.violation("nn.functional.batch_norm.float_running_var_to_rounding", "%s operands with per-channel mean %g and unit spread: running_var is off by a relative %.3g "
                                          "(tolerance %.3g)" % (np.dtype(dt).name, off, rv_err, 64 * eps_dt * cond * cond), key=key, replay={**key, "x": x.tolist(), "running_var": np.asarray(L.running_var.data).tolist(),
                                                                                                                                            "expected": want_rv.tolist()})
                    if y.dtype != dt or not err <= tol:
                        run.violation("nn.functional.batch_norm.float_forward_to_rounding", "%s operands with per-channel mean %g and unit spread: max error %.3g against the two-pass "
                                      "reference (tolerance %.3g = 64 ulp x conditioning), result dtype %s" % (np.dtype(dt).name, off, err, tol, y.dtype), key=key,
                                      replay={**key, "x": x.tolist(), "max_abs_error": err, "tolerance": tol})


def main(tier="quick", seed=0, procs=None, only=None):
    from ..pyvc.harness import TargetCase
    run = Run("C06", tier, seed, "proof")
    run.assume("reals", "numpy", "shims", "atoms", "engines", "bounded-shapes", "pyvc-encoding")
    run.assume("softmax / log_softmax / cross-entropy are compared with the unshifted mathematical definition using the product rule exp(s)exp(t)=exp(s+t) instantiated on the atoms at hand; "
               "log-based losses at cpu_ops.epsilon := 0")
    run.bounds = {"geometry": "conv1d: every (L<=6,k<=3,s<=3,p<=2,d<=2) incl. geometries without a window (must raise); 2-d: 14 per-axis geometries in a covering product for conv2d, unfold, fold, "
                              "max/avg pooling; int and tuple arguments; softmax/log_softmax every dim incl. out of range on ranks 1-3; every loss x every reduction; batch-norm 8 modes x 2-3 shapes",
                  "pyvc": "output-size formulas and window bounds for all integers"}
    run.rule = "one case = one (op/layer/loss, sizes, geometry, mode); legality and value from vf/spec/refsem.py; each result element is one equality obligation"
    cs = cases(tier)
    if only:
        cs = [c for c in cs if only in c.name]
    cs = cs + [TargetCase(t) for t in pyvc_targets()]
    # "running statistics in eval, every batch-norm mode" over call histories: the layer histories of C13 (train/eval interleavings, cumulative and exponential
    # averaging) are part of the forward semantics too
    if not only or "BatchNorm" in only:
        from . import c13
        cs = cs + [c for c in c13.cases(tier, seed) if isinstance(c, c13.BNHistory) and c.affine and c.track]
    run_catalogue(run, cs, seed=seed, procs=procs)
    try:
        native_layer_args(run)
        float_part(run, seed)
        from . import c13 as _c13
        _c13.nested_part(run, tier, seed)        # "every batch-norm mode": also for layers nested two and three levels below the module whose train()/eval() is called
        from ..rtc import flagindep
        from ..catalog import nn_ops as _nn_ops
        flagindep.run_part(run, _nn_ops.all_cases("quick"))
    except Exception as e:
        run.error("native layer-argument / float part failed", e)
    return run.finish()
