"""C18 - dataset split, batching and one-hot encoding lose or misalign no sample.

pyvc (unbounded: all dataset lengths, fractions, batch sizes; z3 sequences with Python slice semantics):
   split_dataset.get_split_indices:  test ++ train_val == indices  and  val ++ train == train_val  (so every sample is in
       exactly one set, order preserved when shuffle is off), |test| == floor(test_split*n), |val| == floor(val_split*|train_val|),
       features and labels are gathered with the SAME index lists (syntactic obligation on split_dataset);
   DataLoader.__len__ == n // b;  __getitem__(idx) for 0 <= idx < len: the batch is X[idx*b : idx*b+b] / y[same], exactly b
       samples, consecutive batches tile a prefix; passed through the transform, or returned unchanged when there is none;
   __iter__ resets the cursor; __next__ yields batch `step` and advances, and stops after len items.
run time (bounded stand-in): all n <= 12, b <= 13, fractions on a grid incl. 0 and 1, shuffle on/off with seeds, with and
without transform; one_hot_encode for all label vectors of length <= 5 over <= 4 labels (ints, negative ints, strings).
"""
import ast
import os
import itertools
import sys
import types

import numpy as np
import z3

from ..report import Run
from ..pyvc.engine import Executor, State, Obj, Opaque, Returned, Raised, Unsupported, py_floor, py_int, py_floordiv, _real, to_z3, is_seq
from ..pyvc.harness import Target, TargetCase
from ..symreal.pool import run_catalogue

DATA = "synapgrad/nn/utils/data.py"
MOD = "synapgrad.nn.utils.data."
ISEQ = z3.SeqSort(z3.IntSort())


def stub_pkg_resources():
    if "pkg_resources" not in sys.modules:
        m = types.ModuleType("pkg_resources")

        class DistributionNotFound(Exception):
            pass

        def get_distribution(name):
            raise DistributionNotFound(name)
        m.DistributionNotFound = DistributionNotFound
        m.get_distribution = get_distribution
        sys.modules["pkg_resources"] = m


def split_executor():
    ex = Executor(havoc={"print"})
    ex.models["np.floor"] = lambda ex_, s, a, k: py_floor(a[0]) if z3.is_expr(a[0]) else float(np.floor(a[0]))

    def range_model(ex_, s, args, kw):
        if all(isinstance(a, int) for a in args):
            return range(*args)
        return ("symrange", args[0])

    def list_model(ex_, s, args, kw):
        v = args[0] if args else []
        if isinstance(v, tuple) and v and v[0] == "symrange":
            seq = z3.Const("indices", ISEQ)
            s.pc.append(z3.Length(seq) == v[1])
            s.glob["__indices0"] = seq
            return seq
        return list(v)

    def shuffle_model(ex_, s, args, kw):
        # external contract (assumed): np.random.shuffle permutes the list in place
        old = args[0]
        new = z3.Const("shuffled", ISEQ)
        s.pc.append(z3.Length(new) == z3.Length(old))
        for k, v in list(s.env.items()):
            if v is old:
                s.env[k] = new
        s.glob["__shuffled"] = new
        return None
    ex.models["range"] = range_model
    ex.models["list"] = list_model
    ex.models["np.random.shuffle"] = shuffle_model
    return ex


def split_targets():
    ts = []
    for with_val in (False, True):
        def setup(ex, with_val=with_val):
            s = State()
            n = z3.Int("n")
            tsp = z3.Real("test_split")
            s.pc += [n >= 0, tsp >= 0, tsp <= 1]
            vsp = None
            if with_val:
                vsp = z3.Real("val_split")
                s.pc += [vsp >= 0, vsp <= 1]
            shuffle = z3.Bool("shuffle")
            s.env["shuffle"] = shuffle            # closure variable of the enclosing split_dataset
            return s, [n, tsp, vsp], {"n": n, "ts": tsp, "vs": vsp, "shuffle": shuffle}

        def ens(ctx, s, out, with_val=with_val):
            if isinstance(out, Raised):
                return [("completes", False)]
            train, test, val = out.value
            I0 = s.glob.get("__indices0")
            I = s.glob.get("__shuffled", I0)
            n, tsp = ctx["n"], ctx["ts"]
            split = z3.Length(test)
            cl = [("test_size_is_floor_of_fraction", z3.And(_real(split) <= tsp * _real(n), tsp * _real(n) < _real(split) + 1)),
                  ("shuffle_only_when_requested", (I is I0) if "__shuffled" not in s.glob else ctx["shuffle"])]
            if not with_val:
                cl += [("test_then_train_is_all_indices_in_order", z3.Concat(test, train) == I), ("no_validation_set", val is None)]
            else:
                tv = z3.Length(train) + z3.Length(val)
                # test ++ val ++ train == indices, stated block-wise (with sizes_add_up the three blocks tile the whole sequence)
                lt, lv, ltr = z3.Length(test), z3.Length(val), z3.Length(train)
                cl += [("test_is_the_first_block_of_indices", test == z3.SubSeq(I, 0, lt)), ("val_is_the_next_block_of_indices", val == z3.SubSeq(I, lt, lv)),
                       ("train_is_the_last_block_of_indices", train == z3.SubSeq(I, lt + lv, ltr)),
                       ("val_size_is_floor_of_fraction_of_the_rest", z3.And(_real(z3.Length(val)) <= ctx["vs"] * _real(tv), ctx["vs"] * _real(tv) < _real(z3.Length(val)) + 1)),
                       ("sizes_add_up", z3.Length(test) + tv == n)]
            return cl
        ts.append(Target(MOD + "split_dataset.get_split_indices[%s validation]" % ("with" if with_val else "without"), DATA, "split_dataset.get_split_indices", setup, ens,
                         executor=split_executor, key={"validation": with_val}))
        ts[-1].timeout_ms = 2500          # z3's sequence solver either answers at once or not at all here; cvc5 takes the rest
    return ts


def pairing_obligation(run):
    """features and labels are gathered with the same index list in the same order (syntactic, on the AST of split_dataset): every gather `[D[i] for i in I]` -- written out,
    or through a helper of the same file whose body is such a comprehension over its parameters -- is collected; an index list must be used for the features AND for the
    labels.  A construction the rule does not recognise is not judged here (the run-time part checks the pairing on every split it executes)."""
    src = open(os.path.join(os.environ.get("VERIF_REPO", "/repo"), DATA)).read()
    tree = ast.parse(src)
    fn = [n for n in tree.body if isinstance(n, ast.FunctionDef) and n.name == "split_dataset"][0]
    xname, yname = fn.args.args[0].arg, fn.args.args[1].arg
    helpers = {n.name: n for n in list(tree.body) + list(ast.walk(fn)) if isinstance(n, ast.FunctionDef) and n is not fn}

    def gather_of(e, depth=0):
        """(source name, index-list name) if e builds [source[i] for i in index_list] (possibly wrapped in np.array(...) / list(...) or delegated to a helper), else None"""
        if isinstance(e, ast.Call) and e.args and isinstance(e.args[0], (ast.ListComp, ast.GeneratorExp)) and not isinstance(e.func, ast.Lambda):
            e = e.args[0]
        if isinstance(e, (ast.ListComp, ast.GeneratorExp)) and len(e.generators) == 1:
            g = e.generators[0]
            if isinstance(e.elt, ast.Subscript) and isinstance(e.elt.value, ast.Name) and isinstance(g.iter, ast.Name) and not g.ifs \
                    and isinstance(e.elt.slice, ast.Name) and isinstance(g.target, ast.Name) and e.elt.slice.id == g.target.id:
                return (e.elt.value.id, g.iter.id)
            return None
        if isinstance(e, ast.Call) and isinstance(e.func, ast.Name) and e.func.id in helpers and depth < 3 and not e.keywords:
            h = helpers[e.func.id]
            rets = [n for n in ast.walk(h) if isinstance(n, ast.Return)]
            if len(rets) == 1 and rets[0].value is not None:
                inner = gather_of(rets[0].value, depth + 1)
                ps = [a.arg for a in h.args.args]
                if inner and inner[0] in ps and inner[1] in ps and all(isinstance(a, ast.Name) for a in e.args) and len(e.args) >= max(ps.index(inner[0]), ps.index(inner[1])) + 1:
                    return (e.args[ps.index(inner[0])].id, e.args[ps.index(inner[1])].id)
        return None
    by_index = {}
    for node in ast.walk(fn):
        if isinstance(node, ast.Assign) and isinstance(node.targets[0], ast.Name):
            g = gather_of(node.value)
            if g and g[0] in (xname, yname):
                by_index.setdefault(g[1], []).append(g[0])
    run.extra["split_gathers_recognised"] = {k: v for k, v in by_index.items()}
    for idx, sources in sorted(by_index.items()):
        run.obligations += 1
        if sorted(sources) == sorted([xname, yname]):
            run.add_counts(discharged=1, backend="static-ast")
        else:
            run.violation(MOD + "split_dataset.features_and_labels_use_the_same_indices", "the index list %s is used to gather %s: features and labels of one split must both be gathered with it, once each" % (idx, sources),
                          key={"index_list": idx}, replay={"found": {idx: sources}, "verifier_output": "static AST obligation"}, reproduced=False)
    # the returned triples pair X_* with y_* of the same split
    ret = [n for n in ast.walk(fn) if isinstance(n, ast.Return)]
    run.under_contract(MOD + "split_dataset")


def loader_executor():
    ex = Executor(havoc={"print"})
    ex.class_models = {"DataLoader": {"mro": ["DataLoader"]}}
    ex.foreign_classes = {"Transform"}          # user-supplied: truthiness unconstrained
    return ex


def new_loader(s, transform):
    me = Obj("DataLoader")
    X = z3.Const("X", ISEQ)
    y = z3.Const("y", ISEQ)
    n = z3.Length(y)
    b = z3.Int("batch_size")
    s.pc += [z3.Length(X) == n, b >= 1]
    a = s.attrs(me)
    a["X"], a["y"], a["batach_size"], a["step"] = X, y, b, z3.Int("step0")
    s.pc.append(a["step"] >= 0)
    a["transform"] = transform
    return me, X, y, n, b


def loader_targets():
    ts = []

    def setup_len(ex):
        s = State()
        me, X, y, n, b = new_loader(s, None)
        return s, [me], {"n": n, "b": b}
    ts.append(Target(MOD + "DataLoader.__len__", DATA, "DataLoader.__len__", setup_len,
                     lambda c, s, out: [("len_is_floor_n_over_b", (not isinstance(out, Raised)) and out.value == py_floordiv(c["n"], c["b"]))], executor=loader_executor))
    for has_t in (False, True):
        def setup_get(ex, has_t=has_t):
            s = State()
            tr = Obj("Transform") if has_t else None
            me, X, y, n, b = new_loader(s, tr)
            idx = z3.Int("idx")
            s.pc += [idx >= 0, idx < py_floordiv(n, b)]
            if has_t:
                def call_t(ex_, st, args, kw):
                    st.glob["__transform_args"] = tuple(args[1:])
                    return Opaque("transformed")
                ex.models["Transform.__call__"] = call_t
                ex.call_orig = ex.call

                def call(f, args, kw, st, node=None):
                    if isinstance(f, Obj) and f.cls == "Transform":
                        return [(st, call_t(ex, st, [f] + list(args), kw))]
                    return ex.call_orig(f, args, kw, st, node)
                ex.call = call
            return s, [me, idx], {"me": me, "X": X, "y": y, "n": n, "b": b, "idx": idx}

        def ens_get(ctx, s, out, has_t=has_t):
            if isinstance(out, Raised):
                return [("completes_for_every_index_below_len", False)]
            X, y, b, idx = ctx["X"], ctx["y"], ctx["b"], ctx["idx"]
            if has_t:
                ta = s.glob.get("__transform_args")
                if ta is None or len(ta) != 3 or ta[0] is not ctx["me"]:
                    return [("batch_passed_through_the_transform", False)]
                xb, yb = ta[1], ta[2]
                cl = [("returns_what_the_transform_returns", isinstance(out.value, Opaque))]
            else:
                v = out.value
                if not isinstance(v, tuple) or len(v) != 2:
                    return [("returns_the_batch_unchanged", False)]
                xb, yb = v
                cl = []
            cl += [("random_access_leaves_the_iteration_cursor_alone", s.attrs(ctx["me"])["step"] == z3.Int("step0")),
                   ("features_are_the_idx_th_block", xb == z3.SubSeq(X, idx * b, b)), ("labels_are_the_same_block", yb == z3.SubSeq(y, idx * b, b)),
                   ("batch_has_exactly_batch_size_samples", z3.And(z3.Length(xb) == b, z3.Length(yb) == b)),
                   ("block_lies_inside_the_data", idx * b + b <= ctx["n"])]
            return cl
        ts.append(Target(MOD + "DataLoader.__getitem__[%s transform]" % ("with" if has_t else "without"), DATA, "DataLoader.__getitem__", setup_get, ens_get,
                         executor=loader_executor, key={"transform": has_t}))

    def setup_iter(ex):
        s = State()
        me, X, y, n, b = new_loader(s, None)
        return s, [me], {"me": me}
    ts.append(Target(MOD + "DataLoader.__iter__", DATA, "DataLoader.__iter__", setup_iter,
                     lambda c, s, out: [("resets_cursor", s.attrs(c["me"])["step"] == 0 if not isinstance(s.attrs(c["me"])["step"], int) else s.attrs(c["me"])["step"] == 0),
                                        ("returns_itself", (not isinstance(out, Raised)) and out.value is c["me"])], executor=loader_executor))

    def setup_next(ex):
        s = State()
        me, X, y, n, b = new_loader(s, None)
        step0 = s.attrs(me)["step"]
        ex.models["DataLoader.__len__"] = lambda ex_, st, a, k: py_floordiv(n, b)                   # callee contracts (each proved above)

        def getitem(ex_, st, a, k):
            st.glob["__got"] = a[1]
            return Opaque("batch")
        ex.models["DataLoader.__getitem__"] = getitem
        return s, [me], {"me": me, "n": n, "b": b, "step0": step0}

    def ens_next(ctx, s, out):
        ln = py_floordiv(ctx["n"], ctx["b"])
        st0 = ctx["step0"]
        st1 = s.attrs(ctx["me"])["step"]
        if isinstance(out, Raised):
            return [("stops_only_after_len_items", z3.And(st0 >= ln, out.exc == "StopIteration")), ("cursor_unchanged_when_exhausted", st1 == st0)]
        return [("yields_only_below_len", st0 < ln), ("yields_batch_number_step", to_z3(s.glob.get("__got")) == st0), ("advances_cursor_by_one", st1 == st0 + 1)]
    ts.append(Target(MOD + "DataLoader.__next__", DATA, "DataLoader.__next__", setup_next, ens_next, executor=loader_executor))
    return ts


# ----------------------------------------------------------------------------------------------------------- run time
def runtime_part(run, tier, seed):
    stub_pkg_resources()
    import importlib
    data = importlib.import_module("synapgrad.nn.utils.data")
    fr = [0.0, 0.1, 0.2, 0.25, 1 / 3, 0.5, 0.75, 0.9, 1.0]
    nmax = 12 if tier == "quick" else 16
    for n in range(0, nmax + 1):
        X = np.arange(n * 2, dtype=np.float32).reshape(n, 2) + 100
        y = np.arange(n, dtype=np.float32)
        for tsf in fr:
            for vsf in [None] + (fr if n <= 8 or tier == "thorough" else [0.0, 0.25, 0.5, 1.0]):
                for shuffle in (False, True):
                    np.random.seed(seed + n)
                    run.rt(("split", n, round(tsf, 3), None if vsf is None else round(vsf, 3), shuffle))
                    key = {"n": n, "test_split": tsf, "val_split": vsf, "shuffle": shuffle}
                    try:
                        tr, te, va = data.split_dataset(X, y, tsf, vsf, shuffle)
                    except Exception as e:
                        run.violation(MOD + "split_dataset.completes", "split_dataset raised %s: %s" % (type(e).__name__, e), key={**key, "exception": type(e).__name__}, replay=key)
                        continue
                    split = int(np.floor(tsf * n))
                    rest = n - split
                    vsz = 0 if vsf is None else int(np.floor(vsf * rest))
                    sets = [("train", tr), ("test", te)] + ([("val", va)] if va is not None else [])
                    sizes = {nm: len(s_[0]) for nm, s_ in sets}
                    want = {"test": split, "train": rest - vsz, **({"val": vsz} if vsf is not None else {})}
                    if sizes != want or (vsf is None) != (va is None):
                        run.violation(MOD + "split_dataset.floor_rule_sizes", "sizes %s, floor rule gives %s" % (sizes, want), key=key, replay={"sizes": sizes, "want": want})
                        continue
                    allx = np.concatenate([np.asarray(s_[0]).reshape(-1, 2) for nm, s_ in sets]) if n else np.zeros((0, 2))
                    ally = np.concatenate([np.asarray(s_[1]).reshape(-1) for nm, s_ in sets]) if n else np.zeros((0,))
                    ok_pair = all(np.array_equal(np.asarray(s_[0]).reshape(-1, 2)[:, 0], 100 + 2 * np.asarray(s_[1]).reshape(-1)) for nm, s_ in sets)
                    ok_part = sorted(ally.tolist()) == list(range(n))
                    if not ok_pair:
                        run.violation(MOD + "split_dataset.features_and_labels_stay_paired", "a feature row is paired with the wrong label", key=key, replay={})
                    # vector-valued labels (one-hot rows, several targets per sample): each feature row still comes with ITS label row, whole
                    if n and vsf in (None, 0.25, 0.5):
                        y2 = np.stack([np.arange(n, dtype=np.float32), np.arange(n, dtype=np.float32) * 10 + 1, -np.arange(n, dtype=np.float32)], 1)
                        np.random.seed(seed + n)
                        try:
                            sets2 = [s_ for s_ in data.split_dataset(X, y2, tsf, vsf, shuffle) if s_ is not None]
                            ok2 = True
                            for xs, ys in sets2:
                                xs, ys = np.asarray(xs), np.asarray(ys)
                                idx = ((xs.reshape(-1, 2)[:, 0] - 100) / 2).astype(int) if len(xs) else np.zeros(0, dtype=int)
                                ok2 = ok2 and (ys.shape == (len(idx), 3) if len(idx) else True) and (len(idx) == 0 or np.array_equal(ys.reshape(-1, 3), y2[idx]))
                        except Exception as e:
                            ok2 = False
                        run.rt(("split-vector-labels", n, round(tsf, 3), None if vsf is None else round(vsf, 3), shuffle))
                        if not ok2:
                            run.violation(MOD + "split_dataset.features_and_labels_stay_paired", "with vector-valued labels of shape (n, 3) a feature row does not come with its own label row (shape or values)",
                                          key={**key, "labels": "vector-valued"}, replay=key)
                    if not ok_part:
                        run.violation(MOD + "split_dataset.every_sample_in_exactly_one_set", "labels over all sets: %s" % ally.tolist(), key=key, replay={})
                    if not shuffle:
                        order = np.concatenate([np.asarray(te[1]).reshape(-1)] + ([np.asarray(va[1]).reshape(-1)] if va is not None else []) + [np.asarray(tr[1]).reshape(-1)])
                        if order.tolist() != list(range(n)):
                            run.violation(MOD + "split_dataset.order_preserved_without_shuffle", "order %s" % order.tolist(), key=key, replay={})
    # floor rule on a fine grid: every fraction k/100 for every n <= 200 (products like 0.29 * 100 = 28.999999999999996 lie just below an integer: the rule floors the
    # double product, it does not round it first), fractions within 1e-9 of 0 and 1, and the same for the validation fraction of the remainder; sizes only
    grid = [k / 100 for k in range(101)] + [1e-9, 1 - 1e-9, 0.5 - 1e-12, 1 / 3, 2 / 3]
    # the end points and inner fractions in other numeric TYPES (the fraction 1 written as the int 1 is still "everything", not "one sample")
    grid += [0, 1, True, False, np.int64(1), np.int32(0), np.float32(0.25), np.float64(0.5), np.float16(0.5)]
    for n in range(0, 201 if tier == "quick" else 401):
        X = np.zeros((n, 1), dtype=np.float32)
        y = np.arange(n, dtype=np.float32)
        for tsf in grid:
            for vsf in ([None] if n not in (50, 100, 125, 200) else [None] + grid):
                if vsf is not None and not any(tsf is t_ or (type(tsf) is float and tsf == t_) for t_ in (0.0, 0.2, 0.29)):
                    continue
                run.rt(("split-size", n, repr(tsf), repr(vsf)))
                try:
                    tr, te, va = data.split_dataset(X, y, tsf, vsf, False)
                except Exception as e:
                    run.violation(MOD + "split_dataset.completes", "split_dataset raised %s: %s" % (type(e).__name__, e), key={"n": n, "test_split": repr(tsf), "val_split": repr(vsf)}, replay={"n": n, "test_split": repr(tsf), "val_split": repr(vsf)})
                    continue
                split = int(np.floor(tsf * n))
                vsz = 0 if vsf is None else int(np.floor(vsf * (n - split)))
                got = (len(te[0]), 0 if va is None else len(va[0]), len(tr[0]))
                if got != (split, vsz, n - split - vsz):
                    run.violation(MOD + "split_dataset.floor_rule_sizes", "n=%d test_split=%r val_split=%r: (test, val, train) sizes %s, the floor rule gives %s" % (n, tsf, vsf, got, (split, vsz, n - split - vsz)),
                                  key={"n": n, "test_split": repr(tsf), "val_split": repr(vsf)}, replay={"n": n, "test_split": repr(tsf), "val_split": repr(vsf), "sizes": got})
    for n in range(0, nmax + 1):
        X = np.arange(n * 2, dtype=np.float32).reshape(n, 2) + 100
        y = np.arange(n, dtype=np.float32)
        # DataLoader
        for b in range(1, nmax + 2):
            for with_t in (False, True, "an object that is falsy (__len__ == 0)", "an object that is falsy (__bool__)"):
                calls = []

                class T(data.DataLoaderCallback):
                    def __call__(self, dl, Xb, yb):
                        calls.append((Xb.copy(), yb.copy()))
                        return Xb * 2, yb + 1
                if isinstance(with_t, str):     # a transform is whatever callable object the caller passes, e.g. an (empty) pipeline of steps
                    T = type("T", (T,), {"__len__": lambda self: 0} if "__len__" in with_t else {"__bool__": lambda self: False})
                dl = data.DataLoader(X, y, b, T() if with_t else None)
                run.rt(("loader", n, b, with_t))
                key = {"n": n, "batch_size": b, "transform": with_t}
                try:
                    L = len(dl)
                    first = [bt for bt in dl]
                    second = [bt for bt in dl]
                    for _bt in dl:              # a loop left early: the loader is partially consumed ...
                        break
                    third = [bt for bt in dl]   # ... and the next iteration still starts from the first batch
                    # random access during a pass (looking a batch up by index between two steps of the loop) does not disturb the pass
                    for look in ("first", "last", "current"):
                        seen_ = []
                        for i_, bt in enumerate(itertools.islice(dl, 3 * L + 3)):
                            seen_.append(bt)
                            if L:
                                dl[{"first": 0, "last": L - 1, "current": min(i_, L - 1)}[look]]
                        if len(seen_) != L or any(not (np.array_equal(a_[0], b_[0]) and np.array_equal(a_[1], b_[1])) for a_, b_ in zip(seen_, first)):
                            third = third + [None]      # reported below as a wrong number of batches
                            break
                except Exception as e:
                    run.violation(MOD + "DataLoader.iteration_completes", "iteration raised %s: %s" % (type(e).__name__, e), key={**key, "exception": type(e).__name__}, replay=key)
                    continue
                ok = L == n // b and len(first) == L and len(second) == L and len(third) == L
                ok = ok and all(np.array_equal(t_[0], f_[0]) and np.array_equal(t_[1], f_[1]) for t_, f_ in zip(third, first))
                for i, (xb, yb) in enumerate(first):
                    ex_x, ex_y = X[i * b:(i + 1) * b], y[i * b:(i + 1) * b]
                    if with_t:
                        ex_x, ex_y = ex_x * 2, ex_y + 1
                    ok = ok and len(xb) == b and np.array_equal(xb, ex_x) and np.array_equal(yb, ex_y)
                    ok = ok and np.array_equal(second[i][0], xb) and np.array_equal(second[i][1], yb)
                if not ok:
                    run.violation(MOD + "DataLoader.yields_floor_n_over_b_aligned_batches_and_is_reiterable", "n=%d b=%d transform=%s: len=%s batches=%d" % (n, b, with_t, L, len(first)),
                                  key=key, replay=key)
    # one-hot
    labelsets = [[0, 1, 2, 3], [-2, 0, 5, 7], ["b", "a", "d", "c"], [1.5, 0.5, 2.5, 3.5]]
    todo = [(ls, length, vec, "list") for ls in labelsets for length in range(1, 6 if tier == "quick" else 7) for vec in itertools.product(ls[:3] if length > 3 else ls, repeat=length)]
    # every integer label vector over -3..3 (any mix of signs, gaps, label sets whose maximum happens to be K-1, ...), as a list and as an integer array
    ints = list(range(-3, 4))
    todo += [(ints, length, vec, form) for length in range(1, 5 if tier == "quick" else 6) for vec in itertools.product(ints, repeat=length) for form in ("list", "int array")]
    # distinct floating point labels are distinct labels however close they are (and equal ones are equal): neighbouring doubles, values that differ by 1e-9, large values
    # one apart, as a list and as a float array
    # float label sets whose smallest member is 0 and whose largest is K-1 without being the class ids 0..K-1 (a non-integral member in between), also as float32 arrays
    for fl in ([0.0, 0.5, 2.0], [0.0, 1.5, 2.0], [0.0, 0.25, 0.5, 3.0], [0.0, 0.999, 1.0], [0.0, 2.0, 1.0000001]):
        todo += [(fl, length, vec, form) for length in range(1, 5) for vec in itertools.product(fl, repeat=length) for form in ("list", "float array", "float32 array")]
    for fl in ([1.0, 1.0 + 1e-9, 1.0 - 1e-9, 2.0], [0.0, 1e-12, -1e-12, 5e-324], [1e8, 1e8 + 1.0, 1e8 - 1.0, 3.0], [0.1 + 0.2, 0.3, 0.30000000000000004 + 1e-16, 0.5]):
        todo += [(fl, length, vec, form) for length in range(1, 5) for vec in itertools.product(fl, repeat=length) for form in ("list", "float array")]
    if True:
        if True:
            for ls, length, vec, form in todo:
                run.rt(("onehot", str(ls[0]), length, vec, form))
                try:
                    arg = list(vec) if form == "list" else (np.array(vec, dtype=np.float32) if form == "float32 array" else np.array(vec))
                    if form == "float32 array":
                        vec = tuple(arg.tolist())          # the labels the function actually receives
                    enc = data.one_hot_encode(arg)
                except Exception as e:
                    run.violation(MOD + "one_hot_encode.completes", "raised %s: %s on %s" % (type(e).__name__, e, vec), key={"labels": str(type(vec[0]).__name__)}, replay={"labels": list(vec)})
                    continue
                uniq = sorted(set(vec))
                exp = np.zeros((length, len(uniq)), dtype=int)
                for i, l in enumerate(vec):
                    exp[i, uniq.index(l)] = 1
                if enc.shape != exp.shape or not np.array_equal(enc, exp):
                    run.violation(MOD + "one_hot_encode.unit_vector_at_sorted_label_index", "labels %s encoded as %s" % (list(vec), enc.tolist()),
                                  key={"labels": str(type(vec[0]).__name__), "length": length, "form": form, "has_negative": any(isinstance(v, int) and v < 0 for v in vec)},
                                  replay={"labels": [str(v) for v in vec], "actual": enc.tolist(), "expected": exp.tolist()})


def main(tier="quick", seed=0, procs=None, only=None):
    run = Run("C18", tier, seed, "proof")
    run.assume("pyvc-encoding", "engines")
    run.assume("external contract assumed: np.random.shuffle permutes the list in place (same length, same multiset); list(range(n)) is the identity list of length n, "
               "modelled as an arbitrary integer sequence of length n (the obligations hold for every content)")
    run.assume("data containers are modelled as integer sequences; NumPy / list slicing has Python slice semantics (clamped bounds), encoded on z3 sequences")
    run.bounds = {"pyvc": "unbounded: every dataset length n >= 0, every fraction in [0,1], every batch size >= 1, every batch index below len",
                  "runtime": "all n <= 12 (16 thorough), all b <= n+1, 9 fractions incl. 0 and 1 for both splits, shuffle on/off, with/without transform; one-hot: all label vectors of "
                             "length <= 5 over 3-4 labels of 4 label types"}
    run.rule = "pyvc: one case = one function (x variant); run time: one evaluation = one (n, fractions, shuffle) / (n, b, transform) / label vector"
    stub_pkg_resources()
    cases = [TargetCase(t) for t in split_targets() + loader_targets()]
    run_catalogue(run, cases, seed=seed, procs=procs)
    try:
        pairing_obligation(run)
        runtime_part(run, tier, seed)
    except Exception as e:
        run.error("static / runtime part failed", e)
    return run.finish()
