"""C03 - gradients of arbitrary op compositions obey the chain rule on any DAG.

Three layers of obligations (DESIGN 5, C03):
 1. ENGINE AGAINST OP CONTRACTS (cut 2): Tensor.backward is run on graphs whose grad_fn are contract stubs with symbolic
    Jacobian coefficients J.  Contract of Tensor.backward: every reachable node that requires grad has its grad_fn invoked
    exactly once and only after all of its consumers; every leaf ends with  old + sum over all paths (prod J) * g
    (polynomial identity, z3); non-requiring tensors never get a buffer; interior buffers are released; unreachable
    tensors are untouched.  All DAGs up to the stated size are enumerated exhaustively.
 2. REAL OPS, SYMBOLIC VALUES: programs over the real op catalogue (fan-out, same tensor twice, diamonds, multi-output
    ops, mixed requires_grad), obligation leaf.grad == d root / d leaf (total derivative of the composed forward terms),
    with a ghost invocation counter on every recorded op.
 3. ORDER INDEPENDENCE: the same program built in different orders of its independent sub-expressions gives identical
    obligations (each variant is proved against the same specification).
"""
import itertools
import random
import time

import numpy as np
import z3

from ..report import Run
from ..symreal import core, shim
from ..symreal.core import S, new_session
from ..symreal.discharge import prove_equal
from ..symreal.harness import VCase, Leaf
from ..symreal.pool import run_catalogue

TENSOR_BACKWARD = "synapgrad.tensor.Tensor.backward"


# ============================================================================================ layer 1: engine vs stubs
class EngineCase:
    """one DAG: `leaves` leaf flags, `interior` = list of children tuples (indices into earlier nodes), root index"""
    functions = (TENSOR_BACKWARD, "synapgrad.tensor.Tensor.zero_", "synapgrad.tensor.Tensor.grad (setter)", "synapgrad.tensor.Tensor.is_leaf")
    expect = "engine"

    def __init__(self, leaf_flags, interior, root, retain=(), preexisting=False, twice=False, rejected_first=False):
        self.twice = twice                  # a second backward call from the same root: every op contributes once PER CALL
        self.rejected_first = rejected_first  # a first call with an upstream gradient of the wrong shape is refused -- and must leave nothing behind that disturbs the next call
        self.leaf_flags = tuple(leaf_flags)
        self.interior = tuple(tuple(c) for c in interior)
        self.root = root
        self.retain = tuple(retain)
        self.preexisting = preexisting      # leaves start with an existing symbolic gradient buffer
        self.name = "Tensor.backward[engine]"
        self.key = {"leaf_requires_grad": list(leaf_flags), "children": [list(c) for c in interior], "root": root,
                    "retain_grad": list(retain), "preexisting_leaf_grads": preexisting, "second_backward": twice, "after_a_rejected_call": rejected_first}

    def run(self, seed):
        res = {"name": self.name, "key": self.key, "obligations": 0, "discharged": 0, "backends": {}, "paths": 1, "solver_s": 0.0,
               "failures": [], "undecided": [], "errors": [], "notes": [], "status": "ok", "faithful": 0, "sample": None}
        try:
            self._run(res)
        except Exception as e:  # checker problem
            import traceback
            res["errors"].append("engine case %s: %s\n%s" % (self.key, e, traceback.format_exc()[-1500:]))
        return res

    def _run(self, res):
        # the engine may legitimately branch on gradient values (e.g. skip work for an all-zero gradient): every feasible path is explored
        # and the clauses are evaluated on each (on the unchanged engine there is exactly one path)
        sess = new_session()
        ex = core.Explorer(max_paths=64)
        ex.run(lambda: self._run_path(res, sess, ex))
        res["paths"] = ex.paths

    def _run_path(self, res, sess, ex):
        from synapgrad.tensor import Tensor
        from synapgrad.functional import BackwardFunction
        L = len(self.leaf_flags)
        n_nodes = L + len(self.interior)

        def ob(name, ok, what, backend="executed"):
            res["obligations"] += 1
            if ok:
                res["discharged"] += 1
                res["backends"][backend] = res["backends"].get(backend, 0) + 1
            else:
                res["failures"].append({"obligation": "Tensor.backward." + name, "what": what, "reproduced": True,
                                        "replay": {"graph": self.key, "note": "engine run on contract stubs with symbolic Jacobian coefficients"}})

        with shim.symbolic(eps="native"):
            nodes = []
            req = []
            calls = []          # order of grad_fn invocations
            J = {}
            for i, fl in enumerate(self.leaf_flags):
                a = np.empty((), dtype=object)
                a[()] = S(sess.var("x%d" % i))
                t = Tensor(a, requires_grad=fl)
                nodes.append(t)
                req.append(fl)
            old = {}
            if self.preexisting:
                for i in range(L):
                    if req[i]:
                        b = np.empty((), dtype=object)
                        b[()] = S(sess.var("old%d" % i))
                        nodes[i]._grad = b
                        old[i] = b[()]
            for j, ch in enumerate(self.interior):
                idx = L + j
                rq = any(req[c] for c in ch)
                a = np.empty((), dtype=object)
                a[()] = S(sess.var("v%d" % idx))
                t = Tensor(a, children=tuple(nodes[c] for c in ch), requires_grad=rq, operation="Stub")
                for k, c in enumerate(ch):
                    J[(idx, k)] = S(sess.var("J_%d_%d" % (idx, k)))

                def stub(t=t, ch=ch, idx=idx):
                    calls.append(idx)
                    g = t._grad
                    for k, c in enumerate(ch):
                        cn = nodes[c]
                        if cn.requires_grad:
                            cn._grad += J[(idx, k)] * g
                if rq:
                    t.grad_fn = BackwardFunction(stub, "Stub")
                nodes.append(t)
                req.append(rq)
            for r_ in self.retain:
                if req[r_]:
                    nodes[r_].retain_grad()
            root = nodes[self.root]
            if not root.requires_grad:
                res["status"] = "rejected"
                return
            if self.rejected_first:
                bad = np.empty((2,), dtype=object)
                bad[0], bad[1] = S(sess.var("gbad0")), S(sess.var("gbad1"))
                try:
                    root.backward(Tensor(bad))          # 0-d root, gradient of shape (2,): refused
                    ob("rejects_gradient_of_the_wrong_shape", False, "backward accepted an upstream gradient of shape (2,) for a 0-d root")
                    return
                except Exception:
                    ob("rejects_gradient_of_the_wrong_shape", True, "")
                calls.clear()
            garr = np.empty((), dtype=object)
            garr[()] = S(sess.var("g"))
            try:
                root.backward(Tensor(garr))
            except Exception as e:
                ob("completes", False, "backward raised %s: %s" % (type(e).__name__, e))
                return
            ob("completes", True, "")
            # ---- reachability (ghost)
            reach = set()

            def dfs(i):
                if i in reach:
                    return
                reach.add(i)
                if i >= L:
                    for c in self.interior[i - L]:
                        dfs(c)
            dfs(self.root)
            # ---- exactly once, after all consumers
            # on a path where the engine tested a gradient against a constant (e.g. "all zero?") skipping an op is a legitimate optimisation:
            # there only "never more than once" is demanded, the values are pinned down by the chain-rule clause below
            pinned = getattr(ex, "path_pins", 0) > 0
            for i in range(L, n_nodes):
                expected = 1 if (i in reach and req[i]) else 0
                ob("each_op_once", calls.count(i) == expected or (pinned and calls.count(i) <= expected),
                   "grad_fn of node %d invoked %d times (expected %d) in graph %s" % (i, calls.count(i), expected, self.key))
            pos = {i: p for p, i in enumerate(calls)}
            for i in range(L, n_nodes):
                if i not in pos:
                    continue
                for c in self.interior[i - L]:
                    if c in pos:
                        ob("consumers_first", pos[i] < pos[c], "node %d ran before its consumer %d (order %s)" % (c, i, calls))
            # ---- adjoints: sum over all paths of the product of Jacobian coefficients
            def adjoint(i):
                if i == self.root:
                    return S(sess.var("g"))
                acc = S(core.ZERO)
                for m in range(L, n_nodes):
                    if m in reach and req[m]:
                        for k, c in enumerate(self.interior[m - L]):
                            if c == i:
                                acc = acc + J[(m, k)] * adjoint(m)
                return acc
            if self.twice:
                calls.clear()
                g2 = np.empty((), dtype=object)
                g2[()] = S(sess.var("g2"))
                try:
                    root.backward(Tensor(g2))
                except Exception as e:
                    ob("completes", False, "second backward raised %s: %s" % (type(e).__name__, e))
                    return
                for i in range(L, n_nodes):
                    expected = 1 if (i in reach and req[i]) else 0
                    ob("each_op_once_per_call", calls.count(i) == expected,
                       "second backward call: grad_fn of node %d invoked %d times (expected %d) in graph %s" % (i, calls.count(i), expected, self.key))
            for i in range(n_nodes):
                t = nodes[i]
                is_leaf = i < L
                if not req[i]:
                    ob("no_grad_for_non_requiring", t._grad is None, "node %d does not require grad but has a gradient buffer" % i)
                    continue
                if i not in reach:
                    if is_leaf and i in old:
                        ob("unreachable_untouched", t._grad is not None and S.of(t._grad[()]) is old[i], "unreachable leaf %d changed" % i)
                    else:
                        ob("unreachable_untouched", t._grad is None, "unreachable node %d acquired a gradient" % i)
                    continue
                keeps = is_leaf or i == self.root or i in self.retain
                if not keeps:
                    ob("interior_released", t._grad is None, "interior node %d kept its gradient without retain_grad" % i)
                    continue
                if t._grad is None:
                    ob("leaf_grad", False, "node %d has no gradient after backward" % i)
                    continue
                exp = adjoint(i)
                if self.twice:
                    # leaves accumulate both calls; the root and retained interiors hold the last call's gradient only
                    second = _subst_g(exp, sess)
                    exp = (exp + second) if is_leaf else second
                if i in old:
                    exp = old[i] + exp
                got = S.of(np.asarray(t._grad, dtype=object)[()])
                v = prove_equal(got, exp, list(sess.pre) + list(ex.pc))
                res["solver_s"] += v.seconds
                res["obligations"] += 1
                if v.status == "discharged":
                    res["discharged"] += 1
                    res["backends"][v.backend] = res["backends"].get(v.backend, 0) + 1
                    if res["sample"] is None and v.backend != "syntactic":
                        res["sample"] = {"obligation": "Tensor.backward.chain_rule[node %d]" % i, "graph": self.key, "lhs": str(got.term())[:150],
                                         "rhs": str(exp.term())[:150], "backend": v.backend}
                else:
                    res["failures"].append({"obligation": "Tensor.backward.chain_rule", "what":
                                            "node %d: engine gives %s, sum over paths is %s (graph %s)" % (i, got.term(), exp.term(), self.key),
                                            "reproduced": True, "solver": v.backend, "answer": v.status,
                                            "replay": {"graph": self.key, "model": v.model, "engine_term": str(got.term()), "spec_term": str(exp.term()),
                                                       "how": "build the graph with Tensor(children=...) and stub grad_fn c._grad += J*n._grad, call backward"}})


def _subst_g(expr, sess):
    """the same adjoint with the second call's upstream gradient g2 in place of g"""
    g, g2 = sess.var("g"), sess.var("g2")
    return S(z3.substitute(expr.n, (g, g2)), z3.substitute(expr.d, (g, g2)))


def enumerate_dags(n_leaves, n_interior, ordered, max_fanin):
    """all children assignments for n_interior nodes appended after n_leaves leaves"""
    def options(m):
        out = []
        for k in range(1, max_fanin + 1):
            it = itertools.product(range(m), repeat=k) if ordered else itertools.combinations_with_replacement(range(m), k)
            out.extend(it)
        return out
    def rec(j, acc):
        if j == n_interior:
            yield tuple(acc)
            return
        for ch in options(n_leaves + j):
            yield from rec(j + 1, acc + [ch])
    yield from rec(0, [])


def engine_cases(tier, seed):
    cases = []
    rng = random.Random(seed)
    # exhaustive: 2 leaves, <=3 interior nodes, ordered children (construction / operand order matters to the DFS), fan-in <= 2
    for L in (1, 2):
        for n_int in (1, 2, 3):
            for dag in enumerate_dags(L, n_int, ordered=True, max_fanin=2):
                used = set(c for ch in dag for c in ch)
                # every interior node except the last must be consumed (otherwise it is a smaller graph plus an unreachable node)
                if any((L + j) not in used for j in range(n_int - 1)):
                    continue
                flagsets = [fl for fl in itertools.product([True, False], repeat=L) if any(fl)]
                for fl in flagsets:
                    cases.append(EngineCase(fl, dag, L + n_int - 1))
    # a second backward call on every 2-leaf / <=2-interior graph, with and without retained interiors
    for n_int in (1, 2):
        for dag in enumerate_dags(2, n_int, ordered=False, max_fanin=2):
            used = set(c for ch in dag for c in ch)
            if any((2 + j) not in used for j in range(n_int - 1)):
                continue
            for retain in ((), (2,)):
                for fl in ((True, True), (True, False)):
                    cases.append(EngineCase(fl, dag, 2 + n_int - 1, retain=retain, twice=True))
    for dag in list(enumerate_dags(2, 3, ordered=False, max_fanin=2))[:: (7 if tier == "quick" else 1)]:
        used = set(c for ch in dag for c in ch)
        if any((2 + j) not in used for j in range(2)):
            continue
        cases.append(EngineCase((True, True), dag, 4, retain=(2, 3), twice=True))
    # a refused call (wrong-shaped upstream gradient) followed by a valid one, on every 2-leaf graph with <= 2 interior nodes
    for n_int in (1, 2):
        for dag in enumerate_dags(2, n_int, ordered=False, max_fanin=2):
            used = set(c for ch in dag for c in ch)
            if any((2 + j) not in used for j in range(n_int - 1)):
                continue
            cases.append(EngineCase((True, True), dag, 2 + n_int - 1, rejected_first=True))
            cases.append(EngineCase((True, False), dag, 2 + n_int - 1, rejected_first=True, retain=(2,) if n_int > 1 else ()))
    # fan-in 3 with repeats, 3 leaves, every root choice, retain_grad, pre-existing buffers
    extra = []
    for dag in enumerate_dags(3, 2, ordered=False, max_fanin=3):
        extra.append(dag)
    rng.shuffle(extra)
    for dag in extra[: (400 if tier == "quick" else len(extra))]:
        fl = tuple(rng.choice([True, False]) for _ in range(3))
        if not any(fl):
            fl = (True, False, True)
        for root in (3, 4):
            cases.append(EngineCase(fl, dag, root, retain=(3,) if rng.random() < 0.5 else (), preexisting=rng.random() < 0.5))
    n4 = 0
    for dag in enumerate_dags(2, 4, ordered=False, max_fanin=2):
        used = set(c for ch in dag for c in ch)
        if any((2 + j) not in used for j in range(3)):
            continue
        n4 += 1
        if tier == "quick" and n4 % 5 != seed % 5:
            continue
        cases.append(EngineCase((True, n4 % 2 == 0), dag, 5, retain=(3,) if n4 % 3 == 0 else (), preexisting=n4 % 4 == 0))
    if tier == "thorough":
        n5 = 0
        for dag in enumerate_dags(2, 5, ordered=False, max_fanin=2):
            used = set(c for ch in dag for c in ch)
            if any((2 + j) not in used for j in range(4)):
                continue
            n5 += 1
            if n5 % 7 != seed % 7:
                continue
            cases.append(EngineCase((True, True), dag, 6))
    return cases


# =========================================================================================== layer 2/3: real programs
def counter_instrument(out, T):
    """ghost invocation counter on every recorded operation reachable from the root"""
    seen = {}
    stack = [out]
    while stack:
        n = stack.pop()
        if id(n) in seen:
            continue
        seen[id(n)] = n
        stack.extend(n._children)
    counts = {}
    for n in seen.values():
        fn = n._grad_fn
        if fn is None:
            continue
        counts[id(n)] = 0
        orig = fn.backward

        def wrapped(*a, _orig=orig, _k=id(n), **kw):
            counts[_k] += 1
            return _orig(*a, **kw)
        fn.backward = wrapped

    def fin():
        return [("each-recorded-op-invoked-exactly-once", all(c == 1 for c in counts.values()))]
    return fin


def pattern_programs():
    import synapgrad.functional as F
    import synapgrad.nn.functional as NF
    P = []

    def add(name, leaves, build, **key):
        P.append(VCase("program." + name, {"program": name, **key}, leaves, build, instrument=counter_instrument,
                       functions=(TENSOR_BACKWARD,), max_paths=600))
    A = lambda fl=True: Leaf("a", (2, 3), "any", fl)
    Bb = lambda fl=True: Leaf("b", (2, 3), "any", fl)
    C = lambda fl=True: Leaf("c", (3,), "any", fl)
    for fa, fb in [(True, True), (True, False), (False, True)]:
        add("fan_out", [A(fa), Bb(fb)], lambda T, K: (T["a"] * T["b"]) + (T["a"] * 2.0) + F.exp(T["a"]), requires_grad=[fa, fb])
        add("same_tensor_twice", [A(fa), Bb(fb)], lambda T, K: F.mul(T["a"], T["a"]) + F.matmul(T["b"], F.transpose(T["b"], 0, 1)).sum() * T["a"], requires_grad=[fa, fb])

        def diamond(T, K):
            u = T["a"] + T["b"]
            l = NF.tanh(u)
            r = u * u
            return l * r + u
        add("diamond", [A(fa), Bb(fb)], diamond, requires_grad=[fa, fb])

        def multi_output(T, K):
            rows = F.unbind(T["a"], 0)
            cols = F.unbind(T["b"], 1)
            return F.stack([rows[1] * rows[0], rows[0]], 0).sum(0) * cols[2].sum() + F.concat([cols[0], cols[1], cols[0]], 0).mean()
        add("multi_output_ops", [A(fa), Bb(fb)], multi_output, requires_grad=[fa, fb])
    # joins with operands that do not require grad placed BEFORE ones that do (constant / detached / frozen branches)
    for fl in [(False, True, True), (True, False, True), (False, False, True), (False, True, False)]:
        for dim in (0, 1, -1):
            def joins(T, K, dim=dim):
                parts = [T["a"], T["b"] * 2.0, T["d"]]
                st = F.stack(parts, dim)
                ct = F.concat([T["d"], T["a"] + T["b"], T["b"]], dim if dim != -1 else 1)
                sl = F.unbind(st, dim)             # distinct weights per slice, so that a mis-paired slice cannot cancel
                return sl[0] * 1.0 + sl[1] * 2.0 + sl[2] * 3.0 + F.unbind(ct, 0)[1].sum() + ct.mean()
            add("joins_with_mixed_requires_grad", [A(fl[0]), Bb(fl[1]), Leaf("d", (2, 3), "any", fl[2])], joins, requires_grad=list(fl), dim=dim)
    # a tensor that is unbound AND consumed directly by other ops in the same graph
    def unbind_fanout(T, K):
        rows = F.unbind(T["a"], 0)
        cols = F.unbind(T["a"], 1)
        return rows[0] * rows[1] + cols[2].sum() * T["c"] + F.sum(T["a"] * T["b"], 0) + F.unbind(T["a"], 0)[1]
    add("unbind_fanout", [A(), Bb(), C()], unbind_fanout)
    # deep diamond ladder (number of paths doubles at every rung)
    def ladder(T, K):
        x = T["a"]
        for i in range(5):
            x = x * x + x
        return x
    add("diamond_ladder_5", [Leaf("a", (2,))], ladder)
    # unused branch: an op whose result is never consumed by the root must not contribute
    def unused(T, K):
        dead = F.exp(T["a"]) * T["b"]      # noqa: F841  (recorded, but not reachable from the root)
        return T["a"] * 3.0 + T["b"]
    add("unused_branch", [A(), Bb()], unused)
    # broadcasting + reductions + views + indexing in one graph, with a non-requiring operand in the middle
    def mixed(T, K):
        h = F.matmul(T["a"], F.transpose(T["b"], 1, 0))          # (2,2)
        h = h + F.unsqueeze(T["c"][0:2], 0)
        h = F.reshape(h, (4,))[1:] * F.flatten(T["a"])[::2]
        return F.mean(h) + F.sum(T["c"] * T["c"]) / 3.0
    for fl in [(True, True, True), (True, False, True), (False, True, False), (False, False, True)]:
        add("mixed_views_reductions", [A(fl[0]), Bb(fl[1]), C(fl[2])], mixed, requires_grad=list(fl))
    # nn blocks composed
    def mlp(T, K):
        h = NF.linear(T["x"], T["w1"], T["b1"])
        h = NF.sigmoid(h)
        o = NF.linear(h, T["w2"])
        return NF.mse_loss(o, T["y"]).mean()
    add("mlp_mse", [Leaf("x", (2, 2)), Leaf("w1", (2, 2)), Leaf("b1", (2,)), Leaf("w2", (1, 2)), Leaf("y", (2, 1), "any", False)], mlp)
    # one operand read several times by ONE indexing op (embedding lookup with repeated rows / columns, list and tuple forms): every read is a path
    def lookup(T, K):
        e = T["a"][[1, 0, 1, 1]]                                  # (4, 3) rows of a, row 1 three times
        f_ = T["a"][:, (2, 2, 0)]                                 # (2, 3) columns, column 2 twice
        return F.sum(e * F.unsqueeze(T["c"], 0)) * 0.5 + F.sum(f_ * T["b"]) + F.sum(T["b"][[0, 0]][:, [1, 1, 2]])
    for fl in [(True, True, True), (True, False, False), (False, True, True)]:
        add("repeated_reads_by_one_index", [A(fl[0]), Bb(fl[1]), C(fl[2])], lookup, requires_grad=list(fl))

    # ... the same position read twice under DIFFERENT spellings (a non-negative and a negative index), as list, tuple and array index
    def lookup_alias(T, K):
        e = T["a"][[0, -2, 1]]                                    # rows 0, 0, 1 of the (2,3) operand
        f_ = T["a"][:, np.array([-1, 2, 0])]                      # columns 2, 2, 0
        h = T["c"][[1, -2, -3, 0]]                                # elements 1, 1, 0, 0 of the (3,) operand
        return F.sum(e * T["c"]) + F.sum(f_ * T["b"]) * 2.0 + F.sum(h * h) + F.sum(T["b"][(0, -2), :])
    for fl in [(True, True, True), (True, False, True)]:
        add("repeated_reads_under_different_spellings", [A(fl[0]), Bb(fl[1]), C(fl[2])], lookup_alias, requires_grad=list(fl))
    # a stateful building block used again (in another mode) between the forward and the backward of the first use: backward of the first
    # result is still the derivative of the function that WAS computed (saved operands must not be overwritten by later forwards)
    def bn_between(first_eval):
        def build(T, K):
            import synapgrad.nn as nn_
            from synapgrad.tensor import Tensor
            from synapgrad.nn.modules import Parameter
            L = nn_.BatchNorm1d(2, dtype=T["x"].data.dtype)
            L.weight, L.bias = Parameter(T["gamma"]), Parameter(T["beta"])
            T["gamma"], T["beta"] = L.weight, L.bias
            L.running_mean = Tensor(np.array(T["rm"].data))
            L.running_var = Tensor(np.array(T["rv"].data))
            (L.eval if first_eval else L.train)()
            y1 = L(T["x"])
            (L.train if first_eval else L.eval)()
            L(T["x2"])                    # recorded, never differentiated: only its side effects on the layer matter
            return y1
        return build
    for first_eval in (True, False):
        add("batchnorm_reused_before_backward", [Leaf("x", (2, 2)), Leaf("x2", (2, 2), "any", False), Leaf("gamma", (2,)), Leaf("beta", (2,)), Leaf("rm", (2,), "any", False),
                                                  Leaf("rv", (2,), "pos", False)], bn_between(first_eval), first_use="eval" if first_eval else "train")
    # augmented assignment on a constant the graph has already captured: `c += 1` rebinds the NAME (or, if a tensor ever supports it in place, must not disturb what earlier
    # operations saved): the product recorded before it is differentiated with the value it was computed with
    def aug(opname):
        def build(T, K):
            c = T["c"]
            y = T["a"] * c + F.matmul(T["a"], F.transpose(T["b"], 0, 1)).sum() * 0.0
            if opname == "+=":
                c += 1.0
            elif opname == "-=":
                c -= T["d"]
            elif opname == "*=":
                c *= 2.0
            else:
                c /= 2.0
            return y * c
        return build
    for opname in ("+=", "-=", "*=", "/="):
        add("augmented_assignment_on_a_captured_constant", [A(), Bb(False), Leaf("c", (2, 3), "any", False), Leaf("d", (2, 3), "any", False)], aug(opname), operator=opname)
    # one operation through which SEVERAL paths lead back to the same input cell: dilated windows that interleave (stride >= kernel, yet windows share cells) -- the
    # contributions of all windows add up, inside a diamond whose other branch uses the input directly
    def interleaved(kind):
        def build(T, K):
            x = T["x"]
            if kind == "conv1d":
                y = NF.conv1d(x, T["w"], None, 2, 0, 2)
            elif kind == "avg_pool1d":
                y = NF.avg_pool1d(x, 2, 2, 0, 2)
            elif kind == "conv2d":
                y = NF.conv2d(x, T["w"], None, 2, 0, (1, 2))
            else:
                y = NF.unfold(x, (2, 1), (2, 1), (2, 1), 0)
            return F.exp(y).sum() * F.sum(x * x) + y.sum()
        return build
    for kind, leaves in (("conv1d", [Leaf("x", (1, 1, 5)), Leaf("w", (1, 1, 2))]), ("avg_pool1d", [Leaf("x", (1, 2, 5))]),
                         ("conv2d", [Leaf("x", (1, 1, 2, 5)), Leaf("w", (1, 1, 2, 2))]), ("unfold", [Leaf("x", (1, 1, 5, 1))])):
        add("interleaved_dilated_windows_in_a_diamond", leaves, interleaved(kind), op=kind)
    # an activation with a parameter outside its everyday range inside a diamond (leaky_relu with a negative slope and with a slope above 1: |x|-like and steeper-than-identity)
    def leaky_diamond(slope):
        def build(T, K):
            h = T["a"] * T["b"]
            return NF.leaky_relu(h, slope) * h + NF.leaky_relu(T["a"], slope).sum()
        return build
    for slope in (-1.0, -0.5, 3.0):
        add("leaky_relu_with_unusual_slope_in_a_diamond", [Leaf("a", (2,)), Leaf("b", (2,))], leaky_diamond(slope), slope=slope)
    # Python-level aliasing of the CALLER's objects: the list handed to a join is reused / edited afterwards (a sliding window, a work list cleared for the next step); the
    # recorded graph is the one the forward built
    def reused_list(how):
        def build(T, K):
            parts = [T["a"] * T["a"], T["b"], F.exp(T["a"])]
            j = F.concat(parts, 0) if how != "stack" else F.stack(parts, 0)
            if how == "cleared":
                parts.clear()
            elif how == "window":
                parts[0] = T["b"] * 3.0
                parts.append(T["a"])
            else:
                parts.reverse()
            k = F.concat([j, j * T["b"].sum()], 0) if how != "stack" else j * T["b"].sum()
            return k
        return build
    for how in ("cleared", "window", "reversed", "stack"):
        add("operand_list_edited_after_the_join", [Leaf("a", (2,)), Leaf("b", (2,))], reused_list(how), how=how)
    # the accumulator idiom: an untracked running total updated with += by tracked terms, then used further (augmented assignment must record the same graph as t = t + term)
    def accumulator(op):
        def build(T, K):
            acc = T["c"]                    # an operand that does not require grad: the running total starts outside any graph
            for k in range(3):
                term = T["a"] * float(k + 1) if k != 1 else T["a"] * T["b"]
                if op == "+=":
                    acc += term
                elif op == "-=":
                    acc -= term
                else:
                    acc *= (term + 1.0)
                    acc += T["b"]
            return acc * T["b"] + acc
        return build
    for op in ("+=", "-=", "*="):
        add("untracked_accumulator_updated_in_place_by_tracked_terms", [Leaf("a", (2,)), Leaf("b", (2,)), Leaf("c", (2,), "any", False)], accumulator(op), operator=op)
    # order independence: the same expression with independent branches built in every order
    def branches(order):
        def build(T, K):
            vals = {}
            fns = {"u": lambda: F.exp(T["a"]), "v": lambda: T["b"] * T["b"], "w": lambda: F.sum(T["c"]) * T["a"]}
            for k in order:
                vals[k] = fns[k]()
            return vals["u"] * vals["v"] + vals["w"] - vals["v"]
        return build
    for order in itertools.permutations("uvw"):
        add("order_independence", [A(), Bb(), C()], branches(order), construction_order="".join(order))
    return P


OPS = None


def random_programs(n, max_ops, seed):
    """typed random programs over the real catalogue (values stay in shape classes M=(2,3), V=(3,), R=(2,), S=())"""
    import synapgrad.functional as F
    import synapgrad.nn.functional as NF
    progs = []
    rng = random.Random(seed)
    unary = {
        "M": [("neg", lambda x: -x, "M"), ("tanh", NF.tanh, "M"), ("sigmoid", NF.sigmoid, "M"), ("exp", lambda x: F.exp(x * 0.5), "M"), ("sq", lambda x: x ** 2, "M"),
              ("sum1", lambda x: F.sum(x, 1), "R"), ("mean0", lambda x: F.mean(x, 0), "V"), ("sumall", lambda x: F.sum(x), "S"), ("row0", lambda x: x[0], "V"),
              ("clone", F.clone, "M"), ("scale", lambda x: x * 1.5, "M"), ("flip", lambda x: x[::-1], "M"), ("rt", lambda x: F.reshape(F.transpose(x, 0, 1), (2, 3)), "M"),
              ("unbind1", lambda x: F.unbind(x, 0)[1], "V"), ("softmax", lambda x: NF.softmax(x, 1), "M")],
        "V": [("neg", lambda x: -x, "V"), ("tanh", NF.tanh, "V"), ("sq", lambda x: x * x, "V"), ("sum", lambda x: F.sum(x), "S"), ("unsq", lambda x: F.unsqueeze(x, 0) + F.unsqueeze(x, 0) * 0.0 + 0.0 if False else F.unsqueeze(x, 0), "M1")],
        "R": [("neg", lambda x: -x, "R"), ("sq", lambda x: x * x, "R"), ("sum", lambda x: F.sum(x), "S"), ("col", lambda x: F.unsqueeze(x, 1), "C1")],
        "S": [("neg", lambda x: -x, "S"), ("sq", lambda x: x * x, "S"), ("tanh", NF.tanh, "S")],
    }
    bcast = {("M", "M"): "M", ("M", "V"): "M", ("V", "M"): "M", ("M", "S"): "M", ("S", "M"): "M", ("V", "V"): "V", ("V", "S"): "V", ("S", "V"): "V",
             ("R", "R"): "R", ("R", "S"): "R", ("S", "R"): "R", ("S", "S"): "S", ("M", "M1"): "M", ("M1", "M"): "M", ("M", "C1"): "M", ("C1", "M"): "M",
             ("M1", "V"): "M1", ("V", "M1"): "M1", ("C1", "R"): None}
    for pi in range(n):
        n_ops = rng.randint(2, max_ops)
        flags = [rng.random() < 0.75 for _ in range(3)]
        if not any(flags):
            flags[rng.randrange(3)] = True
        steps = []
        types = ["M", "M", "V"]
        for _ in range(n_ops):
            if rng.random() < 0.45:
                i = rng.randrange(len(types))
                cands = unary.get(types[i])
                if not cands:
                    continue
                name, fn, ty = rng.choice(cands)
                steps.append(("u", name, fn, i))
                types.append(ty)
            else:
                i, j = rng.randrange(len(types)), rng.randrange(len(types))
                ty = bcast.get((types[i], types[j]))
                if ty is None:
                    continue
                op = rng.choice(["add", "mul", "sub"])
                steps.append(("b", op, None, i, j))
                types.append(ty)
        desc = [(s[1], s[3]) if s[0] == "u" else (s[1], s[3], s[4]) for s in steps]

        def build(T, K, steps=steps):
            vals = [T["a"], T["b"], T["c"]]
            for s in steps:
                if s[0] == "u":
                    vals.append(s[2](vals[s[3]]))
                else:
                    x, y = vals[s[3]], vals[s[4]]
                    vals.append(x + y if s[1] == "add" else (x * y if s[1] == "mul" else x - y))
            # root: combine the last value with every value nobody consumed, so that all branches matter
            root = vals[-1]
            return root
        progs.append(VCase("program.random", {"program": "random", "index": pi, "steps": str(desc), "requires_grad": flags},
                           [Leaf("a", (2, 3), "any", flags[0]), Leaf("b", (2, 3), "any", flags[1]), Leaf("c", (3,), "any", flags[2])],
                           build, instrument=counter_instrument, functions=(TENSOR_BACKWARD,), max_paths=400, timeout_ms=20000))
    return progs


def main(tier="quick", seed=0, procs=None, only=None):
    run = Run("C03", tier, seed, "proof")
    run.assume("reals", "numpy", "shims", "atoms", "engines")
    run.assume("(M1, paper lemma, not mechanised) per-op backward contracts (C01/C02) + the engine contract on every finite DAG => chain rule on every DAG; "
               "the engine contract is discharged on all enumerated DAGs, programs are bounded")
    run.bounds = {"engine_dags": "ALL DAGs with <=2 leaves and <=3 interior nodes with ordered children (fan-in <=2, repeats allowed), every requires_grad assignment; "
                                 "fan-in 3 / 3 leaves / every root / retain_grad / pre-existing buffers on a seeded subset (quick) or all (thorough) of 2-interior graphs; "
                                 "4-interior graphs: 1/5 (quick) or all (thorough); 5-interior: 1/7 (thorough)",
                  "programs": "hand-written pattern programs (fan-out, same tensor twice, diamond, diamond ladder, multi-output, unused branch, mixed views/reductions, MLP, "
                              "6 construction orders) + %s seeded random typed programs" % ("120 of <=6 ops" if tier == "quick" else "500 of <=8 ops")}
    run.rule = "engine: one case = one DAG x flags x root; programs: one case = one program x requires_grad subset; all real values, all upstream gradients per case"
    run.under_contract(TENSOR_BACKWARD)
    cases = engine_cases(tier, seed) + pattern_programs() + random_programs(120 if tier == "quick" else 500, 6 if tier == "quick" else 8, seed)
    # "for any upstream gradient": also one that is the .grad an earlier sweep left on a tensor INSIDE the graph now being differentiated (C04's histories with that event)
    from . import c04
    cases += [h for h in c04.histories("quick", seed) if "BWG_last" in h.events]
    # deductive part: the protocol of Tensor.backward around its traversal (refusals, root seed, each operation once in reverse order, release), for every graph size
    from . import c03_vc
    from ..pyvc.harness import TargetCase
    cases += [TargetCase(t) for t in c03_vc.targets()]
    if only:
        cases = [c for c in cases if only in c.name]
    from ..catalog import canaries
    cases = cases + canaries.tensor_canaries()[:2] + engine_canaries()
    run_catalogue(run, cases, seed=seed, procs=procs)
    run.extra["engine_graphs"] = sum(1 for c in cases if isinstance(c, EngineCase))
    return run.finish()


def engine_canaries():
    """a deliberately broken engine contract: the specification forgets one path -> must be refuted"""
    class Wrong(EngineCase):
        expect = "refute"

        def __init__(self):
            super().__init__((True,), ((0, 0), (1, 0)), 2)
            self.name = "canary.engine_spec_drops_a_path"

        def _run(self, res):
            # same graph, but the stub of node 2 adds its contribution twice -> the engine result must differ from the path sum
            from synapgrad.tensor import Tensor
            from synapgrad.functional import BackwardFunction
            sess = new_session()
            with shim.symbolic(eps="native"):
                x = Tensor(np.array(S(sess.var("x0")), dtype=object), requires_grad=True)
                j = S(sess.var("J"))
                n1 = Tensor(np.array(S(sess.var("v1")), dtype=object), children=(x,), requires_grad=True)
                def s1():
                    x._grad += j * n1._grad
                    x._grad += j * n1._grad
                n1.grad_fn = BackwardFunction(s1, "Stub")
                g = np.array(S(sess.var("g")), dtype=object)
                n1.backward(Tensor(g))
                got = S.of(x._grad[()])
                exp = j * S(sess.var("g"))
                v = prove_equal(got, exp, [])
                res["obligations"] += 1
                if v.status != "discharged":
                    res["failures"].append({"obligation": "canary", "what": "refuted as expected", "reproduced": True, "replay": {}})
    return [Wrong()]
