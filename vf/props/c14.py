"""C14 - fused operations equal the compositions their documentation equates them with.

For each documented identity both sides are REAL library code run on the same symbolic operands and the same symbolic
upstream gradient; obligations (z3):  value(lhs) == value(rhs)  element-wise, and for every operand  grad_lhs == grad_rhs.
No external reference is needed: each side is the other's specification.
Transcendental identities (cross-entropy / BCE-with-logits / log_softmax) are decided with cpu_ops.epsilon := 0
("guard-consistent at eps=0") using the structural exp/log normal form of symreal (exp(s+t)=exp(s)exp(t), log(exp t)=t,
log(n/d)=log n - log d for syntactically positive d).
"""
import itertools

import numpy as np

from ..report import Run
from ..symreal import core, shim
from ..symreal.core import S, symarr, new_session, Explorer, PathBudgetExceeded, evalarr, evalterm, EvalError
from ..symreal.discharge import prove_equal
from ..symreal.harness import Leaf, domain_constraints, var_names, domain_sample
from ..symreal.pool import run_catalogue
from ..catalog.nn_ops import REP_1D, out_len, _labels, _const


class PairCase:
    expect = "pair"

    def __init__(self, name, key, leaves, lhs, rhs, eps="symbolic", functions=(), max_paths=1500, timeout_ms=20000, stress_axis=None):
        self.stress_axis = stress_axis      # softmax-type identities: axis along which the rows are normalised (float stress points vary the scale across rows)
        self.name = name
        self.key = {"identity": name, **key}
        self.leaves = leaves
        self.lhs = lhs
        self.rhs = rhs
        self.eps = eps
        self.functions = tuple(functions)
        self.max_paths = max_paths
        self.timeout_ms = timeout_ms

    def run(self, seed):
        res = {"name": self.name, "key": dict(self.key), "obligations": 0, "discharged": 0, "backends": {}, "paths": 0, "solver_s": 0.0,
               "failures": [], "undecided": [], "errors": [], "notes": [], "status": "ok", "faithful": 0, "sample": None}
        try:
            self._run(res, seed)
        except PathBudgetExceeded as e:
            res["errors"].append("%s: %s" % (self.name, e))
        except Exception as e:
            import traceback
            res["errors"].append("%s %s: %s\n%s" % (self.name, self.key, e, traceback.format_exc()[-1500:]))
        return res

    def _sides(self, T_factory):
        outs = []
        for side in (self.lhs, self.rhs):
            T = T_factory()
            o = side(T)
            outs.append((T, o))
        return outs

    def _run(self, res, seed):
        from synapgrad.tensor import Tensor
        sess = new_session()
        with shim.symbolic(eps=self.eps):
            syms = {l.name: symarr(l.name, l.shape) for l in self.leaves}
            for l in self.leaves:
                for e in syms[l.name].ravel():
                    sess.pre.extend(domain_constraints(e.n, l.domain))
            ex = Explorer(max_paths=self.max_paths)

            def one_path():
                out = []
                g = None
                for side in (self.lhs, self.rhs):
                    T = {l.name: Tensor(syms[l.name].copy(), requires_grad=l.requires_grad) for l in self.leaves}
                    o = side(T)
                    od = np.asarray(o.data, dtype=object)
                    if g is None:
                        g = symarr("g", od.shape)
                    g2 = {}
                    if od.shape == g.shape and o.requires_grad:
                        o.backward(Tensor(g.copy()))
                        g1 = {l.name: T[l.name]._grad for l in self.leaves}
                        # differentiate the same graph once more (leaf buffers reset): the two forms must also coincide then
                        for l in self.leaves:
                            T[l.name]._grad = None
                        o.backward(Tensor(g.copy()))
                        g2 = {l.name: T[l.name]._grad for l in self.leaves}
                    else:
                        g1 = {l.name: T[l.name]._grad for l in self.leaves}
                    out.append((od, g1, g2))
                return out
            results = ex.run(one_path)
        res["paths"] = len(results)
        base = list(sess.pre) + list(sess.axioms) + sess.relevant_axioms(list(sess.pre))

        def bump(b):
            res["obligations"] += 1
            res["discharged"] += 1
            res["backends"][b] = res["backends"].get(b, 0) + 1
        for (left, right), pc in results:
            path_ax = sess.relevant_axioms(list(pc))
            pairs = [("value", left[0], right[0])]
            for l in self.leaves:
                if l.requires_grad:
                    a, b = left[1][l.name], right[1][l.name]
                    a = np.zeros(l.shape, dtype=object) if a is None else np.asarray(a, dtype=object)
                    b = np.zeros(l.shape, dtype=object) if b is None else np.asarray(b, dtype=object)
                    pairs.append(("grad[%s]" % l.name, a, b))
                    if left[2] and right[2]:
                        a2, b2 = left[2].get(l.name), right[2].get(l.name)
                        a2 = np.zeros(l.shape, dtype=object) if a2 is None else np.asarray(a2, dtype=object)
                        b2 = np.zeros(l.shape, dtype=object) if b2 is None else np.asarray(b2, dtype=object)
                        pairs.append(("grad_of_second_sweep[%s]" % l.name, a2, b2))
            for what, a, b in pairs:
                oname = "%s.%s_equal" % (self.name, what)
                if a.shape != b.shape:
                    res["obligations"] += 1
                    res["failures"].append({"obligation": oname, "what": "shapes differ: %s vs %s" % (a.shape, b.shape), "reproduced": True, "replay": self._native(seed, sess, pc)})
                    continue
                stop = False
                for idx in ([()] if a.ndim == 0 else np.ndindex(*a.shape)):
                    x, y = S.of(a[idx]), S.of(b[idx])
                    v = prove_equal(x, y, base + list(pc) + path_ax + sess.relevant_axioms([x.n, x.d, y.n, y.d]), timeout_ms=self.timeout_ms)
                    res["solver_s"] += v.seconds
                    if v.status == "discharged":
                        bump(v.backend)
                        if res["sample"] is None and v.backend not in ("syntactic",):
                            res["sample"] = {"obligation": oname, "element": list(idx), "lhs": str(x.term())[:150], "rhs": str(y.term())[:150], "backend": v.backend}
                        continue
                    res["obligations"] += 1
                    rep = self._native(seed, sess, pc)
                    if rep.get("reproduced"):
                        res["failures"].append({"obligation": oname, "what": "element %s: %s vs %s; native replay differs" % (list(idx), str(x.term())[:100], str(y.term())[:100]),
                                                "reproduced": True, "replay": rep, "solver": v.backend, "answer": v.status})
                    else:
                        res["undecided"].append({"obligation": oname + str(list(idx)), "reason": "%s %s; both sides agree numerically at %d sampled points (needs an exp/log identity the "
                                                 "normal form does not provide)" % (v.backend, v.status, rep.get("points", 0))})
                    stop = True
                    break
                if stop:
                    break

    def _native(self, seed, sess=None, pc=(), points=None):
        """both sides natively on float64: at points ON THE PATH the failing obligation belongs to (values the path condition pins, e.g. an operand element equal to 0,
        come from a z3 model of it; the rest is sampled), then at sampled points"""
        import random
        import z3
        from synapgrad.tensor import Tensor
        rng = random.Random("%s|%d" % (self.name, seed))
        rep = {"identity": self.key, "reproduced": False, "points": 0}
        pinned = []
        if sess is not None and pc:
            sol = z3.Solver()
            sol.set("timeout", 3000)
            sol.add(*sess.pre)
            sol.add(*pc)
            if sol.check() == z3.sat:
                from ..symreal.discharge import _model_env
                m = _model_env(sol.model())
                for _ in range(3):
                    pinned.append({l.name: np.array([m.get(n, domain_sample(rng, l.domain)) for n in var_names(l.name, l.shape)], dtype=np.float64).reshape(l.shape) for l in self.leaves})
        if points is not None:
            pinned = list(points)
        for k_ in range((0 if points is not None else 5) + len(pinned)):
            vals = pinned[k_] if k_ < len(pinned) else {l.name: np.array([domain_sample(rng, l.domain) for _ in var_names(l.name, l.shape)]).reshape(l.shape) for l in self.leaves}
            try:
                with shim.native():
                    outs = []
                    gv = None
                    for side in (self.lhs, self.rhs):
                        T = {l.name: Tensor(vals[l.name].copy(), requires_grad=l.requires_grad) for l in self.leaves}
                        o = side(T)
                        if gv is None:
                            gv = np.array([rng.uniform(-2, 2) for _ in range(max(1, o.data.size))]).reshape(o.data.shape)
                        snap = lambda: {l.name: (None if T[l.name]._grad is None else np.array(T[l.name]._grad)) for l in self.leaves}
                        if o.requires_grad and o.data.shape == gv.shape:
                            o.backward(Tensor(gv.copy()))
                            first = snap()
                            for l in self.leaves:
                                T[l.name]._grad = None
                            o.backward(Tensor(gv.copy()))           # second sweep over the same graph
                            sec = snap()
                        else:
                            first = sec = snap()
                        outs.append((np.array(o.data, dtype=np.float64), first, sec))
            except Exception as e:
                rep.update({"reproduced": True, "native_exception": "%s: %s" % (type(e).__name__, str(e)[:200]), "inputs": {k: v.tolist() for k, v in vals.items()}})
                return rep
            rep["points"] += 1
            (v1, g1, s1), (v2, g2, s2) = outs
            bad = v1.shape != v2.shape or not np.allclose(v1, v2, rtol=1e-6, atol=1e-9)
            for l in self.leaves:
                if l.requires_grad:
                    for x1, x2 in ((g1, g2), (s1, s2)):
                        a = np.zeros(l.shape) if x1[l.name] is None else x1[l.name]
                        b = np.zeros(l.shape) if x2[l.name] is None else x2[l.name]
                        bad = bad or a.shape != b.shape or not np.allclose(a, b, rtol=1e-6, atol=1e-9)
            if bad:
                rep.update({"reproduced": True, "inputs": {k: v.tolist() for k, v in vals.items()}, "upstream": gv.tolist(), "lhs_value": v1.tolist(), "rhs_value": v2.tolist(),
                            "lhs_grads": {k: (None if v is None else v.tolist()) for k, v in g1.items()}, "rhs_grads": {k: (None if v is None else v.tolist()) for k, v in g2.items()},
                            "lhs_grads_second_sweep": {k: (None if v is None else v.tolist()) for k, v in s1.items()},
                            "rhs_grads_second_sweep": {k: (None if v is None else v.tolist()) for k, v in s2.items()}})
                return rep
        return rep


def float_stress(run, cases, seed):
    """Bounded, native: the real numbers of the proof are floats at run time. For the softmax-type identities both sides are evaluated in
    float32 and float64 on operands whose rows sit at very different scales (each row well-conditioned on its own: spread <= 4 within a
    row, rows offset by +-M): wherever one side is finite in values and gradients the other must be finite and agree to the dtype's precision."""
    import random
    from synapgrad.tensor import Tensor
    for c in cases:
        if c.stress_axis is None:
            continue
        l0 = c.leaves[0]
        if len(l0.shape) < 2:
            continue
        ax = c.stress_axis % len(l0.shape)
        for dt, M, rtol in ((np.float32, 70.0, 2e-4), (np.float64, 500.0, 1e-9)):
            for trial in range(3):
                rng = random.Random("%s|%s|%d|%d" % (c.name, c.key, seed, trial))
                x = np.zeros(l0.shape)
                for idx in np.ndindex(*l0.shape):
                    row = tuple(i for k, i in enumerate(idx) if k != ax)
                    sign = (-1) ** (sum(row) + trial) if trial < 2 else (0 if sum(row) % 2 else 1)
                    x[idx] = sign * M + rng.uniform(-2, 2)
                outs = []
                gv = None
                key = {**c.key, "dtype": np.dtype(dt).name, "row_offsets": "+-%g" % M, "trial": trial}
                try:
                    with shim.native(), np.errstate(all="ignore"):
                        for side in (c.lhs, c.rhs):
                            T = {l0.name: Tensor(x.astype(dt), requires_grad=True)}
                            o = side(T)
                            if gv is None:
                                gv = np.array([rng.uniform(0.5, 2) for _ in range(max(1, o.data.size))]).reshape(o.data.shape).astype(dt)
                            o.backward(Tensor(gv.copy()))
                            outs.append((np.array(o.data, dtype=np.float64), np.array(T[l0.name]._grad, dtype=np.float64)))
                except Exception as e:
                    run.violation(c.name + ".float_stress_completes", "%s: %s" % (type(e).__name__, e), key=key, replay={"x": x.tolist(), **key}, reproduced=True)
                    continue
                run.rt(("float-stress", c.name, repr(c.key), np.dtype(dt).name, trial))
                fin = [bool(np.isfinite(v).all() and np.isfinite(g).all()) for v, g in outs]
                if not any(fin):
                    continue            # outside the common floating-point domain of the two forms
                (v1, g1), (v2, g2) = outs
                ok = all(fin) and np.allclose(v1, v2, rtol=rtol, atol=rtol) and np.allclose(g1, g2, rtol=rtol * 10, atol=rtol * 10)
                if not ok:
                    run.violation(c.name + ".float_values_and_gradients_coincide", "%s operands with rows at different scales (each row well-conditioned): fused form %s, composition %s; "
                                  "values %s vs %s" % (np.dtype(dt).name, "finite" if fin[0] else "NOT finite", "finite" if fin[1] else "NOT finite", v1.ravel()[:4].tolist(), v2.ravel()[:4].tolist()),
                                  key=key, replay={"x": x.tolist(), "upstream": gv.tolist(), "lhs_value": v1.tolist(), "rhs_value": v2.tolist(), "lhs_grad": g1.tolist(), "rhs_grad": g2.tolist(), **key},
                                  reproduced=True)


def special_points_part(run, cases, seed):
    """Bounded, native (float64): the proof explores the branches of a comparison strictly (ties have measure zero), so what a form does AT a tie -- an operand element
    exactly 0, two equal elements -- is evaluated here for the identities whose both sides are smooth there (everything except pooling and max/min, where a tie is a kink
    and any subgradient is right): one leaf at a time gets exact zeros in every other position (leaves with an unrestricted domain only), the others random; values, gradients
    and second-sweep gradients of the two forms must coincide."""
    import random
    for c in cases:
        if not isinstance(c, PairCase) or "pool" in c.name or "max" in c.name or "min" in c.name:
            continue
        rng = random.Random("%s|%s|special" % (c.name, seed))
        pts = []
        for l in c.leaves:
            if l.domain != "any" or not l.shape:
                continue
            for phase in (0, 1):
                vals = {m.name: np.array([domain_sample(rng, m.domain) for _ in var_names(m.name, m.shape)], dtype=np.float64).reshape(m.shape) for m in c.leaves}
                flat = vals[l.name].reshape(-1)
                flat[phase::2] = 0.0
                vals[l.name] = flat.reshape(l.shape)
                pts.append(vals)
        if not pts:
            continue
        run.rt(("special-points", c.name, str(sorted(c.key.items()))[:200]))
        try:
            with np.errstate(all="ignore"):
                rep = c._native(seed, points=pts)
        except Exception as e:
            run.error("special points of %s: %s: %s" % (c.name, type(e).__name__, e))
            continue
        if rep.get("reproduced") and not rep.get("native_exception"):
            finite = all(np.all(np.isfinite(np.asarray(v, dtype=np.float64))) for v in (rep.get("lhs_value"), rep.get("rhs_value")) if v is not None)
            if finite:
                run.violation("%s.forms_coincide_at_exact_zeros" % c.name, "%s %s: with exact zeros in an operand the two forms differ: inputs %s; left gradients %s, right gradients %s" %
                              (c.name, c.key, rep.get("inputs"), rep.get("lhs_grads"), rep.get("rhs_grads")), key={**c.key, "clause": "exact zeros"}, replay=rep)


def large_batch_part(run, seed):
    """Bounded, native (float64): the identities of the convolutions and of linear at batch sizes around and beyond 64 and 128 (blocked / chunked contractions have their
    remainders there); values, gradients and second-sweep gradients of the two forms must coincide."""
    import synapgrad.functional as F
    import synapgrad.nn.functional as NF
    L = Leaf
    cs = []
    for N in (63, 64, 65, 70, 130):
        def conv2_rhs(T, N=N):
            cols = NF.unfold(T["x"], (2, 2), (1, 1), (1, 1), (0, 0))
            out = F.matmul(F.unsqueeze(F.reshape(T["w"], (2, -1)), 0), cols) + F.reshape(T["b"], (1, 2, 1))
            return F.reshape(out, (N, 2, 2, 1))
        cs.append(PairCase("conv2d=unfold;matmul", {"N": N, "HW": (3, 2), "kernel": (2, 2)}, [L("x", (N, 1, 3, 2)), L("w", (2, 1, 2, 2)), L("b", (2,))],
                           lambda T: NF.conv2d(T["x"], T["w"], T["b"]), conv2_rhs))

        def conv1_rhs(T, N=N):
            cols = NF.unfold(F.unsqueeze(T["x"], 2), (1, 2), (1, 1), (1, 1), (0, 0))
            return F.matmul(F.unsqueeze(F.reshape(T["w"], (2, -1)), 0), cols) + F.reshape(T["b"], (1, 2, 1))
        cs.append(PairCase("conv1d=unfold;matmul", {"N": N, "L": 3, "kernel": 2}, [L("x", (N, 2, 3)), L("w", (2, 2, 2)), L("b", (2,))],
                           lambda T: NF.conv1d(T["x"], T["w"], T["b"]), conv1_rhs))
        cs.append(PairCase("linear=x@W.T+b", {"N": N, "in": 2, "out": 2}, [L("x", (N, 2)), L("w", (2, 2)), L("b", (2,))],
                           lambda T: NF.linear(T["x"], T["w"], T["b"]), lambda T: F.matmul(T["x"], F.transpose(T["w"], 0, 1)) + T["b"]))
    for c in cs:
        run.rt(("large-batch", c.name, str(sorted(c.key.items()))))
        try:
            with np.errstate(all="ignore"):
                rep = c._native(seed)
        except Exception as e:
            run.error("large batch of %s: %s: %s" % (c.name, type(e).__name__, e))
            continue
        if rep.get("reproduced"):
            run.violation("%s.forms_coincide_at_large_batches" % c.name, "%s %s: the two forms differ natively%s" % (c.name, c.key, (" (" + rep["native_exception"] + ")") if rep.get("native_exception") else ""),
                          key={**c.key, "clause": "large batch"}, replay={k: v for k, v in rep.items() if k != "inputs"})


def dtype_part(run, seed):
    """bounded, native: the operator identities a - b = a + (-b) and a / b = a * b**-1 on every pairing of operand dtypes a Tensor can hold (floats, signed and
    UNSIGNED integers, bool): both sides are library expressions; they must agree in value (or be refused alike)"""
    from synapgrad.tensor import Tensor
    rng = np.random.RandomState(seed + 5)
    dts = [np.float32, np.float64, np.int32, np.int64, np.uint8, np.uint16, np.bool_]
    for da in dts[:4]:
        for db in dts:
            for shape_a, shape_b in (((2, 3), (2, 3)), ((2, 3), (3,)), ((), (2,))):
                a = np.asarray(rng.randint(1, 200, size=shape_a)).astype(da) if np.dtype(da).kind != "f" else np.asarray(rng.rand(*shape_a) * 100 + 1).astype(da)
                b = np.asarray(rng.randint(1, 120, size=shape_b)).astype(db) if np.dtype(db).kind != "f" else np.asarray(rng.rand(*shape_b) * 100 + 1).astype(db)
                for name, lhs, rhs in (("a-b=a+(-b)", lambda x, y: x - y, lambda x, y: x + (-y)), ("a/b=a*b**-1", lambda x, y: x / y, lambda x, y: x * y ** -1)):
                    run.rt(("operator-identity", name, np.dtype(da).name, np.dtype(db).name, shape_a, shape_b))
                    outs = []
                    for side in (lhs, rhs):
                        try:
                            with np.errstate(all="ignore"):
                                outs.append(np.asarray(side(Tensor(a.copy()), Tensor(b.copy())).data, dtype=np.float64))
                        except Exception as e:
                            outs.append(type(e).__name__)
                    l, r = outs
                    same = (isinstance(l, str) and isinstance(r, str)) or (not isinstance(l, str) and not isinstance(r, str) and l.shape == r.shape and np.allclose(l, r, rtol=1e-5, atol=1e-6))
                    if not same:
                        run.violation(name + ".value_equal_for_every_operand_dtype", "%s with a: %s %s, b: %s %s: fused form gives %s, the composition gives %s" %
                                      (name, np.dtype(da).name, a.tolist(), np.dtype(db).name, b.tolist(), l if isinstance(l, str) else l.tolist(), r if isinstance(r, str) else r.tolist()),
                                      key={"identity": name, "dtype_a": np.dtype(da).name, "dtype_b": np.dtype(db).name}, replay={"a": a.tolist(), "b": b.tolist()}, reproduced=True)


def identities(tier):
    import synapgrad.functional as F
    import synapgrad.nn.functional as NF
    import synapgrad.nn as nn
    from synapgrad.nn.modules import Parameter
    cs = []
    L = Leaf
    FN, NFN = "synapgrad.functional.", "synapgrad.nn.functional."
    # ---- transcendental (eps := 0)
    for (N, C) in [(1, 2), (2, 3)] + ([(3, 3)] if tier == "thorough" else []):
        labs = [[i % C for i in range(N)], [(C - 1 - i) % C for i in range(N)]]
        for lab in labs:
            cs.append(PairCase("cross_entropy=nll(log_softmax)", {"shape": (N, C), "labels": lab}, [L("x", (N, C))],
                               lambda T, lab=lab: NF.cross_entropy(T["x"], _labels(lab)), lambda T, lab=lab: NF.nll_loss(NF.log_softmax(T["x"], 1), _labels(lab)),
                               eps="zero", functions=(NFN + "cross_entropy", NFN + "nll_loss", NFN + "log_softmax"), stress_axis=1))
            for red in ("mean", "sum"):
                cs.append(PairCase("CrossEntropyLoss=NLLLoss(LogSoftmax)", {"shape": (N, C), "labels": lab, "reduction": red}, [L("x", (N, C))],
                                   lambda T, lab=lab, red=red: nn.CrossEntropyLoss(reduction=red)(T["x"], _labels(lab)),
                                   lambda T, lab=lab, red=red: nn.NLLLoss(reduction=red)(nn.LogSoftmax(dim=1)(T["x"]), _labels(lab)), eps="zero"))
    for shape in [(2,), (2, 2)]:
        cs.append(PairCase("bce_with_logits=bce(sigmoid)", {"shape": shape, "targets": "symbolic in (0,1)"}, [L("x", shape), L("t", shape, "unit", False)],
                           lambda T: NF.binary_cross_entropy_with_logits(T["x"], T["t"]), lambda T: NF.binary_cross_entropy(NF.sigmoid(T["x"]), T["t"]),
                           eps="zero", functions=(NFN + "binary_cross_entropy_with_logits", NFN + "binary_cross_entropy", NFN + "sigmoid")))
    for shape, dim in [((3,), 0), ((2, 3), 1), ((2, 3), 0), ((2, 2, 2), -1)]:
        cs.append(PairCase("log_softmax=log(softmax)", {"shape": shape, "dim": dim}, [L("x", shape)],
                           lambda T, dim=dim: NF.log_softmax(T["x"], dim), lambda T, dim=dim: F.log(NF.softmax(T["x"], dim)), eps="zero",
                           functions=(NFN + "log_softmax", NFN + "softmax", FN + "log"), stress_axis=dim))
    # ---- rational identities
    for (N, I, O) in [(2, 3, 2), (1, 2, 1)]:
        cs.append(PairCase("linear=x@W.T+b", {"N": N, "in": I, "out": O, "bias": True}, [L("x", (N, I)), L("w", (O, I)), L("b", (O,))],
                           lambda T: NF.linear(T["x"], T["w"], T["b"]), lambda T: F.matmul(T["x"], F.transpose(T["w"], 0, 1)) + T["b"], functions=(NFN + "linear",)))
        cs.append(PairCase("linear=x@W.T", {"N": N, "in": I, "out": O, "bias": False}, [L("x", (N, I)), L("w", (O, I))],
                           lambda T: NF.linear(T["x"], T["w"]), lambda T: T["x"] @ T["w"].transpose(0, 1)))
    # the input as plain data (first layer of a model) or tracked, a bias of any shape that broadcasts against the product (per sample, per position), inputs of rank 3
    for xs, bs, xflag in [((2, 3), (2,), False), ((2, 3), (2, 2), False), ((2, 3), (2, 2), True), ((2, 3), (1, 2), False), ((2, 3), (2, 1), False), ((2, 2, 3), (2, 2), False),
                          ((2, 2, 3), (2,), False), ((2, 2, 3), (2, 1, 2), True)]:
        cs.append(PairCase("linear=x@W.T+b", {"x_shape": xs, "bias_shape": bs, "x_requires_grad": xflag, "out": 2}, [L("x", xs, "any", xflag), L("w", (2, 3)), L("b", bs)],
                           lambda T: NF.linear(T["x"], T["w"], T["b"]), lambda T: F.matmul(T["x"], F.transpose(T["w"], 0, 1)) + T["b"], functions=(NFN + "linear",)))
    for xs in [(2, 3), (2, 2, 3)]:
        cs.append(PairCase("linear=x@W.T", {"x_shape": xs, "x_requires_grad": False, "out": 2, "bias": False}, [L("x", xs, "any", False), L("w", (2, 3))],
                           lambda T: NF.linear(T["x"], T["w"]), lambda T: F.matmul(T["x"], F.transpose(T["w"], 0, 1)), functions=(NFN + "linear",)))
    for sa in [(2, 2), (2,), (1, 2), ()]:
        cs.append(PairCase("addmm=a+b@c", {"a_shape": sa}, [L("a", sa), L("b", (2, 3)), L("c", (3, 2))],
                           lambda T: F.addmm(T["a"], T["b"], T["c"]), lambda T: T["a"] + T["b"] @ T["c"], functions=(FN + "addmm",)))
    for sa, sb in [((2, 3), (2, 3)), ((2, 3), (3,)), ((), (2,))]:
        cs.append(PairCase("a-b=a+(-b)", {"shapes": [sa, sb]}, [L("a", sa), L("b", sb)], lambda T: T["a"] - T["b"], lambda T: F.add(T["a"], F.neg(T["b"]))))
        cs.append(PairCase("a/b=a*b**-1", {"shapes": [sa, sb]}, [L("a", sa), L("b", sb, "nonzero")], lambda T: T["a"] / T["b"], lambda T: F.mul(T["a"], F.pow(T["b"], -1))))
    for shape, dim in [((2, 3), None), ((2, 3), 0), ((2, 3), -1), ((2, 3, 2), (0, 2)), ((3,), 0), ((2, 3, 2), (0, -1)), ((2, 3), (-2, -1)), ((2, 3, 2), (-2,)), ((2, 3, 2), (2, 0)),
                       ((2, 3, 2), 1), ((), None)]:
        cnt = int(np.prod(shape)) if dim is None else int(np.prod([shape[d] for d in ((dim,) if isinstance(dim, int) else dim)]))
        for keep in (False, True):
            cs.append(PairCase("mean=sum/count", {"shape": shape, "dim": dim, "keepdims": keep}, [L("a", shape)],
                               lambda T, dim=dim, keep=keep: F.mean(T["a"], dim, keep), lambda T, dim=dim, keep=keep, cnt=cnt: F.sum(T["a"], dim, keep) / _const(float(cnt))))     # a tensor divisor: a python float would be inverted in floating point first
    for shape in [(3,), (2, 3)]:
        for dim in range(-(len(shape) + 1), len(shape) + 1):
            cs.append(PairCase("stack=concat(unsqueeze)", {"shape": shape, "dim": dim}, [L("a", shape), L("b", shape)],
                               lambda T, dim=dim: F.stack([T["a"], T["b"]], dim), lambda T, dim=dim: F.concat([F.unsqueeze(T["a"], dim), F.unsqueeze(T["b"], dim)], dim)))
            cs.append(PairCase("unbind(stack)=identity", {"shape": shape, "dim": dim}, [L("a", shape), L("b", shape)],
                               lambda T, dim=dim: F.unbind(F.stack([T["a"], T["b"]], dim), dim)[1] * 1.0, lambda T: T["b"] * 1.0))
    # joins over operands that do and do not require grad (constants in front of and between the differentiable ones): three and four operands
    for shape, dim in [((3,), 0), ((2, 3), 1), ((2, 3), -1)]:
        for flags in [(False, True, True), (True, False, True), (False, True, False, True)]:
            leaves = [L("t%d" % i, shape, "any", fl) for i, fl in enumerate(flags)]
            names = [l.name for l in leaves]
            cs.append(PairCase("stack=concat(unsqueeze)", {"shape": shape, "dim": dim, "requires_grad": list(flags)}, leaves,
                               lambda T, dim=dim, names=names: F.stack([T[n_] for n_ in names], dim), lambda T, dim=dim, names=names: F.concat([F.unsqueeze(T[n_], dim) for n_ in names], dim)))
            cs.append(PairCase("unbind(stack)=identity", {"shape": shape, "dim": dim, "requires_grad": list(flags)}, leaves,
                               lambda T, dim=dim, names=names: F.unbind(F.stack([T[n_] for n_ in names], dim), dim)[len(names) - 1] * 1.0, lambda T, names=names: T[names[-1]] * 1.0))
    for shape in [(2, 3), (2, 3, 2)]:
        n = len(shape)
        for s_ in range(n):
            for e in range(s_, n):
                tgt = shape[:s_] + (-1,) + shape[e + 1:]
                cs.append(PairCase("flatten=reshape", {"shape": shape, "start": s_, "end": e}, [L("a", shape)],
                                   lambda T, s_=s_, e=e: F.flatten(T["a"], s_, e), lambda T, tgt=tgt: F.reshape(T["a"], tgt)))
        for d in range(n - 1):
            # every spelling of the two adjacent dims (non-negative / negative, on either side), both directions; transpose is always given the non-negative pair
            for d0, d1 in ((d, d + 1), (d + 1, d)):
                for s0, s1 in ((d0, d1), (d0 - n, d1 - n), (d0, d1 - n), (d0 - n, d1)):
                    cs.append(PairCase("movedim(adjacent)=transpose", {"shape": shape, "dims": (s0, s1)}, [L("a", shape)],
                                       lambda T, s0=s0, s1=s1: F.movedim(T["a"], s0, s1), lambda T, d0=d0, d1=d1: F.transpose(T["a"], d0, d1)))
    # ---- conv = unfold o matmul ; pool = windows o max/mean
    pairs = [(REP_1D[i], REP_1D[j]) for i, j in ([(1, 2), (3, 6), (4, 7), (8, 0), (5, 5), (9, 11)] if tier == "quick" else itertools.product(range(0, 12, 2), range(1, 12, 3)))]
    for (H, kh, sh, ph, dh), (W, kw, sw, pw, dw) in pairs:
        lH, lW = out_len(H, kh, sh, ph, dh), out_len(W, kw, sw, pw, dw)
        for (N, Ci, Co) in [(1, 1, 1), (2, 2, 2)]:
            if (N, Ci, Co) == (2, 2, 2) and H * W > 16:
                continue

            def conv_rhs(T, k=(kh, kw), d=(dh, dw), s=(sh, sw), p=(ph, pw), N=N, Co=Co, lH=lH, lW=lW):
                cols = NF.unfold(T["x"], k, d, s, p)                             # (N, Ci*kh*kw, L)
                wm = F.reshape(T["w"], (Co, -1))                                  # (Co, Ci*kh*kw)
                out = F.matmul(F.unsqueeze(wm, 0), cols)                          # (N, Co, L)
                out = out + F.reshape(T["b"], (1, Co, 1))
                return F.reshape(out, (N, Co, lH, lW))
            cs.append(PairCase("conv2d=unfold;matmul", {"N": N, "C_in": Ci, "C_out": Co, "HW": (H, W), "kernel": (kh, kw), "stride": (sh, sw), "padding": (ph, pw), "dilation": (dh, dw)},
                               [L("x", (N, Ci, H, W)), L("w", (Co, Ci, kh, kw)), L("b", (Co,))],
                               lambda T, s=(sh, sw), p=(ph, pw), d=(dh, dw): NF.conv2d(T["x"], T["w"], T["b"], s, p, d), conv_rhs,
                               functions=(NFN + "conv2d", NFN + "unfold")))
        if ph <= kh // 2 and pw <= kw // 2 and (2 ** (kh * kw - 1)) ** (lH * lW) <= 600:
            def pool_rhs(T, kind, k=(kh, kw), d=(dh, dw), s=(sh, sw), p=(ph, pw), lH=lH, lW=lW):
                cols = NF.unfold(T["x"], k, d, s, p, float("-inf") if kind == "max" else 0)   # (1, kh*kw, L)
                red = F.max(cols, 1) if kind == "max" else F.mean(cols, 1)
                return F.reshape(red, (1, 1, lH, lW))
            for kind, fn in (("max", NF.max_pool2d), ("avg", NF.avg_pool2d)):
                cs.append(PairCase("%s_pool2d=windows;%s" % (kind, "max" if kind == "max" else "mean"),
                                   {"HW": (H, W), "kernel": (kh, kw), "stride": (sh, sw), "padding": (ph, pw), "dilation": (dh, dw)}, [L("x", (1, 1, H, W))],
                                   lambda T, fn=fn, k=(kh, kw), s=(sh, sw), p=(ph, pw), d=(dh, dw): fn(T["x"], k, s, p, d),
                                   lambda T, kind=kind, pr=pool_rhs: pr(T, kind), functions=(NFN + kind + "_pool2d",), max_paths=2500))
    for (Lx, k, s, p, d) in [(5, 2, 1, 0, 1), (6, 3, 2, 1, 1), (5, 2, 2, 1, 2)]:
        l = out_len(Lx, k, s, p, d)

        def conv1_rhs(T, k=k, s=s, p=p, d=d, l=l):
            x4 = F.unsqueeze(T["x"], 2)                                                # (N, C, 1, L)
            cols = NF.unfold(x4, (1, k), (1, d), (1, s), (0, p))                       # (N, C*k, l)
            wm = F.reshape(T["w"], (2, -1))
            return F.matmul(F.unsqueeze(wm, 0), cols) + F.reshape(T["b"], (1, 2, 1))
        cs.append(PairCase("conv1d=unfold;matmul", {"L": Lx, "kernel": k, "stride": s, "padding": p, "dilation": d}, [L("x", (1, 2, Lx)), L("w", (2, 2, k)), L("b", (2,))],
                           lambda T, s=s, p=p, d=d: NF.conv1d(T["x"], T["w"], T["b"], s, p, d), conv1_rhs, functions=(NFN + "conv1d",)))
    # 1-d pooling with padding (few windows, so every ordering of the operand's elements is a path): the padding never competes with the operand
    for (Lx, k, s, p, d) in [(3, 2, 2, 1, 1), (4, 2, 1, 1, 1), (5, 2, 2, 1, 2), (4, 3, 2, 1, 1), (4, 2, 3, 1, 1)]:
        l = out_len(Lx, k, s, p, d)

        def pool1_rhs(T, kind, k=k, s=s, p=p, d=d, l=l):
            cols = NF.unfold(F.unsqueeze(T["x"], 2), (1, k), (1, d), (1, s), (0, p), float("-inf") if kind == "max" else 0)      # (1, k, l)
            red = F.max(cols, 1) if kind == "max" else F.mean(cols, 1)
            return F.reshape(red, (1, 1, l))
        def pool1_slices(T, kind, k=k, s=s, p=p, d=d, l=l, Lx=Lx):
            # every window assembled by plain element indexing (taps that fall into the padding are left out of the max / count as 0 in the mean): independent of the
            # library's window helpers
            x = T["x"]
            outs = []
            for i in range(l):
                idxs = [i * s - p + j * d for j in range(k) if 0 <= i * s - p + j * d < Lx]
                win = F.stack([x[:, :, t] for t in idxs], 0)
                outs.append(F.max(win, 0) if kind == "max" else F.sum(win, 0) / _const(float(k)))
            return F.stack(outs, 2)
        for kind, fn in (("max", NF.max_pool1d), ("avg", NF.avg_pool1d)):
            cs.append(PairCase("%s_pool1d=slices;%s" % (kind, "max" if kind == "max" else "mean"), {"L": Lx, "kernel": k, "stride": s, "padding": p, "dilation": d}, [L("x", (1, 1, Lx))],
                               lambda T, fn=fn, k=k, s=s, p=p, d=d: fn(T["x"], k, s, p, d), lambda T, kind=kind, pr=pool1_slices: pr(T, kind), functions=(NFN + kind + "_pool1d",), max_paths=2500))
            cs.append(PairCase("%s_pool1d=windows;%s" % (kind, "max" if kind == "max" else "mean"), {"L": Lx, "kernel": k, "stride": s, "padding": p, "dilation": d}, [L("x", (1, 1, Lx))],
                               lambda T, fn=fn, k=k, s=s, p=p, d=d: fn(T["x"], k, s, p, d), lambda T, kind=kind, pr=pool1_rhs: pr(T, kind), functions=(NFN + kind + "_pool1d",), max_paths=2500))
    # ---- modules
    def neuron(T):
        m = nn.Neuron(3)
        m.weight = Parameter(T["w"]); T["w"] = m.weight
        m.bias = Parameter(T["b"]); T["b"] = m.bias
        return m(T["x"])

    def linear1(T):
        m = nn.Linear(3, 1)
        m.weight = Parameter(T["w"]); T["w"] = m.weight
        m.bias = Parameter(T["b"]); T["b"] = m.bias
        return m(T["x"])
    cs.append(PairCase("Neuron=Linear(.,1)", {}, [L("x", (2, 3)), L("w", (1, 3)), L("b", (1,))], neuron, linear1, functions=("synapgrad.nn.layers.Neuron", "synapgrad.nn.layers.Linear")))

    def mods(T):
        l1 = nn.Linear(2, 2)
        l1.weight = Parameter(T["w"]); T["w"] = l1.weight
        l1.bias = Parameter(T["b"]); T["b"] = l1.bias
        return l1, nn.Tanh(), nn.Sigmoid()
    from collections import OrderedDict
    cs.append(PairCase("Sequential=composition", {"form": "positional"}, [L("x", (2, 2)), L("w", (2, 2)), L("b", (2,))],
                       lambda T: nn.Sequential(*mods(T))(T["x"]), lambda T: (lambda m: m[2](m[1](m[0](T["x"]))))(mods(T)), functions=("synapgrad.nn.modules.Sequential.forward",)))
    cs.append(PairCase("Sequential=composition", {"form": "OrderedDict with unsorted keys"}, [L("x", (2, 2)), L("w", (2, 2)), L("b", (2,))],
                       lambda T: (lambda m: nn.Sequential(OrderedDict([("z", m[0]), ("a", m[1]), ("m", m[2])]))(T["x"]))(mods(T)),
                       lambda T: (lambda m: m[2](m[1](m[0](T["x"]))))(mods(T))))
    # the same module object at two positions (shared activation, weight tying): still plain composition, position by position
    def shared_act(T):
        l1, _, _ = mods(T)
        act = nn.Tanh()
        return nn.Sequential(l1, act, l1, act)(T["x"])

    def shared_act_rhs(T):
        l1, _, _ = mods(T)
        act = nn.Tanh()
        return act(l1(act(l1(T["x"]))))
    cs.append(PairCase("Sequential=composition", {"form": "same module object at several positions"}, [L("x", (2, 2)), L("w", (2, 2)), L("b", (2,))], shared_act, shared_act_rhs,
                       functions=("synapgrad.nn.modules.Sequential.forward", "synapgrad.nn.modules.Module.submodules")))
    cs.append(PairCase("Sequential=composition", {"form": "OrderedDict, same module under two keys"}, [L("x", (2, 2)), L("w", (2, 2)), L("b", (2,))],
                       lambda T: (lambda m: nn.Sequential(OrderedDict([("first", m[0]), ("act", m[1]), ("again", m[0])]))(T["x"]))(mods(T)),
                       lambda T: (lambda m: m[0](m[1](m[0](T["x"]))))(mods(T))))
    # more modules than one digit can number (names '0'..'11': any ordering by NAME instead of by registration shows), and digit keys given in a non-numeric order
    class Aff(nn.Module):
        def __init__(self, c, d):
            super().__init__()
            self.c, self.d = c, d

        def forward(self, x):
            return x * self.c + self.d

    def affs(n):
        return [Aff(1.0 + 0.25 * i, float(i) - 3.0) for i in range(n)]

    def compose(ms, x):
        for m in ms:
            x = m(x)
        return x
    for n_ in (11, 12, 23):
        cs.append(PairCase("Sequential=composition", {"form": "positional, %d modules" % n_}, [L("x", (2,))], lambda T, n_=n_: nn.Sequential(*affs(n_))(T["x"]),
                           lambda T, n_=n_: compose(affs(n_), T["x"]), functions=("synapgrad.nn.modules.Sequential.forward", "synapgrad.nn.modules.Sequential.__init__")))
    for keys in (("2", "10", "1"), ("b", "a", "10", "9"), ("01", "1", "0")):
        cs.append(PairCase("Sequential=composition", {"form": "OrderedDict with keys %s" % (keys,)}, [L("x", (2,))],
                           lambda T, keys=keys: nn.Sequential(OrderedDict(zip(keys, affs(len(keys)))))(T["x"]), lambda T, keys=keys: compose(affs(len(keys)), T["x"])))
    cs.append(PairCase("Sequential=composition", {"form": "empty"}, [L("x", (2, 2))], lambda T: nn.Sequential()(T["x"]) * 1.0, lambda T: T["x"] * 1.0))
    cs.append(PairCase("Sequential=composition", {"form": "nested"}, [L("x", (2, 2)), L("w", (2, 2)), L("b", (2,))],
                       lambda T: (lambda m: nn.Sequential(nn.Sequential(m[0], m[1]), nn.Sequential(m[2]))(T["x"]))(mods(T)), lambda T: (lambda m: m[2](m[1](m[0](T["x"]))))(mods(T))))
    return cs


def main(tier="quick", seed=0, procs=None, only=None):
    run = Run("C14", tier, seed, "proof")
    run.assume("reals", "numpy", "shims", "atoms", "engines", "bounded-shapes")
    run.assume("transcendental identities are decided at cpu_ops.epsilon := 0 (the guards 1e-12 are a floating-point matter, see C09) with the structural normal form "
               "exp(s+t)=exp(s)exp(t), exp(log u)=u, log(exp t)=t, log(n/d)=log n-log d for syntactically positive d")
    run.bounds = {"identities": "16 documented identities; shapes of rank <=3, extents <=3; conv/pool geometries: %s pairs of the 12 representative per-axis geometries"
                                % ("6" if tier == "quick" else "24")}
    run.rule = "one case = one identity x one configuration; both sides are real library code on the same symbols; every value / gradient element is one equality obligation"
    cases = identities(tier)
    if only:
        cases = [c for c in cases if only in c.name]
    run_catalogue(run, cases, seed=seed, procs=procs)
    run.assume("floating point: besides the proof over the reals, the softmax-type identities are evaluated natively in float32/float64 on rows at very different scales "
               "(bounded run-time part, counted as bounded evaluations, not as discharged obligations)")
    float_stress(run, cases, seed)
    special_points_part(run, cases, seed)
    large_batch_part(run, seed)
    dtype_part(run, seed)
    return run.finish()
