"""C02 - backward of every nn op / layer / loss yields the exact vector-Jacobian product (symreal)."""
from ..report import Run
from ..symreal.pool import run_catalogue
from ..catalog import nn_ops

BOUNDS = {
    "quick": "conv/pool 1-d: every (L<=6,k<=3,s<=3,p<=2,d<=2) with >=1 window (pool: p<=k//2), (N,C)=(1,1) plus (2,2,2) on a subset, bias on/off; 2-d: 12 representative "
             "per-axis geometries (non-square, stride>kernel, non-tiling, padding, dilation) in a covering product; softmax/log_softmax every dim of ranks 1-3; losses (N,C)<=(3,2)/(2,3) "
             "all label vectors, every reduction; batch-norm 8 modes x shapes (3,2),(2,1),(2,2,2),(2,1,1,2) with symbolic eps, momentum, running statistics; "
             "max-pool / relu-family on every feasible ordering/sign pattern (<=3500 paths per configuration)",
    "thorough": "as quick with L<=8, full 12x12 geometry products, (3,3) losses, larger batch-norm shapes",
}


def main(tier="quick", seed=0, procs=None, only=None):
    run = Run("C02", tier, seed, "proof")
    run.assume("reals", "numpy", "shims", "atoms", "engines", "bounded-shapes")
    run.assume("kinks (relu family at 0, pooling ties) are excluded by strictness: the property allows any subgradient there")
    run.assume("epsilon guards: identities are first attempted for symbolic EPS>=0, then at EPS:=0 ('guard-consistent at eps=0'); the numerical effect of the real 1e-12 is C09's concern")
    run.bounds = {"configuration_space": BOUNDS[tier]}
    run.rule = ("one case = one (op/layer/loss, sizes, geometry, mode, requires_grad subset); per case all feasible paths; every gradient element is one "
                "equality obligation against the symbolic VJP of the forward terms")
    cases = nn_ops.all_cases(tier)
    if only:
        cases = [c for c in cases if only in c.name]
        run.extra["filtered_only"] = only
    from ..catalog import canaries, kernels
    kc = kernels.nn_kernels(tier)             # kernel-level contracts (each cpu_ops backward on its own body)
    if only:
        kc = [c for c in kc if only in c.name]
    run.extra["kernel_level_cases"] = len(kc)
    cases = cases + kc + canaries.tensor_canaries()
    run_catalogue(run, cases, seed=seed, procs=procs)
    return run.finish()
