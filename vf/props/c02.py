"""C02 - backward of every nn op / layer / loss yields the exact vector-Jacobian product (symreal)."""
import numpy as np

from ..report import Run
from ..symreal.pool import run_catalogue
from ..catalog import nn_ops

BOUNDS = {
    "quick": "conv/pool 1-d: every (L<=6,k<=3,s<=3,p<=2,d<=2) with >=1 window (pool: p<=k//2), (N,C)=(1,1) plus (2,2,2) on a subset, bias on/off; 2-d: 12 representative "
             "per-axis geometries (non-square, stride>kernel, non-tiling, padding, dilation) in a covering product; softmax/log_softmax every dim of ranks 1-3; losses (N,C)<=(3,2)/(2,3) "
             "all label vectors, every reduction; batch-norm 8 modes x shapes (3,2),(2,1),(2,2,2),(2,1,1,2) with symbolic eps, momentum, running statistics; "
             "max-pool / relu-family on every feasible ordering/sign pattern (<=3500 paths per configuration)",
    "thorough": "as quick with L<=8, full 12x12 geometry products, (3,3) losses, larger batch-norm shapes",
}


def main(tier="quick", seed=0, procs=None, only=None):
    run = Run("C02", tier, seed, "proof")
    run.assume("reals", "numpy", "shims", "atoms", "engines", "bounded-shapes")
    run.assume("kinks (relu family at 0, pooling ties) are excluded by strictness: the property allows any subgradient there")
    run.assume("epsilon guards: identities are first attempted for symbolic EPS>=0, then at EPS:=0 ('guard-consistent at eps=0'); the numerical effect of the real 1e-12 is C09's concern")
    run.bounds = {"configuration_space": BOUNDS[tier]}
    run.rule = ("one case = one (op/layer/loss, sizes, geometry, mode, requires_grad subset); per case all feasible paths; every gradient element is one "
                "equality obligation against the symbolic VJP of the forward terms")
    cases = nn_ops.all_cases(tier)
    if only:
        cases = [c for c in cases if only in c.name]
        run.extra["filtered_only"] = only
    from ..catalog import canaries, kernels
    kc = kernels.nn_kernels(tier)             # kernel-level contracts (each cpu_ops backward on its own body)
    if only:
        kc = [c for c in kc if only in c.name]
    run.extra["kernel_level_cases"] = len(kc)
    cases = cases + kc + canaries.tensor_canaries()
    run_catalogue(run, cases, seed=seed, procs=procs)
    try:
        native_size_part(run, seed)
    except Exception as e:
        run.error("native size part failed", e)
    return run.finish()


def native_size_part(run, seed):
    """Bounded, native (float64): sizes the symbolic configurations cannot reach.
      (a) batch independence: for linear / conv1d / conv2d / batch-free layers the samples of a batch do not interact, so for N in {65, 100, 129} the input gradient of the
          whole batch is the concatenation, and every parameter gradient the SUM, of what the same call gives on the batch cut into chunks of 1 and of 7 samples (chunks are
          within the sizes proved symbolically);
      (b) windows with more than 256 positions (max / avg pooling with kernels 17x17, 20x20, 1-d kernels of 300 and 700): on operands without ties the upstream gradient of
          each window goes to its arg-max (max) or is spread evenly (avg) -- closed forms."""
    import synapgrad.nn.functional as NF
    from synapgrad.tensor import Tensor
    rng = np.random.RandomState(seed + 21)

    def grads(fn, arrs, flags, g):
        ts = [Tensor(a.copy(), requires_grad=f) for a, f in zip(arrs, flags)]
        out = fn(*ts)
        out.backward(Tensor(g.copy()))
        return np.array(out.data), [None if t._grad is None else np.array(t._grad) for t in ts]
    forms = [("nn.functional.linear", lambda x, w, b: NF.linear(x, w, b), lambda N: (rng.randn(N, 3), rng.randn(2, 3), rng.randn(2))),
             ("nn.functional.conv1d", lambda x, w, b: NF.conv1d(x, w, b, 1, 1, 1), lambda N: (rng.randn(N, 2, 5), rng.randn(3, 2, 2), rng.randn(3))),
             ("nn.functional.conv2d", lambda x, w, b: NF.conv2d(x, w, b, 2, 1, 1), lambda N: (rng.randn(N, 2, 4, 5), rng.randn(2, 2, 2, 3), rng.randn(2)))]
    for name, fn, mk in forms:
        for N in (65, 100, 129):
            x, w, b = mk(N)
            run.rt(("batch-independence", name, N))
            try:
                o_full = fn(Tensor(x), Tensor(w), Tensor(b))
                g = rng.randn(*o_full.shape)
                out, (gx, gw, gb) = grads(fn, (x, w, b), (True, True, True), g)
                bad = None
                for chunk in (1, 7):
                    px, pw, pb, po = [], np.zeros_like(w), np.zeros_like(b), []
                    for i in range(0, N, chunk):
                        o_, (cx, cw, cb) = grads(fn, (x[i:i + chunk], w, b), (True, True, True), g[i:i + chunk])
                        po.append(o_); px.append(cx); pw += cw; pb += cb
                    for what, a_, b_ in (("result", out, np.concatenate(po)), ("input gradient", gx, np.concatenate(px)), ("weight gradient", gw, pw), ("bias gradient", gb, pb)):
                        if a_ is None or a_.shape != b_.shape or not np.allclose(a_, b_, rtol=1e-9, atol=1e-9):
                            bad = "%s of the batch of %d differs from the %s over chunks of %d samples (max abs difference %s)" % (
                                what, N, "sum" if "weight" in what or "bias" in what else "concatenation", chunk, "n/a" if a_ is None or a_.shape != b_.shape else float(np.max(np.abs(a_ - b_))))
                            break
                    if bad:
                        break
            except Exception as e:
                bad = "raised %s: %s" % (type(e).__name__, e)
            if bad:
                run.violation(name + ".backward.samples_of_a_batch_do_not_interact", "%s, batch of %d: %s" % (name, N, bad), key={"op": name, "batch": N}, replay={"op": name, "batch": N, "what": bad})
    pools = [("max_pool2d", (17, 17), (1, 2, 17, 17)), ("max_pool2d", (20, 20), (1, 1, 40, 20)), ("avg_pool2d", (17, 17), (1, 1, 17, 34)), ("max_pool1d", 300, (1, 2, 600)), ("max_pool1d", 700, (2, 1, 700)),
             ("avg_pool1d", 300, (1, 1, 600))]
    for op, k, shape in pools:
        x = rng.permutation(int(np.prod(shape))).reshape(shape).astype(np.float64) * 0.01
        run.rt(("large-window", op, k, shape))
        try:
            t = Tensor(x.copy(), requires_grad=True)
            out = getattr(NF, op)(t, k)
            g = rng.randn(*out.shape)
            out.backward(Tensor(g.copy()))
            exp = np.zeros_like(x)
            kk = (k, k) if isinstance(k, int) and op.endswith("2d") else k
            if op.endswith("2d"):
                for n_, c_, i_, j_ in np.ndindex(*out.shape):
                    win = x[n_, c_, i_ * kk[0]:(i_ + 1) * kk[0], j_ * kk[1]:(j_ + 1) * kk[1]]
                    if op.startswith("max"):
                        a_, b_ = np.unravel_index(np.argmax(win), win.shape)
                        exp[n_, c_, i_ * kk[0] + a_, j_ * kk[1] + b_] += g[n_, c_, i_, j_]
                    else:
                        exp[n_, c_, i_ * kk[0]:(i_ + 1) * kk[0], j_ * kk[1]:(j_ + 1) * kk[1]] += g[n_, c_, i_, j_] / win.size
            else:
                for n_, c_, i_ in np.ndindex(*out.shape):
                    win = x[n_, c_, i_ * k:(i_ + 1) * k]
                    if op.startswith("max"):
                        exp[n_, c_, i_ * k + int(np.argmax(win))] += g[n_, c_, i_]
                    else:
                        exp[n_, c_, i_ * k:(i_ + 1) * k] += g[n_, c_, i_] / k
            bad = None if t._grad is not None and t._grad.shape == exp.shape and np.allclose(t._grad, exp, rtol=1e-9, atol=1e-12) else \
                "input gradient differs from the closed form at %d of %d positions" % (int(np.sum(~np.isclose(t._grad, exp))) if t._grad is not None and t._grad.shape == exp.shape else -1, exp.size)
        except Exception as e:
            bad = "raised %s: %s" % (type(e).__name__, e)
        if bad:
            run.violation("nn.functional.%s.backward.post[x]" % op, "%s with kernel %s on an operand of shape %s without ties: %s" % (op, k, shape, bad), key={"op": op, "kernel": str(k)},
                          replay={"op": op, "kernel": str(k), "shape": list(shape), "what": bad})
