"""C07 - requires_grad propagation and grad-mode contexts behave like a stack.

 * pyvc (unbounded, VCs from the AST of the real source):
     - no_grad / retain_grads: protocol obligation  construct at mode m0; mode becomes m1; enter; body leaves mode m2; exit
       (normal or exceptional)  ==>  mode == m1, and False/True inside;  plus the per-method Hoare triples;
     - Tensor.__init__ flag resolution, requires_grad setter, retain_grad, numpy(), is_leaf;
     - for EVERY op wrapper of functional.py / nn/functional.py: result.requires_grad == (mode /\ any operand flag),
       grad_fn attached iff the result requires grad (the Tensor constructor and the grad_fn setter are replaced by their
       contracts: modular).
   (M2, paper lemma) the enter/exit triples + "the body does not write c.prev" give restoration at every nesting depth.
 * exhaustive finite part on the real code (native): every catalogue op x every operand-flag subset x mode on/off.
 * bounded run-time part: all nestings to depth 4 of the two contexts with exits by exception at every position,
   context objects constructed before entry and reused; retention of gradients after backward.
"""
import ast
import os
import itertools
import sys

import numpy as np
import z3

from ..report import Run
from ..pyvc.engine import Executor, State, Obj, Opaque, Returned, Raised, Unsupported, load_function, run_function, prove
from ..pyvc.harness import Target, TargetCase, run_target, model_value
from ..pyvc import tensor_models as TM
from ..symreal.pool import run_catalogue

TENSOR_PY = "synapgrad/tensor.py"


# ------------------------------------------------------------------------------------------ context manager protocol
class ProtocolCase:
    """{mode=m0} c = CM() ; {mode:=m1} c.__enter__() ; {body: mode:=m2, c.prev untouched} c.__exit__(*) ==> mode == m1"""
    expect = "pyvc"

    def __init__(self, cls, gname, inside):
        self.cls = cls
        self.gname = gname
        self.inside = inside
        self.name = "synapgrad.tensor.%s[protocol]" % cls
        self.key = {"context": cls}
        self.functions = tuple("synapgrad.tensor.%s.%s" % (cls, m) for m in ("__init__", "__enter__", "__exit__"))

    def run(self, seed):
        res = {"name": self.name, "key": dict(self.key), "obligations": 0, "discharged": 0, "backends": {}, "paths": 0, "solver_s": 0.0,
               "failures": [], "undecided": [], "errors": [], "notes": [], "status": "ok", "faithful": 0, "sample": None}
        try:
            fns = {m: load_function(TENSOR_PY, "%s.%s" % (self.cls, m))[0] for m in ("__init__", "__enter__", "__exit__")}
            ex = Executor()
            s0 = State()
            m0, m1, m2 = z3.Bool("m0"), z3.Bool("m1"), z3.Bool("m2")
            other = "retain_grads__" if self.gname == "gradient__" else "gradient__"
            o0 = z3.Bool("other0")
            s0.glob[self.gname] = m0
            s0.glob[other] = o0
            me = Obj(self.cls)
            for s1, o1 in run_function(ex, fns["__init__"], s0, [me]):
                if isinstance(o1, Raised):
                    res["failures"].append(self._fail("constructor_completes", "constructor raised", None))
                    continue
                s1.glob[self.gname] = m1                     # arbitrary mode changes between construction and entry
                s1.env = {}
                for s2, o2 in run_function(ex, fns["__enter__"], s1, [me]):
                    clauses = [("enter_sets_mode_inside", s2.glob[self.gname] == z3.BoolVal(self.inside)),
                               ("enter_leaves_other_mode", s2.glob[other] == o0)]
                    s2f = s2.fork()
                    s2f.glob[self.gname] = m2                # the body may change the mode arbitrarily (nested contexts)
                    s2f.env = {}
                    for s3, o3 in run_function(ex, fns["__exit__"], s2f, [me, Opaque("exc_type"), Opaque("exc_val"), Opaque("exc_tb")]):
                        res["paths"] += 1
                        clauses3 = [("exit_restores_mode_at_entry", s3.glob[self.gname] == m1),
                                    ("exit_leaves_other_mode", s3.glob[other] == o0),
                                    ("exit_does_not_swallow_exceptions", ex.truth(s3, o3.value) is False if isinstance(o3, Returned) else False)]
                        for cname, goal in clauses + clauses3:
                            st_ = s3 if (cname.startswith("exit")) else s2
                            res["obligations"] += 1
                            verdict, model = prove(st_, goal)
                            if verdict == "proved":
                                res["discharged"] += 1
                                res["backends"]["z3"] = res["backends"].get("z3", 0) + 1
                                if res["sample"] is None:
                                    res["sample"] = {"obligation": self.name + "." + cname, "goal": str(goal), "backend": "z3"}
                            elif verdict == "refuted":
                                res["failures"].append(self._fail(cname, "counter-model %s" % model, model, (m0, m1, m2)))
                            else:
                                res["undecided"].append({"obligation": self.name + "." + cname, "reason": "unknown"})
        except Unsupported as e:
            res["status"] = "outside-subset"
            res["notes"].append("outside the pyvc subset: %s" % e)
        except Exception as e:
            import traceback
            res["errors"].append("%s: %s\n%s" % (self.name, e, traceback.format_exc()[-1500:]))
        return res

    def _fail(self, clause, what, model, ms=None):
        rep = {"goal": clause}
        reproduced = False
        if model is not None and ms is not None:
            v = [bool(model_value(model, model.eval(m, model_completion=True))) for m in ms]
            rep["counter_model"] = {"mode_at_construction": v[0], "mode_at_entry": v[1], "mode_left_by_body": v[2]}
            tm = sys.modules.get("synapgrad.tensor") or __import__("synapgrad").tensor and sys.modules["synapgrad.tensor"]
            saved = (tm.gradient__, tm.retain_grads__)
            try:
                setattr(tm, self.gname, v[0])
                c = getattr(tm, self.cls)()
                setattr(tm, self.gname, v[1])
                c.__enter__()
                inside = getattr(tm, self.gname)
                setattr(tm, self.gname, v[2])
                c.__exit__(None, None, None)
                after = getattr(tm, self.gname)
                rep["native"] = {"inside": inside, "after_exit": after, "expected_after_exit": v[1]}
                if clause == "exit_restores_mode_at_entry":
                    reproduced = after != v[1]
                elif clause == "enter_sets_mode_inside":
                    reproduced = inside != self.inside
            finally:
                tm.gradient__, tm.retain_grads__ = saved
        return {"obligation": "%s.%s" % (self.name.replace("[protocol]", ""), clause), "what": "%s: %s; native replay %s" % (clause, what, rep.get("native")),
                "reproduced": reproduced, "replay": rep, "solver": "z3", "answer": "sat"}


# ----------------------------------------------------------------------------------------------- Tensor methods
def tensor_targets():
    ts = []

    # ---- Tensor.__init__ : dtypes are symbolic codes, ISFP an uninterpreted predicate on them; astype() yields an array of the requested dtype
    ISFP = z3.Function("is_floating_dtype", z3.IntSort(), z3.BoolSort())
    for dtype_given in (False, True):
        def setup_init(ex, dtype_given=dtype_given):
            s = TM.base_state()
            s.glob["F"] = Opaque("F")
            s.glob["default_type__"] = Opaque("default_type")
            me = Obj("Tensor")
            data = Obj("ndarray")
            d0 = z3.Int("dtype_of_data")
            s.attrs(data)["dtype"] = d0
            dp = z3.Int("dtype_argument") if dtype_given else None
            rg = z3.Bool("requires_grad")

            def isfp_of(ex_, st, o):
                d = st.attrs(o)["data"]
                return ISFP(st.attrs(d)["dtype"])
            ex.attr_models[("Tensor", "is_floating_point")] = isfp_of

            def utils_isfp(ex_, st, args, kw):
                a = args[0]
                if isinstance(a, Obj) and a.cls == "Tensor":
                    a = st.attrs(a)["data"]
                return ISFP(st.attrs(a)["dtype"])
            ex.models["utils.is_floating_point"] = utils_isfp

            def astype(ex_, st, args, kw):
                n = Obj("ndarray")
                st.attrs(n)["dtype"] = args[1]
                return n
            ex.models["ndarray.astype"] = astype
            children = (Obj("Tensor"),)
            ctx = {"me": me, "rg": rg, "G": s.glob["gradient__"], "children": children, "d0": d0, "dp": dp, "ISFP": ISFP}
            return s, ([me, data], {"children": children, "requires_grad": rg, "dtype": dp}), ctx

        def ens_init(ctx, s, out):
            final = ctx["d0"] if ctx["dp"] is None else ctx["dp"]            # astype(dtype) when it differs, else already equal
            should_raise = z3.And(ctx["rg"], ctx["G"], z3.Not(ctx["ISFP"](final)))
            if isinstance(out, Raised):
                return [("raises_only_for_non_float_requiring_grad", should_raise)]
            a = s.attrs(ctx["me"])
            stored = a.get("data")
            return [("accepts_unless_non_float_requiring_grad", z3.Not(should_raise)),
                    ("stored_data_has_the_requested_dtype", isinstance(stored, Obj) and s.attrs(stored)["dtype"] == final),
                    ("requires_grad_is_flag_and_mode", a.get("_requires_grad") == z3.And(ctx["rg"], ctx["G"])),
                    ("fresh_tensor_has_no_grad", a.get("_grad", 0) is None),
                    ("fresh_tensor_has_no_grad_fn", a.get("_grad_fn", 0) is None),
                    ("retain_flag_off", a.get("_retain_grad") is False)]
        ex_init = lambda: _tensor_executor(extra_havoc={"lazy_import", "Tensor.copy_from"})
        ts.append(Target("synapgrad.tensor.Tensor.__init__[dtype argument %s]" % ("given" if dtype_given else "omitted"), TENSOR_PY, "Tensor.__init__", setup_init, ens_init,
                         executor=ex_init, key={"dtype_argument": dtype_given}))

    # ---- Tensor.__init__ when the data argument is itself a Tensor (the route taken by Parameter(t)): the class invariant "requires grad => floating dtype" and the mode rule
    #      survive whatever keyword arguments come along; Tensor.copy_from is used through its contract (every attribute of the source is bound on self) and discharged below
    def copy_contract(ex_, st, args, kw):
        st.attrs(args[0]).update(st.attrs(args[1]))
        return None

    def setup_from(ex):
        s = TM.base_state()
        s.glob["F"] = Opaque("F")
        s.glob["default_type__"] = Opaque("default_type")
        me, src, arr = Obj("Tensor"), Obj("Tensor"), Obj("ndarray")
        d_src, dp = z3.Ints("dtype_of_source dtype_argument")
        rg_src, rg, dt_given = z3.Bools("source_requires_grad requires_grad dtype_given")
        s.attrs(arr)["dtype"] = d_src
        s.attrs(src).update(data=arr, _requires_grad=rg_src, _grad=None, _grad_fn=None, _retain_grad=False, _children=(), _operation=None, _name=None, device=Opaque("device"), _initialized=True)
        s.pc.append(z3.Implies(rg_src, ISFP(d_src)))            # the source satisfies the class invariant

        def isfp_of(ex_, st, o):
            return ISFP(st.attrs(st.attrs(o)["data"])["dtype"])
        ex.attr_models[("Tensor", "is_floating_point")] = isfp_of
        ex.attr_models[("Tensor", "dtype")] = lambda ex_, st, o: st.attrs(st.attrs(o)["data"])["dtype"]

        def astype(ex_, st, args, kw):
            n_ = Obj("ndarray")
            st.attrs(n_)["dtype"] = args[1]
            return n_
        ex.models["ndarray.astype"] = astype
        ex.models["Tensor.copy_from"] = copy_contract
        ctx = {"me": me, "src": src, "rg_src": rg_src, "rg": rg, "G": s.glob["gradient__"], "dp": dp, "ISFP": ISFP}
        return s, ([me, src], {"requires_grad": rg, "dtype": dp, "children": (), "name": Opaque("name")}), ctx

    def ens_from(ctx, s, out):
        if isinstance(out, Raised):
            return [("refuses_only_what_would_break_the_invariant", z3.BoolVal(True))]
        a = s.attrs(ctx["me"])
        stored, flag = a.get("data"), a.get("_requires_grad")
        if not isinstance(stored, Obj) or flag is None:
            return [("takes_over_data_and_flag_of_the_source", False)]
        flag = flag if z3.is_expr(flag) else z3.BoolVal(bool(flag))
        return [("requires_grad_only_with_a_floating_dtype", z3.Implies(flag, ctx["ISFP"](s.attrs(stored)["dtype"]))),
                ("requires_grad_only_if_the_source_did_or_asked_for_while_tracking", z3.Implies(flag, z3.Or(ctx["rg_src"], z3.And(ctx["rg"], ctx["G"]))))]
    ts.append(Target("synapgrad.tensor.Tensor.__init__[data is a Tensor]", TENSOR_PY, "Tensor.__init__", setup_from, ens_from,
                     executor=lambda: _tensor_executor(extra_havoc={"lazy_import"}), key={"data": "Tensor"}))

    def setup_copy(ex):
        s = TM.base_state()
        me, src = Obj("Tensor"), Obj("Tensor")
        vals = {k: Opaque(k) for k in ("data", "_requires_grad", "_grad", "_grad_fn", "_children", "_name", "device")}
        s.attrs(src).update(vals)
        s.attrs(me).update(data=Opaque("old_data"), _requires_grad=Opaque("old_flag"), own_only=Opaque("own"))
        return s, [me, src], {"me": me, "src": src, "vals": vals}

    def ens_copy(ctx, s, out):
        if isinstance(out, Raised):
            return [("completes", False)]
        a, b = s.attrs(ctx["me"]), s.attrs(ctx["src"])
        return [("every_attribute_of_the_source_is_bound_on_self", all(a.get(k) is v for k, v in ctx["vals"].items())),
                ("the_source_is_left_as_it_was", all(b.get(k) is v for k, v in ctx["vals"].items()) and set(b) == set(ctx["vals"])),
                ("the_two_objects_keep_separate_attribute_tables", s.attrs(ctx["me"]) is not s.attrs(ctx["src"]))]
    ts.append(Target("synapgrad.tensor.Tensor.copy_from", TENSOR_PY, "Tensor.copy_from", setup_copy, ens_copy, executor=_tensor_executor))

    # ---- requires_grad setter
    def setup_set(ex):
        s = TM.base_state()
        me = TM.new_tensor(s, "t")
        gf = z3.Bool("has_grad_fn")
        isfp = z3.Bool("is_floating_point")
        ex.attr_models[("Tensor", "is_floating_point")] = lambda ex_, st, o: isfp
        ex.attr_models[("Tensor", "is_leaf")] = lambda ex_, st, o: z3.Or(z3.Not(st.attrs(o)["_requires_grad"]), z3.Not(gf))
        v = z3.Bool("value")
        ctx = {"me": me, "old": s.attrs(me)["_requires_grad"], "gf": gf, "isfp": isfp, "v": v}
        return s, [me, v], ctx

    def ens_set(ctx, s, out):
        nonleaf = z3.And(ctx["old"], ctx["gf"])
        bad = z3.Or(nonleaf, z3.And(ctx["v"], z3.Not(ctx["isfp"])))
        if isinstance(out, Raised):
            return [("raises_only_for_non_leaf_or_non_float", bad), ("flag_unchanged_when_rejected", s.attrs(ctx["me"])["_requires_grad"] == ctx["old"])]
        return [("accepts_leaf_float", z3.Not(bad)), ("flag_set", s.attrs(ctx["me"])["_requires_grad"] == ctx["v"])]
    ts.append(Target("synapgrad.tensor.Tensor.requires_grad[setter]", TENSOR_PY, "Tensor.requires_grad@setter", setup_set, ens_set, executor=_tensor_executor))

    # ---- is_leaf
    def setup_leaf(ex):
        s = TM.base_state()
        me = TM.new_tensor(s, "t")
        gfn = Opaque("grad_fn")
        s.attrs(me)["_grad_fn"] = gfn
        return s, [me], {"me": me, "rq": s.attrs(me)["_requires_grad"], "none": z3.Bool("isnone(%s)" % gfn.label)}

    def ens_leaf(ctx, s, out):
        if isinstance(out, Raised):
            return [("completes", False)]
        v = out.value
        return [("is_leaf_iff_not_requiring_or_no_grad_fn", (v if not isinstance(v, bool) else z3.BoolVal(v)) == z3.Or(z3.Not(ctx["rq"]), ctx["none"]))]
    ts.append(Target("synapgrad.tensor.Tensor.is_leaf", TENSOR_PY, "Tensor.is_leaf", setup_leaf, ens_leaf, executor=_tensor_executor))

    # ---- retain_grad / numpy
    def setup_simple(ex):
        s = TM.base_state()
        me = TM.new_tensor(s, "t")
        return s, [me], {"me": me, "rq": s.attrs(me)["_requires_grad"]}

    def ens_retain(ctx, s, out):
        if isinstance(out, Raised):
            return [("raises_only_without_requires_grad", z3.Not(ctx["rq"])), ("flag_untouched_when_rejected", s.attrs(ctx["me"])["_retain_grad"] is False)]
        return [("accepted_only_with_requires_grad", ctx["rq"]), ("retain_flag_set", s.attrs(ctx["me"])["_retain_grad"] is True)]
    ts.append(Target("synapgrad.tensor.Tensor.retain_grad", TENSOR_PY, "Tensor.retain_grad", setup_simple, ens_retain, executor=_tensor_executor))

    def ens_numpy(ctx, s, out):
        if isinstance(out, Raised):
            return [("raises_only_when_requiring_grad", ctx["rq"])]
        return [("returns_only_when_not_requiring_grad", z3.Not(ctx["rq"]))]
    ts.append(Target("synapgrad.tensor.Tensor.numpy", TENSOR_PY, "Tensor.numpy", setup_simple, ens_numpy, executor=_tensor_executor))

    # ---- grad_fn setter (its contract is what tensor_models.grad_fn_setter assumes for callers)
    def setup_gfs(ex):
        s = TM.base_state()
        me = TM.new_tensor(s, "t")
        fnobj = Obj("BackwardFunction")
        return s, [me, fnobj], {"me": me, "rq": s.attrs(me)["_requires_grad"], "fn": fnobj}

    def ens_gfs(ctx, s, out):
        if isinstance(out, Raised):
            return [("raises_only_without_requires_grad", z3.Not(ctx["rq"])), ("not_attached_when_rejected", s.attrs(ctx["me"])["_grad_fn"] is None)]
        return [("accepted_only_with_requires_grad", ctx["rq"]), ("attached", s.attrs(ctx["me"])["_grad_fn"] is ctx["fn"])]

    def ex_gfs():
        ex = _tensor_executor()
        ex.setattr_models.pop(("Tensor", "grad_fn"), None)
        return ex
    ts.append(Target("synapgrad.tensor.Tensor.grad_fn[setter]", TENSOR_PY, "Tensor.grad_fn@setter", setup_gfs, ens_gfs, executor=ex_gfs))
    return ts


def _tensor_executor(extra_havoc=()):
    ex = TM.make_executor(havoc=set(extra_havoc) | {"Device", "RuntimeError", "TypeError", "ValueError"})
    return ex


# --------------------------------------------------------------------------------------------- op wrapper flag logic
NON_OPERANDS = {"running_mean", "running_var"}


def wrapper_targets():
    ts = []
    for relpath, mod in (("synapgrad/functional.py", "synapgrad.functional"), ("synapgrad/nn/functional.py", "synapgrad.nn.functional")):
        src = open(os.path.join(os.environ.get("VERIF_REPO", "/repo"), relpath)).read()
        tree = ast.parse(src)
        for fn in tree.body:
            if not isinstance(fn, ast.FunctionDef) or fn.name.startswith("_"):
                continue
            params = fn.args.args
            defaults = [None] * (len(params) - len(fn.args.defaults)) + list(fn.args.defaults)
            kinds = []
            for p, d in zip(params, defaults):
                ann = ast.unparse(p.annotation) if p.annotation is not None else ""
                if "list" in ann and "Tensor" in ann:
                    kinds.append("tensor_list")
                elif "Tensor" in ann:
                    kinds.append("tensor_optional" if (isinstance(d, ast.Constant) and d.value is None) else "tensor")
                else:
                    kinds.append("other")
            if not any(k.startswith("tensor") for k in kinds):
                continue
            opt = [i for i, k in enumerate(kinds) if k == "tensor_optional"]
            for present in itertools.product([True, False], repeat=len(opt)):
                pres = dict(zip(opt, present))
                ts.append(_wrapper_target(relpath, mod, fn.name, [p.arg for p in params], kinds, defaults, pres))
    return ts


def _wrapper_target(relpath, mod, fname, pnames, kinds, defaults, pres):
    def setup(ex):
        s = TM.base_state()
        args = []
        operands = []
        for i, (p, k) in enumerate(zip(pnames, kinds)):
            if k == "tensor" or (k == "tensor_optional" and pres[i]):
                t = TM.new_tensor(s, p)
                args.append(t)
                if p not in NON_OPERANDS:
                    operands.append(t)
            elif k == "tensor_optional":
                args.append(None)
            elif k == "tensor_list":
                l = [TM.new_tensor(s, p + "0"), TM.new_tensor(s, p + "1")]
                args.append(l)
                operands.extend(l)
            else:
                d = defaults[i]
                if d is not None and isinstance(d, ast.Constant):
                    args.append(d.value)
                else:
                    o = Opaque(p)
                    args.append(o)
        flags = [s.attrs(t)["_requires_grad"] for t in operands]
        return s, args, {"flags": flags, "G": s.glob["gradient__"], "operands": operands}

    def ensures(ctx, s, out):
        if isinstance(out, Raised):
            return []          # rejections are C05/C06's business
        r = out.value
        if not isinstance(r, Obj):
            return [("returns_a_tensor", False)]
        a = s.attrs(r)
        expect = z3.And(ctx["G"], z3.Or(*ctx["flags"])) if ctx["flags"] else z3.BoolVal(False)
        gf = a.get("_grad_fn")
        has_fn = gf is not None
        return [("result_requires_grad_iff_mode_and_any_operand", a["_requires_grad"] == expect),
                ("grad_fn_attached_iff_result_requires_grad", a["_requires_grad"] == z3.BoolVal(has_fn))]
    variant = ",".join("%s=%s" % (pnames[i], "Tensor" if v else "None") for i, v in pres.items())
    return Target("%s.%s[flags]" % (mod, fname), relpath, fname, setup, ensures, executor=lambda: _tensor_executor(extra_havoc={"len"}),
                  key={"wrapper": fname, "optional": variant})


# ------------------------------------------------------------------------------------------- exhaustive finite part
def native_flag_table(run, tier):
    """every catalogue op x every operand-flag subset x mode on/off, on the real code (float64)"""
    from ..catalog import tensor_ops, nn_ops
    from ..symreal import shim
    from ..symreal.harness import sample_point, _native_leaves
    import random
    from synapgrad.tensor import Tensor
    tm = sys.modules["synapgrad.tensor"]
    cases = tensor_ops.all_cases("quick") + nn_ops.all_cases("quick")
    seen_ops = {}
    picked = []
    for c in cases:
        if c.key.get("layer_reused_before_backward"):
            continue            # auxiliary operands that do not feed the result: "any operand requires grad" is not the rule for these programs
        k = (c.name, len(c.leaves))
        # per op: the first cases, plus every case that shows a configuration value not seen yet for that op (each-value coverage: a no-op squeeze, a 1-d matmul, ...)
        vals = seen_ops.setdefault((k, "values"), set())
        new = {(kk, repr(v)) for kk, v in c.key.items()} - vals
        if seen_ops.get(k, 0) < (2 if tier == "quick" else 6) or (new and seen_ops.get(k, 0) < (12 if tier == "quick" else 40)):
            seen_ops[k] = seen_ops.get(k, 0) + 1
            vals |= new
            picked.append(c)
    rng = random.Random(0)
    n = 0
    for c in picked:
        p = sample_point(c, rng)
        L = len(c.leaves)
        for flags in itertools.product([True, False], repeat=L):
            for mode in (True, False):
                saved = [l.requires_grad for l in c.leaves]
                try:
                    for l, f in zip(c.leaves, flags):
                        l.requires_grad = f
                    with shim.native():
                        tm.gradient__ = True
                        T, K = _native_leaves(c, p)          # leaves are created with grad mode on
                        tm.gradient__ = mode
                        try:
                            out = c.build(T, K)
                        except Exception:
                            continue
                        finally:
                            tm.gradient__ = True
                    outs = out if isinstance(out, (tuple, list)) else [out]
                    for o in outs:
                        if any(o is t for t in T.values()) and not c.name.startswith(("functional.", "nn.functional.", "Tensor.")):
                            continue            # a LAYER documented as the identity (Dropout in eval mode returns its operand, as in PyTorch): nothing was computed.
                                                # The op wrappers always compute a result: handing the operand back is judged like any other result
                        n += 1
                        run.rt(("flags", c.name, flags, mode))
                        # the operands as seen by the op (layers replace parameters: read the flags actually in force)
                        eff = [T[l.name].requires_grad for l in c.leaves]
                        expect = mode and any(eff)
                        key = {"op": c.name, "flags": list(flags), "mode": mode, "case": c.key.get("op", c.name)}
                        if o.requires_grad != expect:
                            run.violation("%s.result_requires_grad_iff_mode_and_any_operand" % c.name,
                                          "requires_grad=%s, expected %s (mode=%s, operand flags=%s)" % (o.requires_grad, expect, mode, eff), key=key,
                                          replay={"config": c.describe(), "flags": list(flags), "mode": mode})
                            continue
                        if not o.requires_grad:
                            ok_fn = o.grad_fn is None
                            try:
                                o.backward(Tensor(np.ones(o.shape)))
                                refused = False
                            except RuntimeError:
                                refused = True
                            except Exception:
                                refused = True
                            if not (ok_fn and refused and o._grad is None):
                                run.violation("%s.untracked_result_has_no_history" % c.name, "grad_fn None=%s, backward refused=%s, grad None=%s"
                                              % (ok_fn, refused, o._grad is None), key=key, replay={"config": c.describe(), "flags": list(flags), "mode": mode})
                        elif o.grad_fn is None and not any(o is T[l.name] for l in c.leaves):
                            run.violation("%s.tracked_result_has_grad_fn" % c.name, "result requires grad but has no grad_fn", key=key,
                                          replay={"config": c.describe(), "flags": list(flags), "mode": mode})
                finally:
                    for l, f in zip(c.leaves, saved):
                        l.requires_grad = f
    run.extra["native_flag_table_evaluations"] = n


# ------------------------------------------------------------------------------------------------ bounded run-time part
class Boom(Exception):
    pass


def nesting_programs(depth):
    """all sequences over {push no_grad, push retain_grads, push pre-constructed no_grad, push pre-constructed retain_grads} of length <= depth,
    with an exception raised at any level (or not at all)"""
    kinds = ["ng", "rg", "ng_pre", "rg_pre"]
    for d in range(1, depth + 1):
        for seq in itertools.product(kinds, repeat=d):
            for boom in [None] + list(range(d)):
                yield seq, boom


def _under(ctx, fn):
    with ctx():
        return fn()


def runtime_part(run, tier):
    import synapgrad
    from synapgrad.tensor import Tensor
    tm = sys.modules["synapgrad.tensor"]
    depth = 3 if tier == "quick" else 4
    for init in ((True, False), (False, True), (True, True), (False, False)):
        for seq, boom in nesting_programs(depth):
            tm.gradient__, tm.retain_grads__ = init
            # pre-constructed contexts are created up-front, at a time when the modes differ from those at entry
            tm.gradient__, tm.retain_grads__ = (not init[0]), (not init[1])
            pre = [tm.no_grad() if k == "ng_pre" else (tm.retain_grads() if k == "rg_pre" else None) for k in seq]
            tm.gradient__, tm.retain_grads__ = init
            log = []

            def enter(i):
                if i == len(seq):
                    if boom is not None and False:
                        pass
                    return
                k = seq[i]
                before = (tm.gradient__, tm.retain_grads__)
                cm = pre[i] if pre[i] is not None else (tm.no_grad() if k == "ng" else tm.retain_grads())
                try:
                    with cm:
                        inside = (tm.gradient__, tm.retain_grads__)
                        exp_inside = (False, before[1]) if k.startswith("ng") else (before[0], True)
                        log.append(("inside", i, inside == exp_inside, inside, exp_inside))
                        enter(i + 1)
                        if boom == i:
                            raise Boom()
                finally:
                    after = (tm.gradient__, tm.retain_grads__)
                    log.append(("after", i, after == before, after, before))
            try:
                enter(0)
            except Boom:
                pass
            run.rt(("nest", init, seq, boom))
            bad = [l for l in log if not l[2]]
            if bad:
                pre_used = any(k.endswith("_pre") for k in seq)
                what = bad[0]
                run.violation("synapgrad.tensor.%s.%s" % ("no_grad" if seq[what[1]].startswith("ng") else "retain_grads",
                                                          "exit_restores_mode_at_entry" if what[0] == "after" else "enter_sets_mode_inside"),
                              "nesting %s from modes %s, exception at level %s: level %d %s modes %s, expected %s" % (seq, init, boom, what[1], what[0], what[3], what[4]),
                              key={"nesting": list(seq), "initial": list(init), "exception_at": boom, "preconstructed_context": pre_used,
                                   "failing_context_preconstructed": seq[what[1]].endswith("_pre")},
                              replay={"nesting": list(seq), "initial_modes": list(init), "exception_at": boom, "log": [list(map(str, l)) for l in log]})
    # lifetimes that OVERLAP without nesting (explicit __enter__/__exit__, or a generator that holds a context across its yields): every order of entering and leaving 2 or 3
    # contexts; on exit each restores ITS mode to the value in force when IT was entered and leaves the other mode alone
    def interleavings(n):
        def rec(prefix, entered, left):
            if len(left) == n:
                yield tuple(prefix)
                return
            for i in range(n):
                if i not in entered:
                    yield from rec(prefix + [(i, "+")], entered | {i}, left)
                elif i not in left:
                    yield from rec(prefix + [(i, "-")], entered, left | {i})
        return rec([], frozenset(), frozenset())
    for n_ctx in (2, 3):
        for kinds in itertools.product(("ng", "rg"), repeat=n_ctx):
            for order in interleavings(n_ctx):
                for init in ((True, False), (False, True)):
                    for exc in (False, True):
                        tm.gradient__, tm.retain_grads__ = init
                        cms = [tm.no_grad() if k == "ng" else tm.retain_grads() for k in kinds]
                        ghost, saved, bad = list(init), {}, None
                        for step, (i, what) in enumerate(order):
                            j = 0 if kinds[i] == "ng" else 1
                            if what == "+":
                                saved[i] = ghost[j]
                                ghost[j] = (j == 1)
                                cms[i].__enter__()
                            else:
                                ghost[j] = saved[i]
                                cms[i].__exit__(*((Boom, Boom(), None) if exc else (None, None, None)))
                            if (tm.gradient__, tm.retain_grads__) != tuple(ghost):
                                bad = (step, i, what, (tm.gradient__, tm.retain_grads__), tuple(ghost))
                                break
                        run.rt(("overlap", kinds, order, init, exc))
                        if bad:
                            run.violation("synapgrad.tensor.%s.%s" % ("no_grad" if kinds[bad[1]] == "ng" else "retain_grads", "exit_restores_mode_at_entry" if bad[2] == "-" else "enter_sets_mode_inside"),
                                          "contexts %s entered/left in the order %s from modes %s%s: after step %d the modes (gradient, retain) are %s, each context restoring the mode in force at its own entry gives %s"
                                          % (kinds, ["%s%d" % (w, i) for i, w in order], init, ", exits with an exception" if exc else "", bad[0], bad[3], bad[4]),
                                          key={"contexts": list(kinds), "order": ["%s%d" % (w, i) for i, w in order], "initial": list(init), "overlapping_lifetimes": True},
                                          replay={"contexts": list(kinds), "order": ["%s%d" % (w, i) for i, w in order], "initial_modes": list(init), "with_exception": exc})
    tm.gradient__, tm.retain_grads__ = True, False
    # retention after backward: leaves keep, root keeps, interiors release unless retain_grad / retain_grads
    for use_ctx, use_mark, zero_up in itertools.product([False, True], repeat=3):
        a = Tensor(np.array([1.0, 2.0]), requires_grad=True)
        b = Tensor(np.array([3.0, 4.0]), requires_grad=False)
        m = a * b
        k = m + a
        if use_mark:
            m.retain_grad()
        # zero_up: the gradient arriving at the interior nodes is exactly zero (masked branch, dead relu): the rules do not depend on values
        r = (k * Tensor(np.zeros(2))).sum() if zero_up else k.sum()
        if use_ctx:
            with tm.retain_grads():
                r.backward()
        else:
            r.backward()
        run.rt(("retention", use_ctx, use_mark, zero_up))
        facts = {"leaf_keeps": a._grad is not None, "non_requiring_leaf_none": b._grad is None, "root_keeps": r._grad is not None,
                 "marked_interior": (m._grad is not None) == (use_mark or use_ctx), "unmarked_interior": (k._grad is not None) == use_ctx}
        for name, ok in facts.items():
            if not ok:
                run.violation("synapgrad.tensor.Tensor.backward.retention." + name, "retention rule violated (retain_grads ctx=%s, retain_grad mark=%s, upstream gradient all zero=%s)" % (use_ctx, use_mark, zero_up),
                              key={"clause": name, "under_retain_grads": use_ctx, "marked": use_mark, "zero_upstream": zero_up}, replay={"facts": facts})
    # backward inside no_grad still differentiates a graph recorded outside
    a = Tensor(np.array([1.0, 2.0]), requires_grad=True)
    r = (a * a).sum()
    with tm.no_grad():
        r.backward()
    run.rt("backward-inside-no_grad")
    if a._grad is None or not np.allclose(a._grad, [2.0, 4.0]):
        run.violation("synapgrad.tensor.Tensor.backward.inside_no_grad", "backward under no_grad gave %s" % (a._grad,), key={"clause": "backward_inside_no_grad"}, replay={})
    # only floating tensors can be made to require grad
    for dt in (np.int32, np.int64, np.bool_):
        run.rt(("int-requires-grad", np.dtype(dt).name))
        try:
            Tensor(np.array([1, 2], dtype=dt), requires_grad=True)
            run.violation("synapgrad.tensor.Tensor.__init__.only_float_requires_grad", "non-floating tensor accepted requires_grad=True", key={"dtype": np.dtype(dt).name}, replay={})
        except RuntimeError:
            pass
        t = Tensor(np.array([1, 2], dtype=dt))
        try:
            t.requires_grad = True
            run.violation("synapgrad.tensor.Tensor.requires_grad.only_float", "setter accepted requires_grad=True on a non-floating tensor", key={"dtype": np.dtype(dt).name}, replay={})
        except RuntimeError:
            pass
    # the floating-point rule applies to the dtype the tensor ENDS UP with (dtype= argument, constructor helpers)
    import synapgrad as sg
    for name, mk, is_float in [("Tensor(float data, dtype=int32)", lambda: Tensor(np.array([1.5, 2.5]), requires_grad=True, dtype=np.int32), False),
                               ("Tensor(int data, dtype=float32)", lambda: Tensor(np.array([1, 2]), requires_grad=True, dtype=np.float32), True),
                               ("ones(dtype=int32)", lambda: sg.ones(3, dtype=np.int32, requires_grad=True), False), ("zeros(dtype=float64)", lambda: sg.zeros(3, dtype=np.float64, requires_grad=True), True),
                               ("tensor(list, dtype=int64)", lambda: sg.tensor([1.5], dtype=np.int64, requires_grad=True), False), ("arange(dtype=float64)", lambda: sg.arange(3, dtype=np.float64, requires_grad=True), True)]:
        run.rt(("dtype-arg-requires-grad", name))
        try:
            t = mk()
            ok = is_float and t.requires_grad and t.is_floating_point
            what = "accepted, dtype %s requires_grad=%s" % (t.dtype, t.requires_grad)
        except RuntimeError:
            ok = not is_float
            what = "raised RuntimeError"
        if not ok:
            run.violation("synapgrad.tensor.Tensor.__init__.only_float_requires_grad", "%s: %s" % (name, what), key={"constructor": name, "clause": "final dtype decides"}, replay={})
    # "a result that does not require grad never acquires a .grad" -- also when it is made from a tensor that already HOLDS one (a leaf after backward, the root, a retained
    # interior tensor), and whatever is swept afterwards
    import synapgrad.functional as F_
    for dt in (np.float32, np.float64):
        a = Tensor(np.array([1.0, 2.0], dtype=dt), requires_grad=True)
        m = a * 3.0
        m.retain_grad()
        y = (m * m).sum()
        y.backward()
        holders = {"leaf after backward": a, "retained interior tensor": m, "root": y}
        makers = {"detach()": lambda t: t.detach(), "op under no_grad": lambda t: _under(tm.no_grad, lambda: t * 2.0), "unary op under no_grad": lambda t: _under(tm.no_grad, lambda: F_.exp(t)),
                  "reshape under no_grad": lambda t: _under(tm.no_grad, lambda: F_.reshape(t, t.shape)), "clone under no_grad": lambda t: _under(tm.no_grad, lambda: t.clone())}
        made = []
        for hname, h in holders.items():
            for mname, mk_ in makers.items():
                run.rt(("untracked-from-holder", hname, mname, np.dtype(dt).name))
                try:
                    d = mk_(h)
                except Exception:
                    continue
                made.append((hname, mname, d))
        (a * a).sum().backward()            # a later sweep through the source
        for hname, mname, d in made:
            if d.requires_grad or d._grad is not None or d.grad_fn is not None:
                run.violation("synapgrad.tensor.Tensor.untracked_result_never_acquires_grad", "%s of a %s (%s): requires_grad=%s, grad_fn %s, .grad %s" %
                              (mname, hname, np.dtype(dt).name, d.requires_grad, "set" if d.grad_fn is not None else "None", "None" if d._grad is None else np.asarray(d._grad).tolist()),
                              key={"made_by": mname, "source": hname}, replay={"made_by": mname, "source": hname, "dtype": np.dtype(dt).name})
    # "after backward leaves keep their gradient, interior results do not": a leaf is any tensor without a grad_fn that requires grad, HOWEVER it was made -- by a constructor,
    # by a factory, or as the untracked result of an operation (weights scaled at creation, a detached copy, something computed under no_grad) whose flag is switched on afterwards
    import synapgrad.functional as F_
    src = Tensor(np.array([[1.0, -2.0, 0.5], [3.0, 0.25, -1.5]]), requires_grad=True)
    plain = Tensor(np.array([[1.0, -2.0, 0.5], [3.0, 0.25, -1.5]]))

    def flagged(t):
        t.requires_grad = True
        return t
    makers = [("constructor(requires_grad=True)", lambda: Tensor(plain.data.copy(), requires_grad=True)),
              ("constructor, flag set afterwards", lambda: flagged(Tensor(plain.data.copy()))),
              ("factory ones(), flag set afterwards", lambda: flagged(synapgrad.ones((2, 3)))),
              ("op on untracked operands (x * 0.01), flag set afterwards", lambda: flagged(plain * 0.01)),
              ("op chain on untracked operands, flag set afterwards", lambda: flagged(F_.exp(plain * 0.5) + 1.0)),
              ("view op on an untracked operand (transpose twice), flag set afterwards", lambda: flagged(plain.transpose(0, 1).transpose(0, 1))),
              ("op under no_grad on a tracked operand, flag set afterwards", lambda: flagged(_under(tm.no_grad(), lambda: src * 2.0))),
              ("detach() of a tracked interior result, flag set afterwards", lambda: flagged((src * 2.0).detach())),
              ("clone under no_grad, flag set afterwards", lambda: flagged(_under(tm.no_grad(), lambda: src.clone())))]
    cst = Tensor(np.array([[0.5, 1.5, -1.0], [2.0, -0.5, 1.0]]))
    for mname, mk_ in makers:
        run.rt(("late-leaf", mname))
        try:
            w = mk_()
        except Exception:
            continue            # refusing to switch the flag on is not this clause's business
        if w.grad_fn is not None or not w.requires_grad:
            continue
        bad = None
        try:
            mid = w * cst
            (mid * mid).sum().backward()
            exp1 = 2 * w.data * cst.data * cst.data
            if w._grad is None:
                bad = "has no gradient after backward (a leaf keeps its gradient)"
            elif not np.allclose(np.asarray(w._grad), exp1):
                bad = "holds %s after backward, expected %s" % (np.asarray(w._grad).tolist(), exp1.tolist())
            elif mid._grad is not None:
                bad = None      # interior release is checked elsewhere
            if bad is None:
                (w * cst).sum().backward()
                if w._grad is None or not np.allclose(np.asarray(w._grad), exp1 + cst.data):
                    bad = "does not accumulate over a second backward (holds %s, expected %s)" % (None if w._grad is None else np.asarray(w._grad).tolist(), (exp1 + cst.data).tolist())
        except Exception as e:
            bad = "backward through it raised %s: %s" % (type(e).__name__, e)
        if bad:
            run.violation("synapgrad.tensor.Tensor.backward.leaves_keep_their_gradient", "a leaf made by %s %s" % (mname, bad), key={"leaf_made_by": mname}, replay={"leaf_made_by": mname})
    # toggling requires_grad on non-leaves is refused
    a = Tensor(np.array([1.0]), requires_grad=True)
    y = a * 2.0
    run.rt("toggle-nonleaf")
    try:
        y.requires_grad = False
        run.violation("synapgrad.tensor.Tensor.requires_grad.non_leaf_refused", "requires_grad of a non-leaf was changed", key={"clause": "non_leaf"}, replay={})
    except RuntimeError:
        pass


def main(tier="quick", seed=0, procs=None, only=None):
    run = Run("C07", tier, seed, "proof")
    run.assume("pyvc-encoding", "engines")
    run.assume("(M2, paper lemma) the enter/exit obligations, proved for an arbitrary mode at construction, at entry and left by the body, give stack discipline at every nesting "
               "depth provided bodies do not write the context object's private field")
    run.assume("callees under contract in wrapper obligations: Tensor(...) constructor and grad_fn setter are replaced by their contracts (each discharged against its real body); "
               "cpu_ops / conv_tools kernels are havoc'ed (unconstrained results; frame assumption: they do not write the grad mode or tensor flags - C11 checks that)")
    run.bounds = {"pyvc": "unbounded: all modes, flags and argument values (opaque) for every function listed under functions_under_contract",
                  "native_flag_table": "every catalogue op (2 configurations each quick / 6 thorough) x every operand-flag subset x mode on/off",
                  "runtime_nestings": "all nestings to depth %d over {no_grad, retain_grads, pre-constructed no_grad, pre-constructed retain_grads} x 4 initial modes x exception at any level"
                                      % (3 if tier == "quick" else 4)}
    run.rule = "pyvc: one case = one function (x optional-argument variant); native: one evaluation = one (op, flags, mode) or one nesting program"
    cases = [ProtocolCase("no_grad", "gradient__", False), ProtocolCase("retain_grads", "retain_grads__", True)]
    cases += [TargetCase(t) for t in tensor_targets()]
    cases += [TargetCase(t, allow_outside=("unbind" in t.name)) for t in wrapper_targets()]      # unbind builds a tuple of results in a generator over kernel output
    results = run_catalogue(run, cases, seed=seed, procs=procs)
    outside = [r["name"] + ": " + r.get("unsupported", "") for r in results if r.get("status") == "outside-subset"]
    run.extra["pyvc_targets"] = len(cases)
    run.extra["pyvc_outside_subset"] = outside
    try:
        native_flag_table(run, tier)
        runtime_part(run, tier)
    except Exception as e:
        run.error("runtime part failed", e)
    finally:
        tm = sys.modules.get("synapgrad.tensor")
        if tm is not None:
            tm.gradient__, tm.retain_grads__ = True, False
    return run.finish()
