"""C09 - stability-critical ops stay finite and accurate for large-magnitude inputs (bounded stand-in, run-time contracts).

Contract attached to the REAL functions (functional and module forms, float32 and float64), for every finite float32 input
x with |x| <= 1e4, any labels/targets:
   ensures  completes;  isfinite(out);  |out - exact| <= 2**-20 * max(1, max|inputs|)
            after out.backward(g):  isfinite(x.grad);  |x.grad - exact_vjp(g)| <= 2**-20 * max(1, max|inputs|) * max|g|
`exact` = mpmath (60 digits) evaluation of the mathematical definition / closed-form VJP on the very float32 values passed.
Decided by rtc: the enumerator drives the functions through EVERY point of the stated grid (no sampling); VERIF_SEED only
adds cases.  Failing evaluations are grouped into classes (see vf/rtc) - one VIOLATION per class, first failing case shown.
"""
import itertools

import mpmath
import numpy as np

from ..report import Run
from ..rtc import Collector, LibraryRaised, guarded, lib, synapgrad_modules

mp = mpmath.mp
TOL = 2.0 ** -20
MAGS = [0.0, 1e-3, 1.0, 20.0, 87.0, 89.0, 104.0, 710.0, 1e3, 1e4]
GRID = [0.0] + [s * m for m in MAGS[1:] for s in (1.0, -1.0)]                       # 19 values, ordered by magnitude
TRIPLE_VALUES = {"quick": [0.0, 1e-3, -1.0, 20.0, -87.0, 89.0, -104.0, 710.0, -1e3, 1e4], "thorough": GRID}
TARGETS = [0.0, 0.3, 1.0]
UPSTREAM = [1.0, -3.0]
DTYPES = [np.float32, np.float64]
ALPHA = 1.6732632423543772848170429916717      # constants of synapgrad.nn.functional.selu (source)
SCALE = 1.0507009873554804934193349852946
F32_EXP, F64_EXP = 88.72, 709.78               # exp overflows float32 / float64 above these


def f32(v):
    return float(np.float32(v))


def mag_class(a):
    a = abs(a)
    for hi, name in ((0, "0"), (1, "(0,1]"), (20, "(1,20]"), (F32_EXP, "(20,88.72]"), (F64_EXP, "(88.72,709.78]")):
        if a <= hi:
            return name
    return "(709.78,1e4]"


def spread_class(d):
    for hi, name in ((27.63, "[0,27.63]"), (F32_EXP, "(27.63,88.72]"), (F64_EXP, "(88.72,709.78]")):
        if d <= hi:
            return name
    return "(709.78,2e4]"


def prob_class(p):
    return ">=1e-6" if p >= 1e-6 else "[1e-12,1e-6)" if p >= 1e-12 else "[1e-38,1e-12)" if p >= mp.mpf("1e-38") else "<1e-38"


# ------------------------------------------------------------------------------------------------ exact (mpmath) side
def ex_elementwise(op, x):
    """(value, [admissible derivatives]) of the mathematical definition at the mpf x"""
    if op == "sigmoid":
        s = 1 / (1 + mp.exp(-x))
        return s, [s * (1 - s)]
    if op == "tanh":
        t = mp.tanh(x)
        return t, [1 - t * t]
    a, sc = mp.mpf(ALPHA), mp.mpf(SCALE)
    if x > 0:
        return sc * x, [sc]
    if x < 0:
        return sc * a * (mp.exp(x) - 1), [sc * a * mp.exp(x)]
    return mp.mpf(0), [sc, sc * a]                 # kink of selu at 0: any value between the one-sided derivatives


_row_cache = {}


def ex_row(row):
    """softmax and log_softmax of a row (tuple of floats), exact"""
    if row not in _row_cache:
        xs = [mp.mpf(v) for v in row]
        m = max(xs)
        es = [mp.exp(v - m) for v in xs]
        s = mp.fsum(es)
        _row_cache[row] = ([e / s for e in es], [v - m - mp.log(s) for v in xs])
    return _row_cache[row]


def ex_bce(x, t):
    x, t = mp.mpf(x), mp.mpf(t)
    return max(x, 0) - x * t + mp.log(1 + mp.exp(-abs(x))), 1 / (1 + mp.exp(-x)) - t


def fl(v):
    return np.array([float(u) for u in v], dtype=np.float64)


# ------------------------------------------------------------------------------------------------------ contract side
class Checker:
    def __init__(self, run, only):
        self.run, self.only = run, only
        self.C = Collector(run)
        self.Tensor, _, self.nn, self.NF = synapgrad_modules()
        self.env = {"np": np, "Tensor": self.Tensor, "nn": self.nn, "F": self.NF}
        self.n_cases, self.fns, self.seen = 0, {}, {}

    def snippet(self, src, x32, dtype, g):
        return ("import numpy as np; from synapgrad import nn; from synapgrad.nn import functional as F; from synapgrad.tensor import Tensor\n"
                "x = Tensor(np.array(%r, dtype=np.float32).astype(np.%s), requires_grad=True)\nout = %s\n" % (x32.tolist(), dtype, src)
                + ("out.backward(Tensor(np.array(%r, dtype=np.%s).reshape(out.shape))); print(out.data, x._grad)" % (g, dtype) if g else "print(out.data)"))

    def case(self, api, cls, cid, src, x32, others_max, exact_out, ups):
        """one (api, configuration) in both dtypes.  src: python expression over x (Tensor), np, nn, F, Tensor, DT building the
        result; ups: [(gname, gflat, lo, hi)] with lo/hi float64 arrays bounding the exact VJP (lo==hi except at kinks)"""
        if self.only and self.only not in api:
            return
        self.n_cases += 1
        scale = max(1.0, float(np.max(np.abs(x32))), others_max)
        fwd = self.fns.get(src)
        if fwd is None:
            fwd = self.fns[src] = eval("lambda x, DT: " + src, self.env)   # noqa: S307 - expression written in this file
        for dt in DTYPES:
            dn = np.dtype(dt).name
            base = dict(cls, dtype=dn)
            srcd = src.replace("DT", "np." + dn)
            self.run.rt(hash((api, cid, dn)), n=0)           # distinct cases; clause evaluations are counted by judge()

            def judge(clause, ok, what, observed, actual, expected, g=None, tol=None, dn=dn, base=base, srcd=srcd):
                ob = "%s.%s" % (api, clause)
                if ok:
                    return self.C.ok(ob, None)
                self.C.fail(ob, "%s with x=%s %s: %s" % (srcd, x32.tolist(), dn, what), dict(base, clause=clause, observed=observed), None,
                            {"inputs": {"x": x32.tolist(), "dtype": dn, "call": srcd, "upstream": g}, "expected": expected, "actual": actual,
                             "tolerance": tol, "python": self.snippet(srcd, x32, dn, g)})

            def evaluate(clause_prefix, actual, lo, hi, tol, g=None):
                a = np.asarray(actual, dtype=np.float64).reshape(-1)
                lo, hi = lo.reshape(-1), hi.reshape(-1)
                if a.size != lo.size:
                    return judge(clause_prefix + "shape", False, "result has %d elements, definition has %d" % (a.size, lo.size), "size", a.tolist(), lo.tolist(), g)
                fin = bool(np.isfinite(a).all())
                obs = "finite" if fin else "nan" if np.isnan(a).any() else "+inf" if (a == np.inf).any() else "-inf"
                judge(clause_prefix + "finite", fin, "not finite: got %s, exact %s" % (a.tolist(), lo.tolist()), obs, a.tolist(), lo.tolist(), g, tol)
                if not fin:
                    return                                   # accuracy is only judged on finite results (no double report)
                err = float(np.max(np.maximum(lo - a, a - hi).clip(min=0)))
                r = err / tol
                obs = "within" if r <= 1 else "error 1-8x tolerance" if r <= 8 else "error >8x tolerance"
                judge(clause_prefix + "accuracy", r <= 1, "|got - exact| = %.3g > %.3g = 2**-20*max(1,max|x|)%s: got %s, exact %s"
                      % (err, tol, "*max|g|" if g else "", a.tolist(), lo.tolist()), obs, a.tolist(), lo.tolist(), g, tol)

            try:
                out = lib(fwd, self.Tensor(x32.astype(dt), requires_grad=True), dt)
            except LibraryRaised as e:
                judge("completes", False, "forward raised %s" % e, "raises", str(e), exact_out.tolist())
                continue
            judge("completes", True, "", "", None, None)
            evaluate("", out.data, exact_out, exact_out, TOL * scale)
            for gname, gflat, lo, hi in ups:
                x = self.Tensor(x32.astype(dt), requires_grad=True)
                try:
                    out = lib(fwd, x, dt)
                    if out.data.size != len(gflat):
                        continue                             # already reported as .shape
                    lib(out.backward, self.Tensor(np.array(gflat, dtype=dt).reshape(out.shape)))
                except LibraryRaised as e:
                    judge("grad.completes", False, "backward raised %s" % e, "raises", str(e), lo.tolist(), gflat)
                    continue
                if x._grad is None or np.shape(x._grad) != x32.shape:
                    judge("grad.shape", False, "gradient shape %s, input shape %s" % (np.shape(x._grad), x32.shape), "shape", None, None, gflat)
                    continue
                evaluate("grad.", x._grad, lo, hi, TOL * scale * max(abs(v) for v in gflat), gflat)
        self.seen[api] = self.seen.get(api, 0) + 1
        if self.seen[api] == 7:                              # one actual case per api form
            self.run.sample({"api": api, "call": src, "x": x32.tolist(), "exact": exact_out.tolist(), "upstream": [u[1] for u in ups]})

    # ------------------------------------------------------------------------------------------------ enumerators
    def elementwise(self, values):
        forms = {"sigmoid": [("nn.functional.sigmoid", "F.sigmoid(x)"), ("nn.Sigmoid", "nn.Sigmoid()(x)")],
                 "tanh": [("nn.functional.tanh", "F.tanh(x)"), ("nn.Tanh", "nn.Tanh()(x)")],
                 "selu": [("nn.functional.selu", "F.selu(x)"), ("nn.SELU", "nn.SELU()(x)")]}
        for op, fs in forms.items():
            for (v, source) in values:
                val, ders = ex_elementwise(op, mp.mpf(v))
                ups = [("g=%g" % g, [g], fl([min(g * d for d in ders)]), fl([max(g * d for d in ders)])) for g in UPSTREAM]
                cls = {"op": op, "sign": "zero" if v == 0 else "pos" if v > 0 else "neg", "magnitude_class": mag_class(v)}
                for i, (api, src) in enumerate(fs):
                    self.case(api, dict(cls, form=("functional", "module")[i]), (op, v), src, np.array([v], dtype=np.float32), 0.0, fl([val]), ups)

    def bce(self, values):
        pts = [(v, f32(t), source) for (v, source) in values for t in TARGETS]
        for i, (v, t, source) in enumerate(pts):
            cls = {"op": "binary_cross_entropy_with_logits", "sign": "zero" if v == 0 else "pos" if v > 0 else "neg",
                   "magnitude_class": mag_class(v)}
            val, der = ex_bce(v, t)
            tsrc = "Tensor(np.array(%r, dtype=np.float32).astype(DT))"
            ups = [("g=%g" % g, [g], fl([g * der]), fl([g * der])) for g in UPSTREAM]
            x1 = np.array([v], dtype=np.float32)
            self.case("nn.functional.binary_cross_entropy_with_logits", dict(cls, form="functional", reduction="none"), ("bce", v, t),
                      "F.binary_cross_entropy_with_logits(x, %s)" % (tsrc % [t]), x1, t, fl([val]), ups)
            self.case("nn.BCEWithLogitsLoss", dict(cls, form="module", reduction="none"), ("bce", v, t, "none"),
                      "nn.BCEWithLogitsLoss(reduction='none')(x, %s)" % (tsrc % [t]), x1, t, fl([val]), ups)
            # reductions over a batch of two: this point and the next grid point with the same target (cyclic)
            w = next(p for p in pts[i + 1:] + pts[:i + 1] if p[1] == t)[0]
            val2, der2 = ex_bce(w, t)
            big = v if abs(v) >= abs(w) else w
            cls2 = dict(cls, sign="zero" if big == 0 else "pos" if big > 0 else "neg", magnitude_class=mag_class(big), form="module")
            for red, k in (("mean", 2), ("sum", 1)):
                ups2 = [("g=%g" % g, [g], fl([g * der / k, g * der2 / k]), fl([g * der / k, g * der2 / k])) for g in UPSTREAM]
                self.case("nn.BCEWithLogitsLoss", dict(cls2, reduction=red), ("bce", v, w, t, red),
                          "nn.BCEWithLogitsLoss(reduction=%r)(x, %s)" % (red, tsrc % [t, t]), np.array([v, w], dtype=np.float32), t,
                          fl([(val + val2) / k]), ups2)

    def rows(self, rows, extra_layouts):
        """rows: list of (tuple of float32-representable floats, source).  softmax / log_softmax / cross entropy on every row."""
        for ri, (row, source) in enumerate(rows):
            p, logp = ex_row(row)
            n = len(row)
            cls = {"max_magnitude_class": mag_class(max(abs(v) for v in row)), "spread_class": spread_class(max(row) - min(row))}
            gs = [[1.0] * n, [-3.0] * n, [(1.0, -3.0)[j % 2] for j in range(n)]]
            x2 = np.array([row], dtype=np.float32)
            layouts = [("2d,dim=1", x2, "1")] + ([("2d,dim=-1", x2, "-1"), ("1d,dim=0", x2[0], "0"), ("column,dim=0", x2.T, "0")] if extra_layouts else [])
            for op, fn, mod, exact in (("softmax", "softmax", "Softmax", p), ("log_softmax", "log_softmax", "LogSoftmax", logp)):
                ups = []
                for g in gs:
                    gm = [mp.mpf(u) for u in g]
                    if op == "softmax":
                        dot = mp.fsum(a * b for a, b in zip(gm, p))
                        vjp = [pi * (gi - dot) for pi, gi in zip(p, gm)]
                    else:
                        sg = mp.fsum(gm)
                        vjp = [gi - pi * sg for pi, gi in zip(p, gm)]
                    ups.append(("g=%s" % g, g, fl(vjp), fl(vjp)))
                for lay, xa, dim in layouts:
                    c = dict(cls, op=op, layout=lay)
                    self.case("nn.functional." + fn, dict(c, form="functional"), (op, row, lay), "F.%s(x, %s)" % (fn, dim), xa, 0.0, fl(exact), ups)
                    if lay != "2d,dim=-1":
                        self.case("nn." + mod, dict(c, form="module"), (op, row, lay, "m"), "nn.%s(%s)(x)" % (mod, dim), xa, 0.0, fl(exact), ups)
            # cross entropy: every label; reductions over a batch of two rows (this row and the next one of the same width, cyclic)
            nxt = next(r for r, _ in rows[ri + 1:] + rows[:ri + 1] if len(r) == n)
            p2, logp2 = ex_row(nxt)
            for lab in range(n):
                oh = [mp.mpf(int(j == lab)) for j in range(n)]
                # the class of a cross-entropy case is the exact probability of its label (magnitudes and spread are in the replay)
                c = dict(op="cross_entropy", label_prob_class=prob_class(p[lab]), label_is_argmax=bool(row[lab] == max(row)))
                ups = [("g=%g" % g, [g], fl([g * (a - b) for a, b in zip(p, oh)]), fl([g * (a - b) for a, b in zip(p, oh)])) for g in UPSTREAM]
                ysrc = "Tensor(np.array(%r))"
                self.case("nn.functional.cross_entropy", dict(c, form="functional", reduction="none"), ("ce", row, lab),
                          "F.cross_entropy(x, %s)" % (ysrc % [lab]), x2, 0.0, fl([-logp[lab]]), ups)
                self.case("nn.CrossEntropyLoss", dict(c, form="module", reduction="none"), ("ce", row, lab, "none"),
                          "nn.CrossEntropyLoss(reduction='none')(x, %s)" % (ysrc % [lab]), x2, 0.0, fl([-logp[lab]]), ups)
                worst = min(p[lab], p2[lab])
                c2 = dict(c, form="module", label_prob_class=prob_class(worst), label_is_argmax=bool(row[lab] == max(row) and nxt[lab] == max(nxt)))
                for red, k in (("mean", 2), ("sum", 1)):
                    gr = [[(a - b) / k for a, b in zip(pp, oh)] for pp in (p, p2)]
                    ups2 = [("g=%g" % g, [g], fl([g * u for u in gr[0] + gr[1]]), fl([g * u for u in gr[0] + gr[1]])) for g in UPSTREAM]
                    # fl() flattens row-major, matching the (2, n) gradient
                    self.case("nn.CrossEntropyLoss", dict(c2, reduction=red), ("ce", row, nxt, lab, red),
                              "nn.CrossEntropyLoss(reduction=%r)(x, %s)" % (red, ysrc % [lab, lab]), np.array([row, nxt], dtype=np.float32), 0.0,
                              fl([-(logp[lab] + logp2[lab]) / k]), ups2)


def seeded_values(seed, n):
    rng = np.random.default_rng(seed)
    return [f32(min(1e4, s * 10.0 ** e)) for s, e in zip(rng.choice([-1.0, 1.0], n), rng.uniform(-3, 4, n))]


def main(tier="quick", seed=0, procs=None, only=None):
    run = Run("C09", tier, seed, "exploration")
    mp.dps = 60
    run.under_contract(*["synapgrad.nn.functional." + n for n in ("sigmoid", "tanh", "selu", "softmax", "log_softmax", "cross_entropy", "binary_cross_entropy_with_logits")],
                       *["synapgrad.nn." + n for n in ("Sigmoid", "Tanh", "SELU", "Softmax", "LogSoftmax", "CrossEntropyLoss", "BCEWithLogitsLoss")],
                       *["synapgrad.cpu_ops.%s_%s" % (n, d) for n in ("sigmoid", "tanh", "selu", "softmax", "log_softmax", "cross_entropy_loss", "bce_with_logits_loss")
                         for d in ("forward", "backward")])
    run.assume("bounded stand-in: the contract is evaluated natively on a finite grid of float32 inputs, not proved for all float32 inputs",
               "oracle: mpmath at 60 decimal digits evaluates the mathematical definition and the closed-form VJP on exactly the float32 values passed "
               "(targets such as 0.3 are the float32 value); mpmath itself is trusted",
               "'single-precision accuracy relative to the magnitude of the inputs' is read as absolute error <= 2**-20*max(1, max|inputs|) "
               "(16 float32 ulps of the input scale), gradients additionally scaled by max|upstream|; the same bound is applied to float64 runs",
               "at the kink of selu (x=0) any value between the one-sided derivatives is accepted",
               "results are compared after flattening (cross_entropy returns (N,1) where the definition has (N,)): shape is C10's concern, element count is checked",
               "NumPy floating-point warnings are not contract outcomes; inf/nan in results are")
    grid = [f32(v) for v in GRID]
    nseed = 24 if tier == "quick" else 96
    sv = seeded_values(seed, 3 * nseed)
    values = [(v, "grid") for v in grid] + [(v, "seeded") for v in sv[:nseed]]
    pairs = [((a, b), "grid") for a in grid for b in grid]
    tv = [f32(v) for v in TRIPLE_VALUES[tier]]
    triples = [(t, "grid") for t in itertools.product(tv, repeat=3)]
    quads = [(q, "grid") for q in itertools.product([f32(v) for v in (0.0, -20.0, 89.0, -710.0, 1e4)], repeat=4)] if tier == "thorough" else []
    rng = np.random.default_rng(seed + 1)
    extra_rows = [(tuple(sv[j] for j in rng.choice(len(sv), size=int(rng.integers(2, 5)), replace=False)), "seeded") for _ in range(nseed)]
    # just below the point where exp() of ONE element overflows in each floating dtype (log(finfo.max) = 88.72 / 709.78): no single term overflows there, a SUM of terms does --
    # rows of two or three such values, and wide rows whose elements are further below the threshold
    TH = [f32(v) for v in (88.5, 88.7, 709.5, 709.7)]
    values += [(s * v, "threshold") for v in TH for s in (1.0, -1.0)]
    threshold_rows = [((v, v), "threshold") for v in TH] + [((v, v, f32(0.0)), "threshold") for v in TH] + [((-v, -v), "threshold") for v in TH] + \
                     [((TH[0], f32(88.0), f32(87.5)), "threshold"), ((TH[2], f32(709.0), f32(-709.0)), "threshold"),
                      (tuple([f32(85.5)] * 64), "threshold"), (tuple([f32(706.0)] * 64), "threshold"), (tuple([f32(85.5)] * 63 + [f32(-85.5)]), "threshold")]
    run.bounds = {"magnitudes": MAGS, "values": "0 and +-each magnitude (19 float32 values), %d seeded values sign*10**U(-3,4)" % nseed,
                  "elementwise (sigmoid, tanh, selu)": "every value, shape (1,)",
                  "bce_with_logits": "every value x targets {0, float32(0.3), 1}; reductions none (1 element) and mean/sum (2 elements: the point and its cyclic successor)",
                  "rows (softmax, log_softmax, cross_entropy)": "all %d ordered pairs of the 19 values; all %d triples over %s%s; %d seeded rows of width 2-4; every label; "
                  "reductions mean/sum over 2-row batches (row and its cyclic successor); rows of 2-3 values just below log(finfo.max) of each dtype (88.5, 88.7, 709.5, 709.7) and 64-wide rows at 85.5 / 706" % (len(pairs), len(triples), tv, "; all %d 4-tuples over 5 values" % len(quads) if quads else "", nseed),
                  "layouts": "(1,C) dim=1 for every row; additionally dim=-1, 1-d dim=0 and (C,1) dim=0 for the pairs",
                  "upstream": "uniform 1 and -3; for softmax/log_softmax also alternating (1,-3,1,..)", "dtypes": ["float32", "float64"],
                  "forms": "functional and nn.Module forms; loss modules with reduction none/mean/sum", "tolerance": "2**-20*max(1,max|inputs|) (*max|g| for gradients)"}
    run.rule = ("one evaluation = one contract clause (completes / finite / accuracy / grad.finite / grad.accuracy ...) on one (api form, dtype, input point, upstream "
                "gradient); distinct = distinct (clause, point, dtype, upstream)")
    run.explanation = ("floating-point range and rounding are outside both deductive verifiers; the contracts are executed on the real functions over the complete stated grid "
                       "and compared with 60-digit mpmath values.  Failures are grouped by (obligation, structured class fields); the replay holds the first failing case of the class.")
    run.exhaustive = True
    if only:
        run.extra["filtered_only"] = only
    ck = guarded(run, "setup", Checker, run, only)
    if ck is not None:
        guarded(run, "elementwise", ck.elementwise, values)
        guarded(run, "bce_with_logits", ck.bce, values)
        guarded(run, "rows/pairs", ck.rows, pairs, True)
        guarded(run, "rows/triples", ck.rows, triples, False)
        if quads:
            guarded(run, "rows/quads", ck.rows, quads, False)
        guarded(run, "rows/seeded", ck.rows, extra_rows, False)
        guarded(run, "rows/threshold", ck.rows, threshold_rows, False)
        run.extra["cases"] = ck.n_cases
        run.extra["failure_classes"] = ck.C.flush()
    return run.finish()
