"""C08 - optimizers follow the published SGD / Adam / AdamW update rules on any history.

Spec (spec functions below): the update rules of the PyTorch documentation the classes cite, transcribed literally
(maximize negates the gradient FIRST; weight decay; momentum buffer initialised to the gradient; Nesterov; bias
corrections with the step index; AdamW's decoupled decay).
Contract of Optimizer.step (one step, proved for fully symbolic parameters, gradients, buffers-by-history and
hyper-parameters; then over every enumerated interleaving of {backward, zero_grad, step}):
    ensures  p.data == rule(p, g, state, hp)   for every parameter that requires grad and has a gradient;
             p.data IS the same array object, same shape;
             frozen parameters / parameters without a gradient / tensors not given to the optimizer are unchanged;
             Optimizer.zero_grad gives gradients only to parameters that require grad.
The real optimizer code is executed on symbolic reals; all equalities are discharged by z3.
"""
import itertools
import random

import numpy as np

from ..report import Run
from ..symreal import core, shim
from ..symreal.core import S, symarr, new_session, evalarr
from ..symreal.discharge import prove_equal
from ..symreal.pool import run_catalogue

OPT = "synapgrad.optim.optimizers."


# ---------------------------------------------------------------------------------------------------- spec rules
def sgd_rule(p, g, st, hp, t):
    if hp["maximize"]:
        g = -g
    if hp["wd"] is not None:
        g = g + hp["wd"] * p
    if hp["momentum"] is not None:
        if st.get("b") is not None:
            damp = (1.0 - hp["dampening"]) if hp["dampening"] is not None else 1.0
            b = hp["momentum"] * st["b"] + damp * g
        else:
            b = g
        st["b"] = b
        g = g + hp["momentum"] * b if hp["nesterov"] else b
    return p - hp["lr"] * g


def adam_rule(p, g, st, hp, t, decoupled):
    if hp["maximize"]:
        g = -g
    if decoupled:
        if hp["wd"] is not None:
            p = p - hp["lr"] * hp["wd"] * p
    elif hp["wd"] is not None:
        g = g + hp["wd"] * p
    m = hp["b1"] * st.get("m", 0) + (1.0 - hp["b1"]) * g
    v = hp["b2"] * st.get("v", 0) + (1.0 - hp["b2"]) * g * g
    st["m"], st["v"] = m, v
    # PyTorch keeps the step index per parameter (state['step']): it counts the updates this parameter has received, so a parameter
    # that joins late (no gradient / frozen during earlier steps) starts its bias correction at 1
    t = st["t"] = st.get("t", 0) + 1
    mh = m / (1.0 - hp["b1"] ** t)
    vh = v / (1.0 - hp["b2"] ** t)
    return p - (hp["lr"] * mh) / (_sqrt(vh) + hp["eps"])


def _sqrt(x):
    if isinstance(x, np.ndarray):
        if x.dtype == object:
            out = np.empty(x.shape, dtype=object)
            for i in np.ndindex(*x.shape):
                out[i] = S.of(x[i]).sqrt()
            return out
        return np.sqrt(x)
    return S.of(x).sqrt() if isinstance(x, S) else np.sqrt(x)


EVENTS = ["bw0", "bw1", "bwall", "zero", "step"]
TOGGLES = ["thaw_f", "freeze0", "thaw0"]      # pf.requires_grad = True; p0.requires_grad = False / True


class OptCase:
    expect = "optim"

    def __init__(self, kind, opts, events):
        self.kind = kind
        self.opts = dict(opts)
        self.events = tuple(events)
        self.name = OPT + kind + ".step"
        self.key = {"optimizer": kind, **{k: v for k, v in opts.items()}, "history": list(events)}
        self.functions = (OPT + kind + ".step", OPT + kind + ".__init__", OPT + "Optimizer.zero_grad", OPT + "Optimizer.step")

    # the same interpreter runs symbolically and natively ---------------------------------------------------
    def _world(self, mode, sess=None, point=None):
        from synapgrad.nn.modules import Parameter
        from synapgrad.tensor import Tensor
        import synapgrad.optim.optimizers as O

        def arr(name, shape):
            if mode == "sym":
                return symarr(name, shape)
            from ..symreal.harness import var_names
            return np.array([point[n] for n in var_names(name, shape)], dtype=np.float64).reshape(shape)

        def scal(name):
            return S(sess.var(name)) if mode == "sym" else point[name]
        w = {}
        w["p"] = [Parameter(arr("p0", (2,)), requires_grad=True), Parameter(arr("p1", (1, 2)), requires_grad=True),
                  Parameter(arr("pf", (2,)), requires_grad=False)]
        w["outsider"] = Parameter(arr("q", (2,)), requires_grad=True)
        o = self.opts
        hp = {"lr": scal("lr"), "maximize": o.get("maximize", False), "wd": scal("wd") if o.get("wd") else None}
        if self.kind == "SGD":
            hp.update({"momentum": scal("mu") if o.get("momentum") else None, "dampening": scal("tau") if o.get("dampening") else None, "nesterov": o.get("nesterov", False)})
            opt = O.SGD(w["p"], lr=hp["lr"], momentum=hp["momentum"] if hp["momentum"] is not None else 0, dampening=hp["dampening"] if hp["dampening"] is not None else 0,
                        weight_decay=hp["wd"] if hp["wd"] is not None else 0, nesterov=hp["nesterov"], maximize=hp["maximize"])
        else:
            hp.update({"b1": scal("b1"), "b2": scal("b2"), "eps": scal("eps")})
            cls = O.Adam if self.kind == "Adam" else O.AdamW
            opt = cls(w["p"], lr=hp["lr"], betas=(hp["b1"], hp["b2"]), eps=hp["eps"], weight_decay=hp["wd"] if hp["wd"] is not None else 0, maximize=hp["maximize"])
        w["opt"] = opt
        w["hp"] = hp
        w["arr"] = arr
        w["nbw"] = 0
        w["Tensor"] = Tensor
        return w

    def _apply(self, w, ev):
        import synapgrad.functional as F
        Tensor = w["Tensor"]
        if ev.startswith("bw"):
            which = [0] if ev == "bw0" else ([1] if ev == "bw1" else [0, 1, 2])
            k = w["nbw"]
            w["nbw"] += 1
            loss = None
            contrib = {}
            for i in which:
                p = w["p"][i]
                c = w["arr"]("c%d_%d" % (k, i), p.shape)
                contrib[i] = c
                term = F.sum(p * Tensor(c))
                loss = term if loss is None else loss + term
            if loss.requires_grad:
                one = np.empty((), dtype=loss.data.dtype)
                one[()] = S.of(1) if loss.data.dtype == object else 1
                loss.backward(Tensor(one))
            return contrib
        if ev == "zero":
            w["opt"].zero_grad()
        elif ev == "step":
            w["opt"].step()
        elif ev == "thaw_f":
            w["p"][2].requires_grad = True
        elif ev == "freeze0":
            w["p"][0].requires_grad = False
        elif ev == "thaw0":
            w["p"][0].requires_grad = True
        return None

    def run(self, seed):
        res = {"name": self.name, "key": dict(self.key), "obligations": 0, "discharged": 0, "backends": {}, "paths": 1, "solver_s": 0.0,
               "failures": [], "undecided": [], "errors": [], "notes": [], "status": "ok", "faithful": 0, "sample": None}
        try:
            self._run(res, seed)
        except Exception as e:
            import traceback
            res["errors"].append("%s %s: %s\n%s" % (self.name, self.key, e, traceback.format_exc()[-1800:]))
        return res

    def _run(self, res, seed):
        # an optimizer may test gradient values (e.g. "all zero?"): every feasible path is explored, the rule must hold on each
        sess = new_session()
        # preconditions on the hyper-parameters BEFORE the exploration starts (the explorer's solver is loaded with sess.pre at the start of each path)
        for nm, lo, hi in (("lr", 0, None), ("wd", 0, None), ("mu", 0, 1), ("tau", 0, 1), ("b1", 0, 1), ("b2", 0, 1), ("eps", 0, None)):
            v = sess.var(nm)
            sess.pre.append(v > lo)
            if hi is not None:
                sess.pre.append(v < hi)
        ex = core.Explorer(max_paths=64)
        stop = []

        def one():
            if not stop:
                self._run_path(res, seed, sess, ex)
                if res["failures"] or res["errors"] or res["status"] != "ok":
                    stop.append(1)
        ex.run(one)
        res["paths"] = ex.paths

    def _run_path(self, res, seed, sess, ex):
        fail = None

        def bump(backend):
            res["obligations"] += 1
            res["discharged"] += 1
            res["backends"][backend] = res["backends"].get(backend, 0) + 1
        import z3
        with shim.symbolic(eps="native"):
            try:
                w = self._world("sym", sess)
            except ValueError as e:
                # option_sets() only produces combinations the constructors document as valid: a rejection here means the case was NOT checked (vacuity guard)
                res["errors"].append("%s %s: constructor rejected a documented option set: %s" % (self.name, self.key, e))
                return
            P = w["p"]
            hp = w["hp"]
            exp_data = [np.array(p.data, dtype=object) for p in P]
            exp_grad = [None, None, None]
            state = [{}, {}, {}]
            req = [True, True, False]           # ghost: which parameters require grad now / ever did
            ever = [True, True, False]
            data_obj = [p.data for p in P]
            out_data, out_snap = w["outsider"].data, w["outsider"].data.copy()
            t = 0
            for ei, ev in enumerate(self.events):
                info = {"event_index": ei, "event": ev, "step_number": t + (1 if ev == "step" else 0),
                        "some_param_without_grad": any(p._grad is None for p in P[:2]), "grad_accumulated_since_last_step_without_zero": None}
                # ---- spec
                if ev.startswith("bw"):
                    pass
                elif ev in TOGGLES:
                    i = 2 if ev == "thaw_f" else 0
                    req[i] = ev != "freeze0"
                    ever[i] = ever[i] or req[i]
                elif ev == "zero":
                    for i in (0, 1, 2):
                        if req[i]:
                            exp_grad[i] = np.zeros(P[i].shape, dtype=object)
                elif ev == "step":
                    t += 1
                    for i in (0, 1, 2):
                        if exp_grad[i] is None or not req[i]:
                            continue
                        if self.kind == "SGD":
                            exp_data[i] = sgd_rule(exp_data[i], exp_grad[i], state[i], hp, t)
                        else:
                            exp_data[i] = adam_rule(exp_data[i], exp_grad[i], state[i], hp, t, self.kind == "AdamW")
                try:
                    contrib = self._apply(w, ev)
                except Exception as e:
                    fail = ("%s.completes" % _api(self.kind, ev), "event %d (%s) raised %s: %s" % (ei, ev, type(e).__name__, str(e)[:200]), info)
                    break
                if contrib:
                    for i, c in contrib.items():
                        if req[i]:
                            base = exp_grad[i] if exp_grad[i] is not None else np.zeros(P[i].shape, dtype=object)
                            exp_grad[i] = base + c
                # ---- contract after the event
                api = _api(self.kind, ev)
                for i, p in enumerate(P):
                    if p.data is not data_obj[i]:
                        fail = (api + ".in_place", "parameter %d's data array was replaced by a new object at event %d (%s)" % (i, ei, ev), {**info, "param": i})
                        break
                    if tuple(p.data.shape) != tuple(exp_data[i].shape):
                        fail = (api + ".shape_unchanged", "parameter %d changed shape to %s" % (i, p.data.shape), {**info, "param": i})
                        break
                    clause = ".frozen_parameter_unchanged" if not req[i] else (".follows_update_rule" if ev == "step" else ".parameters_unchanged")
                    for k in np.ndindex(*p.shape):
                        a, b = S.of(p.data[k]), S.of(exp_data[i][k])
                        v = prove_equal(a, b, list(sess.pre) + list(ex.pc) + sess.relevant_axioms(list(ex.pc) + [a.n, a.d, b.n, b.d]), timeout_ms=20000)
                        res["solver_s"] += v.seconds
                        if v.status == "discharged":
                            bump(v.backend)
                            if res["sample"] is None and v.backend not in ("syntactic",) and ev == "step":
                                res["sample"] = {"obligation": api + clause, "config": self.key, "lhs": str(a.term())[:160], "rhs": str(b.term())[:160], "backend": v.backend}
                        else:
                            fail = (api + clause, "parameter %d%s after event %d (%s): implementation %s vs rule %s" % (i, list(k), ei, ev, str(a.term())[:160], str(b.term())[:160]),
                                    {**info, "param": i, "solver": v.status})
                            break
                    if fail:
                        break
                if fail:
                    break
                # gradients: only requiring parameters ever hold one; zero_grad zeroes exactly those
                if any(P[i]._grad is not None for i in range(3) if not ever[i]):
                    fail = (api + ".frozen_parameter_gets_no_grad", "the frozen parameter holds a gradient after event %d (%s)" % (ei, ev), {**info, "param": 2})
                    break
                bump("executed")
                if not (w["outsider"].data is out_data and all(x is y for x, y in zip(out_data.ravel(), out_snap.ravel())) and w["outsider"]._grad is None):
                    fail = (api + ".other_tensors_untouched", "a tensor that was not given to the optimizer changed", info)
                    break
                bump("syntactic")
        if fail:
            oname, what, info = fail
            self._npre = len(sess.pre)
            rep = self._native_replay(exp_data, info, seed, list(sess.pre) + list(ex.pc))
            res["key"].update(info)
            if rep.get("reproduced"):
                res["failures"].append({"obligation": oname, "what": what, "reproduced": True, "replay": rep})
            elif rep.get("native_agrees"):
                res["errors"].append("%s %s: symbolic run fails (%s) but the native replay follows the rule: %s" % (self.name, self.key, what, str(rep)[:300]))
            else:
                res["failures"].append({"obligation": oname, "what": what, "reproduced": False, "replay": rep})

    def _native_replay(self, exp_data, info, seed, constraints=()):
        from ..symreal.harness import var_names
        rng = random.Random("%s|%s|%d" % (self.kind, self.key, seed))
        point = {"lr": 0.1 + rng.random() * 0.2, "wd": 0.05 + rng.random() * 0.3, "mu": 0.3 + rng.random() * 0.5, "tau": 0.1 + rng.random() * 0.4, "b1": 0.8 + rng.random() * 0.15,
                 "b2": 0.9 + rng.random() * 0.09, "eps": 1e-3 * (1 + rng.random())}
        for nm, sh in (("p0", (2,)), ("p1", (1, 2)), ("pf", (2,)), ("q", (2,))):
            for n in var_names(nm, sh):
                point[n] = rng.choice([-1, 1]) * rng.uniform(0.3, 2.0)
        for k in range(len(self.events) + 1):
            for i, sh in ((0, (2,)), (1, (1, 2)), (2, (2,))):
                for n in var_names("c%d_%d" % (k, i), sh):
                    point[n] = rng.choice([-1, 1]) * rng.uniform(0.3, 2.0)
        # a point ON the failing path: variables the path condition talks about (e.g. "this gradient is all zero") take the solver's values
        if constraints:
            import z3
            from ..symreal.discharge import _model_env
            pinned = set()
            for c in constraints[self._npre:]:
                pinned |= set(core.free_vars(c))
            if pinned:
                sv = z3.Solver()
                sv.set("timeout", 5000)
                sv.add(*constraints)
                if sv.check() == z3.sat:
                    m = _model_env(sv.model())
                    point.update({k_: v_ for k_, v_ in m.items() if k_ in point and k_ in pinned})
        upto = info["event_index"]
        rep = {"inputs": point, "history": list(self.events), "failing_event": upto, "options": self.opts}
        try:
            with shim.native():
                w = self._world("nat", point=point)
                ids = [id(p.data) for p in w["p"]]
                for ev in self.events[: upto + 1]:
                    self._apply(w, ev)
                got = [np.array(p.data, dtype=np.float64) for p in w["p"]]
                same_obj = [id(p.data) == i for p, i in zip(w["p"], ids)]
                frozen_grad = w["p"][2]._grad is not None and "thaw_f" not in self.events[: upto + 1]
        except Exception as e:
            rep.update({"reproduced": True, "native_exception": "%s: %s" % (type(e).__name__, str(e)[:300])})
            return rep
        sess_exp = []
        bad = []
        for i in range(3):
            try:
                e = evalarr(np.asarray(exp_data[i], dtype=object), point)
            except Exception as ex:
                rep["spec_eval_error"] = str(ex)
                return rep
            sess_exp.append(e)
            if got[i].shape != e.shape or not np.allclose(got[i], e, rtol=1e-7, atol=1e-10):
                bad.append(i)
        rep["actual"] = [g.tolist() for g in got]
        rep["expected"] = [e.tolist() for e in sess_exp]
        rep["data_array_identity_kept"] = same_obj
        if bad or not all(same_obj) or frozen_grad:
            rep["reproduced"] = True
            rep["parameters_differing"] = bad
            rep["frozen_parameter_has_grad"] = frozen_grad
        else:
            rep["native_agrees"] = True
        return rep


def _api(kind, ev):
    if ev in TOGGLES:
        return "Tensor.requires_grad@setter"
    if ev == "step":
        return OPT + kind + ".step"
    if ev == "zero":
        return OPT + "Optimizer.zero_grad"
    return "Tensor.backward"


def option_sets(kind):
    out = []
    if kind == "SGD":
        for mom, damp, wd, nest, mx in itertools.product([False, True], repeat=5):
            if nest and (not mom or damp):
                continue
            if damp and not mom:
                continue
            out.append({"momentum": mom, "dampening": damp, "wd": wd, "nesterov": nest, "maximize": mx})
    else:
        for wd, mx in itertools.product([False, True], repeat=2):
            out.append({"wd": wd, "maximize": mx})
    return out


def histories(tier, seed):
    hs = [("bwall", "step"), ("bwall", "step", "bwall", "step"), ("bwall", "step", "zero", "bwall", "step"), ("bw0", "step", "bwall", "step"),
          ("zero", "bw0", "bw0", "step", "bw1", "step"), ("bwall", "bwall", "step", "step"), ("bwall", "step", "bw0", "step", "zero", "step"),
          ("step", "bwall", "step"), ("zero", "step", "bwall", "step"),
          # parameters whose flag changes after the optimizer was built: un-freezing (gradual un-freezing), freezing, and both
          ("bwall", "step", "thaw_f", "bwall", "step"), ("thaw_f", "bwall", "step", "zero", "bwall", "step"), ("bwall", "step", "freeze0", "bwall", "step", "thaw0", "step"),
          ("freeze0", "zero", "bwall", "step", "thaw0", "bwall", "step"), ("bw0", "step", "bw0", "step", "bwall", "step")]
    rng = random.Random(seed)
    n = 6 if tier == "quick" else 40
    for _ in range(n):
        L = rng.randint(3, 6)
        h = []
        steps = 0
        while len(h) < L:
            e = rng.choice(EVENTS + TOGGLES if _ % 2 else EVENTS)
            if e == "step":
                if steps >= (3 if tier == "quick" else 4):
                    continue
                steps += 1
            h.append(e)
        if "step" not in h:
            h.append("step")
        hs.append(tuple(h))
    return hs


def main(tier="quick", seed=0, procs=None, only=None):
    run = Run("C08", tier, seed, "proof")
    run.assume("reals", "numpy", "shims", "atoms", "engines")
    run.assume("(M3, paper lemma) the per-step contract with fully symbolic parameter / gradient / hyper-parameter values + the frame conditions of backward and zero_grad give the "
               "trajectory over every history; histories themselves are enumerated to the stated bound")
    run.assume("the step index t of Adam/AdamW is PyTorch's per-parameter state['step'] (the number of updates the parameter has received); a parameter that does not require grad or whose "
               "gradient is None at a step is skipped (unchanged parameter and state)")
    run.bounds = {"parameters": "p0 (2,), p1 (1,2) requiring grad, pf (2,) frozen, plus a tensor not given to the optimizer", "hyper-parameters": "symbolic lr>0, wd>0, 0<momentum<1, 0<dampening<1, "
                  "0<beta<1, eps>0; every boolean option combination the constructors accept (momentum=0/!=0, dampening=0/!=0, wd=0/!=0, nesterov, maximize)",
                  "histories": "14 hand-written interleavings (several backward per step, step without zero_grad, step before any backward, partial gradients, parameters frozen / un-frozen after construction) + %d seeded of length 3-6, <=%d steps"
                               % (6 if tier == "quick" else 40, 3 if tier == "quick" else 4)}
    run.rule = "one case = (optimizer, option set, history); after every event every parameter element is one equality obligation against the published rule"
    cases = []
    hs = histories(tier, seed)
    for kind in ("SGD", "Adam", "AdamW"):
        for o in option_sets(kind):
            for h in hs:
                if kind != "SGD" and len([e for e in h if e == "step"]) > 2 and tier == "quick":
                    continue
                cases.append(OptCase(kind, o, h))
    if only:
        cases = [c for c in cases if only in c.name]
    run_catalogue(run, cases, seed=seed, procs=procs)
    dtype_part(run)
    try:
        shape_part(run, seed)
        fresh_state_part(run, seed)
    except Exception as e:
        run.error("shape / fresh-state part failed", e)
    return run.finish()


def fresh_state_part(run, seed):
    """bounded, native: an optimizer's state belongs to THAT optimizer -- a second optimizer built on the same parameter tensors (a warm-up optimizer followed by the real
    one, a re-created optimizer with another learning rate, Adam followed by AdamW, two optimizers stepping alternately) starts from empty state and follows the rule
    from there, whatever an earlier or concurrent instance has accumulated"""
    import synapgrad.optim.optimizers as O
    from synapgrad.nn.modules import Parameter
    from synapgrad.tensor import Tensor
    rng = np.random.RandomState(seed + 13)
    mk = {"SGD": lambda ps, lr: O.SGD(ps, lr=lr, momentum=0.9), "Adam": lambda ps, lr: O.Adam(ps, lr=lr, betas=(0.8, 0.9), eps=1e-2), "AdamW": lambda ps, lr: O.AdamW(ps, lr=lr, betas=(0.8, 0.9), eps=1e-2, weight_decay=0.1)}
    hp = {"SGD": lambda lr: {"lr": lr, "maximize": False, "wd": None, "momentum": 0.9, "dampening": None, "nesterov": False},
          "Adam": lambda lr: {"lr": lr, "maximize": False, "wd": None, "b1": 0.8, "b2": 0.9, "eps": 1e-2}, "AdamW": lambda lr: {"lr": lr, "maximize": False, "wd": 0.1, "b1": 0.8, "b2": 0.9, "eps": 1e-2}}

    def rule(kind, p, g, st, lr, t):
        return sgd_rule(p, g, st, hp[kind](lr), t) if kind == "SGD" else adam_rule(p, g, st, hp[kind](lr), t, kind == "AdamW")
    for first, second, mode in (("SGD", "SGD", "sequence"), ("Adam", "Adam", "sequence"), ("Adam", "AdamW", "sequence"), ("AdamW", "Adam", "sequence"), ("SGD", "Adam", "sequence"),
                                ("SGD", "SGD", "alternate"), ("Adam", "Adam", "alternate")):
        p = Parameter(np.array([1.0, -2.0, 0.5]), requires_grad=True)
        arr = p.data
        exp = np.array(p.data, dtype=np.float64)
        o1 = mk[first]([p], 0.05)
        s1, s2, t1, t2 = {}, {}, 0, 0
        o2 = mk[second]([p], 0.02) if mode == "alternate" else None
        bad = None
        run.rt(("fresh-state", first, second, mode))
        try:
            for step in range(8):
                if mode == "sequence" and step == 4:
                    o2 = mk[second]([p], 0.02)          # the second optimizer is built after the first one has taken its steps
                use_second = (step >= 4) if mode == "sequence" else (step % 2 == 1)
                opt = o2 if use_second else o1
                opt.zero_grad()
                g = rng.rand(3) - 0.3
                (p * 1.0).backward(Tensor(g.copy()))
                if use_second:
                    t2 += 1
                    exp = rule(second, exp, g, s2, 0.02, t2)
                else:
                    t1 += 1
                    exp = rule(first, exp, g, s1, 0.05, t1)
                opt.step()
                if p.data is not arr or not np.allclose(p.data, exp, rtol=1e-10, atol=1e-12):
                    bad = "after step %d (taken by the %s optimizer) the parameter holds %s, the rule started from that optimizer's own (empty) state gives %s" % (
                        step + 1, "second" if use_second else "first", np.asarray(p.data).tolist(), exp.tolist())
                    break
        except Exception as e:
            bad = "raised %s: %s" % (type(e).__name__, e)
        if bad:
            run.violation(OPT + second + ".step.follows_update_rule", "%s then %s on the same parameter tensor (%s): %s" % (first, second, mode, bad),
                          key={"optimizer": second, "first_optimizer": first, "mode": mode, "clause": "state is per optimizer instance"}, replay={"first": first, "second": second, "mode": mode, "what": bad})


def shape_part(run, seed):
    """bounded, native: the trajectory does not depend on the SHAPE of a parameter -- 0-d, one-element, zero-extent and ordinary parameters side by side in one optimizer,
    every option set, float32 and float64, five steps with fresh gradients (eps not negligible against the gradients for Adam): each element follows the rule evaluated
    in float64; shape, dtype and array identity are kept.  (The symbolic cases above use (2,) and (1,2) parameters; a 0-d gradient degenerates into a NumPy scalar.)"""
    import synapgrad.optim.optimizers as O
    from synapgrad.nn.modules import Parameter
    from synapgrad.tensor import Tensor
    rng = np.random.RandomState(seed + 8)
    shapes = [(), (1,), (1, 1), (0,), (2, 3)]
    for kind in ("SGD", "Adam", "AdamW"):
        for o in option_sets(kind):
            for dt in (np.float32, np.float64):
                hp = {"lr": 0.05, "maximize": o.get("maximize", False), "wd": 0.1 if o.get("wd") else None}
                if kind == "SGD":
                    hp.update({"momentum": 0.9 if o.get("momentum") else None, "dampening": 0.3 if o.get("dampening") else None, "nesterov": o.get("nesterov", False)})
                    mk = lambda ps: O.SGD(ps, lr=hp["lr"], momentum=hp["momentum"] or 0, dampening=hp["dampening"] or 0, weight_decay=hp["wd"] or 0, nesterov=hp["nesterov"], maximize=hp["maximize"])
                else:
                    hp.update({"b1": 0.8, "b2": 0.9, "eps": 1e-2})
                    mk = lambda ps: getattr(O, kind)(ps, lr=hp["lr"], betas=(hp["b1"], hp["b2"]), eps=hp["eps"], weight_decay=hp["wd"] or 0, maximize=hp["maximize"])
                P = [Parameter(np.asarray(rng.rand(*sh) + 0.5).astype(dt), requires_grad=True) for sh in shapes]
                arrs = [p.data for p in P]
                exp = [np.array(p.data, dtype=np.float64) for p in P]
                st = [{} for _ in P]
                opt = mk(P)
                run.rt(("shape", kind, tuple(sorted(o.items())), np.dtype(dt).name))
                bad = None
                try:
                    for t in range(1, 6):
                        opt.zero_grad()
                        for i, p in enumerate(P):
                            g = np.asarray(rng.rand(*shapes[i]) * 0.02 - 0.01 + (0.5 if t % 2 else -0.25)).astype(dt)
                            (p * 1.0).backward(Tensor(np.asarray(g)))
                            exp[i] = (sgd_rule if kind == "SGD" else (lambda a, b, c, d, e: adam_rule(a, b, c, d, e, kind == "AdamW")))(exp[i], np.asarray(g, dtype=np.float64), st[i], hp, t)
                        opt.step()
                        for i, p in enumerate(P):
                            if p.data is not arrs[i] or p.data.dtype != dt or tuple(p.data.shape) != shapes[i]:
                                bad = "after step %d the parameter of shape %s has shape %s dtype %s, same array object: %s" % (t, shapes[i], p.data.shape, p.data.dtype, p.data is arrs[i])
                            elif not np.allclose(np.asarray(p.data, dtype=np.float64), exp[i], rtol=2e-4 if dt == np.float32 else 1e-10, atol=1e-6 if dt == np.float32 else 1e-12):
                                bad = "after step %d the parameter of shape %s holds %s, the rule gives %s" % (t, shapes[i], np.asarray(p.data).tolist(), exp[i].tolist())
                            if bad:
                                break
                        if bad:
                            break
                except Exception as e:
                    bad = "raised %s: %s" % (type(e).__name__, e)
                if bad:
                    run.violation(OPT + kind + ".step.follows_update_rule", "%s %s %s, parameters of shapes %s in one optimizer: %s" % (kind, o, np.dtype(dt).name, shapes, bad),
                                  key={"optimizer": kind, **o, "dtype": np.dtype(dt).name, "clause": "any parameter shape"}, replay={"optimizer": kind, "options": o, "dtype": np.dtype(dt).name, "what": bad})


def dtype_part(run):
    """bounded run-time clause: updates keep dtype (float32 stays float32) and the array identity, natively"""
    import synapgrad.optim.optimizers as O
    from synapgrad.nn.modules import Parameter
    for kind in ("SGD", "Adam", "AdamW"):
        for dt in (np.float32, np.float64):
            p = Parameter(np.ones((2, 2), dtype=dt), requires_grad=True)
            arr = p.data
            opt = getattr(O, kind)([p], lr=0.1, **({"momentum": 0.9} if kind == "SGD" else {}), weight_decay=0.1)
            for _ in range(2):
                (p * p).sum().backward()
                opt.step()
            run.rt(("dtype", kind, np.dtype(dt).name))
            if p.data.dtype != dt or p.data is not arr or p.data.shape != (2, 2):
                run.violation(OPT + kind + ".step.dtype_and_identity", "after two steps dtype=%s identity kept=%s" % (p.data.dtype, p.data is arr),
                              key={"optimizer": kind, "dtype": np.dtype(dt).name}, replay={})
