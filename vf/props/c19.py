"""C19 - reproducibility after manual_seed; independence of hash seeds, addresses and repetition.  Level `other`.

Static sufficient conditions over every .py under synapgrad/ (AST, re-read on every run):
  static.no_unseeded_rng            (O1) every randomness source is a module-level np.random.<fn> / random.<fn> drawing from the global
                                    generators that manual_seed seeds; nothing re-seeds them; no dynamic code hides a source
  static.no_set_iteration           (O2) on numeric paths no set/frozenset is iterated, popped or allowed to escape, no id()/hash(), no key=id;
                                    Tensor.backward takes its order from lists (the visited set is membership-only)
  static.no_uninitialised_output    (O4) a ufunc called with where= gets an out= buffer the function initialised itself (otherwise masked positions are heap garbage)
  static.manual_seed_seeds_both     (O3) manual_seed(seed) unconditionally calls np.random.seed(seed) and random.seed(seed)
Run time, bounded (vf/rtc/repro.py): manual_seed.bit_identical_rerun (same process, fresh interpreters under several PYTHONHASHSEED),
  fixed_program.bit_identical_repeat (3 repetitions with garbage in between; also across the fresh interpreters);
  fixed_program.no_read_of_uninitialised_memory (vf/rtc/poison.py: np.empty/empty_like poisoned, the C10 operation catalogue forward + backward).
"""
import json
import os
import subprocess
import sys
from concurrent.futures import ThreadPoolExecutor

from ..report import Run, ROOT
from ..rtc import repro, static_scan as S

# (seed, PYTHONHASHSEED) of the fresh interpreters; "random" = hash randomisation left to the interpreter
FRESH = {"quick": [(0, "0"), (0, "12345"), (0, "random")],
         "thorough": [(0, "0"), (0, "1"), (0, "12345"), (0, "random"), (1, "0"), (1, "random"), (2**31 - 1, "12345"), (2**31 - 1, "random")]}
SEEDS = {"quick": [0, 1], "thorough": [0, 1, 2**31 - 1]}


def static_part(run):
    files = S.all_files()
    run.extra["static_files_scanned"] = files
    if len(files) < 15:
        run.error("static: only %d source files found under %s" % (len(files), S.package_dir()))
    # ---- O1
    sites, n_ok = [], 0
    for rel in files:
        for s in S.random_sites(rel):
            sites.append("%s:%s:%s" % (s["file"], s["function"], s["callee"]))
            clause = None
            if s["class"] == "forbidden":
                clause = "unseeded_source"
            elif s["class"] == "dynamic":
                clause = "dynamic_code"
            elif s["class"] == "state" and s["where"] != "utils.py:manual_seed":
                clause = "reseeds_or_swaps_global_state"
            elif s.get("entropy_args"):
                clause = "time_or_entropy_argument"
            if clause:
                run.violation("static.no_unseeded_rng", "%s line %d: %s (%s)" % (s["where"], s["line"], s["callee"], clause),
                              key={"where": s["where"], "api": s["api"], "clause": clause}, replay={"static": s, "verifier_output": s}, reproduced=False)
            else:
                n_ok += 1
    run.add_counts(obligations=len(sites), discharged=n_ok, backend="static-ast")
    run.extra["static_random_call_sites"] = sites
    if len([s for s in sites if "np.random" in s]) < 5:
        run.error("static: fewer than 5 np.random call sites recognised (resolver out of date?)")
    # ---- O4: no masked ufunc call leaves part of its result uninitialised
    n_masked_ok = 0
    for rel in files:
        bad = S.masked_ufunc_outputs(rel)
        for b in bad:
            run.violation("static.no_uninitialised_output", "%s line %d: %s(..., where=...) with out=%s: the positions the mask excludes are never written, the result there is whatever "
                          "the allocator left behind" % (b["where"], b["line"], b["call"], b["out"]), key={"where": b["where"], "call": b["call"]}, replay={"static": b, "verifier_output": b}, reproduced=False)
        n_masked_ok += 0 if bad else 1
    run.add_counts(obligations=len(files), discharged=n_masked_ok, backend="static-ast")
    # ---- O3
    ms = S.manual_seed_check()
    run.add_counts(obligations=1, discharged=0 if ms["missing"] else 1, backend="static-ast")
    if ms["missing"]:
        run.violation("static.manual_seed_seeds_both", "manual_seed does not unconditionally seed %s with its argument" % ms["missing"],
                      key={"where": ms["where"], "clause": "generator_not_seeded", "api": ",".join(ms["missing"])}, replay={"static": ms, "verifier_output": ms}, reproduced=False)
    # ---- O2
    exempt_problems = S.visual_is_presentational(files)
    exempt, n_files_ok = [], 0
    for rel in files:
        uses = S.set_uses(rel)
        if rel.startswith("visual" + os.sep) and not exempt_problems:
            exempt += ["%s line %d: %s %s" % (u["where"], u["line"], u["clause"], u["name"]) for u in uses]
            uses = []
        for u in uses:
            run.violation("static.no_set_iteration", "%s line %d: %s (%s)" % (u["where"], u["line"], u["clause"], u["name"]),
                          key={"where": u["where"], "clause": u["clause"], "name": u["name"]}, replay={"static": u, "verifier_output": u}, reproduced=False)
        n_files_ok += 0 if uses else 1
    run.add_counts(obligations=len(files), discharged=n_files_ok, backend="static-ast")
    for p in exempt_problems:
        run.violation("static.no_set_iteration", "synapgrad/visual is not purely presentational: %s line %d %s" % (p["where"], p["line"], p["clause"]),
                      key=p, replay={"static": p, "verifier_output": p}, reproduced=False)
    run.extra["static_presentational_exempt"] = exempt
    bo = S.backward_order()
    run.add_counts(obligations=1, discharged=0 if bo["bad"] else 1, backend="static-ast")
    for b in bo["bad"]:
        run.violation("static.no_set_iteration", "%s: loop over `%s` does not take its order from a list / _children tuple" % (b["where"], b["name"]),
                      key=b, replay={"static": bo, "verifier_output": bo}, reproduced=False)
    run.extra["static_backward_loops"] = bo["loops"]
    run.sample({"static": "random call sites", "sites": sites})


def fresh(seed, hashseed):
    import synapgrad
    env = dict(os.environ)
    repo = os.path.dirname(os.path.dirname(os.path.abspath(synapgrad.__file__)))
    env.update(PYTHONPATH=os.pathsep.join([repo, ROOT]), PYTHONDONTWRITEBYTECODE="1", PYTHONHASHSEED=hashseed)
    cmd = "PYTHONHASHSEED=%s PYTHONPATH=%s %s -m vf.rtc.repro %d" % (hashseed, env["PYTHONPATH"], sys.executable, seed)
    p = subprocess.run([sys.executable, "-m", "vf.rtc.repro", str(seed)], cwd=ROOT, env=env, capture_output=True, text=True, timeout=300)
    line = next((l for l in reversed(p.stdout.splitlines()) if l.startswith("RESULT ")), None)
    if p.returncode or line is None:
        raise RuntimeError("fresh interpreter failed (exit %s): %s" % (p.returncode, p.stderr[-800:]))
    return cmd, json.loads(line[7:])


def poisoned(run, seed):
    """uninitialised allocations filled with NaN / a sentinel in a child interpreter, then the operation catalogue forward + backward (vf/rtc/poison.py)"""
    import synapgrad
    env = dict(os.environ)
    repo = os.path.dirname(os.path.dirname(os.path.abspath(synapgrad.__file__)))
    env.update(PYTHONPATH=os.pathsep.join([repo, ROOT]), PYTHONDONTWRITEBYTECODE="1")
    cmd = "PYTHONPATH=%s %s -m vf.rtc.poison %d" % (env["PYTHONPATH"], sys.executable, seed)
    p = subprocess.run([sys.executable, "-m", "vf.rtc.poison", str(seed)], cwd=ROOT, env=env, capture_output=True, text=True, timeout=600)
    line = next((l for l in reversed(p.stdout.splitlines()) if l.startswith("RESULT ")), None)
    if p.returncode or line is None:
        raise RuntimeError("poisoned-allocation run failed (exit %s): %s" % (p.returncode, p.stderr[-800:]))
    res = json.loads(line[7:])
    run.rt(("poisoned-allocations",), n=res["evaluations"])
    run.extra["poisoned_allocation_evaluations"] = res["evaluations"]
    if res["evaluations"] < 100:
        run.error("poisoned-allocation run evaluated only %d configurations" % res["evaluations"])
    seen = set()
    for f in res["failures"]:
        if (f["api"], f["where"].split(" ")[0]) in seen:
            continue
        seen.add((f["api"], f["where"].split(" ")[0]))
        run.violation("fixed_program.no_read_of_uninitialised_memory", "%s [%s, %s]: the %s contains values of an uninitialised buffer (np.empty/empty_like poisoned with NaN): "
                      "what a user gets there depends on the heap layout and on earlier computations [%d failing configurations]" %
                      (f["api"], f["pattern"], f["dtype"], f["where"], res["n_failures"]), key={"api": f["api"], "clause": "uninitialised_read", "where": f["where"].split(" ")[0]},
                      replay={"cmd": cmd, "case": f})


def compare(run, obligation, ref, other, key, what, replay):
    """report one violation per differing API group (first differing label of the group in the replay)"""
    ref, other = [list(x) for x in ref], [list(x) for x in other]
    if [l for l, _ in ref] != [l for l, _ in other]:
        run.violation(obligation, what + ": the sequence of produced arrays differs", key=dict(key, api="<sequence>"), replay=replay)
        return
    groups = {}
    for (l, a), (_, b) in zip(ref, other):
        if a != b:
            groups.setdefault(repro.group(l), []).append(l)
    for g, labels in groups.items():
        run.violation(obligation, "%s: %d arrays of `%s` differ bit-wise, first %s" % (what, len(labels), g, labels[0]),
                      key=dict(key, api=g), replay=dict(replay, differing=labels[:20]))


def runtime_part(run, tier, procs):
    with ThreadPoolExecutor(max_workers=procs or 4) as ex:
        futures = [(sd, hs, ex.submit(fresh, sd, hs)) for sd, hs in FRESH[tier]]
        inproc = {}
        for sd in SEEDS[tier]:
            a, b = repro.reference_program(sd), repro.reference_program(sd)
            inproc[sd] = a
            run.rt(("same_process", sd))
            compare(run, "manual_seed.bit_identical_rerun", a, b, {"clause": "same_process", "seed": sd},
                    "two runs after manual_seed(%d) in one process" % sd, {"python": "from vf.rtc import repro; repro.reference_program(%d) twice" % sd})
        run.sample({"reference_program": "manual_seed(0)", "arrays": len(inproc[0]), "first": inproc[0][:4]})
        # non-vacuity: every random-consuming group must react to the seed, otherwise the comparison above shows nothing
        sds = SEEDS[tier]
        for i in range(len(sds) - 1):
            a, b = inproc[sds[i]], inproc[sds[i + 1]]
            changed = {repro.group(l) for (l, x), (_, y) in zip(a, b) if x != y}
            missing = [g for g in repro.RANDOM_GROUPS if g not in changed]
            if missing:
                run.error("non-vacuity: seeds %d and %d give identical arrays for %s" % (sds[i], sds[i + 1], missing))
        reps = repro.repeated_fixed(3)
        run.rt(("repeat", "in_process"), n=3)
        for i in (1, 2):
            compare(run, "fixed_program.bit_identical_repeat", reps[0], reps[i], {"clause": "in_process_repetition", "repetition": i},
                    "repetition %d of the fixed forward/backward vs the first" % i, {"python": "from vf.rtc import repro; repro.repeated_fixed(3)"})
        hashes_seen = set()
        for sd, hs, fut in futures:
            cmd, res = fut.result()
            run.rt(("fresh_process", sd, hs))
            hashes_seen.add(res["hash_of_str"])
            compare(run, "manual_seed.bit_identical_rerun", inproc[sd], res["program"], {"clause": "fresh_process", "seed": sd, "pythonhashseed": hs},
                    "fresh interpreter (PYTHONHASHSEED=%s) vs this process after manual_seed(%d)" % (hs, sd), {"cmd": cmd})
            for i, rep in enumerate(res["repeat"]):
                compare(run, "fixed_program.bit_identical_repeat", reps[0], rep, {"clause": "fresh_process", "repetition": i, "pythonhashseed": hs},
                        "fixed forward/backward in a fresh interpreter (PYTHONHASHSEED=%s), repetition %d" % (hs, i), {"cmd": cmd})
        if len(hashes_seen) < 2:
            run.error("non-vacuity: hash('synapgrad') was the same in all fresh interpreters - PYTHONHASHSEED did not take effect")
        run.extra["fresh_interpreters"] = ["seed=%d PYTHONHASHSEED=%s" % (sd, hs) for sd, hs, _ in futures]
    poisoned(run, 0)


def main(tier="quick", seed=0, procs=None, only=None):
    run = Run("C19", tier, seed, "other")
    run.under_contract("synapgrad.manual_seed", "rand", "randn", "normal", "randint", "nn.init.*_", "nn.Linear", "nn.Conv1d", "nn.Conv2d", "nn.BatchNorm1d",
                       "nn.Dropout.forward", "nn.utils.data.split_dataset", "optim.SGD.step", "Tensor.backward")
    run.assume("NumPy's legacy global RandomState and the stdlib global Random are deterministic functions of their seed (trusted)",
               "dict iteration is insertion-ordered (language guarantee since 3.7), so only set/frozenset order and id()/hash() values can carry "
               "hash-seed or address dependence into results",
               "synapgrad/visual (graph drawing) is presentational: exempt from O2 after checking it stores into no attribute/subscript and is reached "
               "only from Tensor.draw_graph; its set iterations and id() uses are listed, not flagged",
               "pkg_resources is stubbed in the harness so that synapgrad.nn.utils (pkbar) imports on Python 3.12")
    run.bounds = {"static": "every .py file under synapgrad/ (names resolved through each file's import table; no inter-procedural type inference)",
                  "reference program": "manual_seed(s); rand/randn/normal/randint; stdlib random; every nn.init.*_ on a 4x6 tensor; Linear, Conv1d, Conv2d, "
                                       "BatchNorm1d; Dropout(0.4) twice in training mode; split_dataset(shuffle=True) of 20 rows; 5 SGD(momentum) steps of "
                                       "Linear-BatchNorm1d-ReLU-Dropout-Linear on 16x4 random data; sha256 of all 97 arrays in order",
                  "seeds in-process": SEEDS[tier], "fresh interpreters (seed, PYTHONHASHSEED)": FRESH[tier],
                  "repetition": "fixed forward/backward (matmul, tanh, relu, conv2d, max_pool2d, mse, log_softmax, sigmoid; a node with four consumers) "
                                "3x in-process with garbage allocated and partly kept in between, and 3x in every fresh interpreter"}
    run.rule = ("static obligation = one random call site / one source file (set discipline) / manual_seed / backward's loop sources; run-time evaluation = "
                "one comparison of the hash list of a whole program run against the reference run")
    run.explanation = (
        "Decided statically for the whole package (AST of %d files under %s, re-read on this run): O1 every randomness source is a seeded module-level "
        "np.random/random function and nothing else re-seeds or replaces the global generators; O2 outside synapgrad/visual no set is iterated, "
        "popped or escapes, no id()/hash() is used, and Tensor.backward's loops take their order from a list and the _children tuples; O3 manual_seed "
        "seeds both generators. These are sufficient conditions for 'all programs', established syntactically (no type inference across calls: a set "
        "returned from a function is caught where it escapes, not where it is later iterated). Only explored at run time, bounded: bit-identity of the "
        "97 arrays of one reference program for seeds %s in-process (twice each) and in %d fresh interpreters under PYTHONHASHSEED values %s; "
        "bit-identity of one fixed forward/backward over 3 repetitions with varying heap layout. Other programs, seeds, platforms and BLAS threading "
        "are not explored." % (len(S.all_files()), S.package_dir(), SEEDS[tier], len(FRESH[tier]), sorted({h for _, h in FRESH[tier]})))
    for name, part in (("static", lambda: static_part(run)), ("runtime", lambda: runtime_part(run, tier, procs))):
        try:
            part()
        except Exception as e:                      # harness failures are checker errors, never violations
            import traceback
            traceback.print_exc()
            run.error("C19 %s part" % name, e)
    return run.finish()
