"""C12, deductive part: the registration step of Module, for ALL attribute names and ALL registry states (unbounded).

The two registries of a Module are OrderedDicts.  An ordered map is modelled by its abstract state
    has : name -> Bool      val : name -> object id      pos : name -> rank      count : next rank
with the OrderedDict contract (assumed for the standard library, stated here):
    d[k] = v        has' = has[k := true],  val' = val[k := v],  a NEW key gets pos' = count and count' = count + 1, an existing key keeps its rank
    d.pop(k, dflt)  has' = has[k := false]                        (ranks of the other keys untouched)
Iteration order = increasing rank over {k | has(k)}.  Invariant Inv(d): has(k) => 0 <= pos(k) < count  (instantiated at the probe names; proved preserved).

Contracts proved on the real source (synapgrad/nn/modules.py, re-read on every run) with a universally quantified PROBE name q (and a second probe q2 for order):
  register_module(name, m)      raises TypeError and changes nothing unless m is a Module; else: name is a submodule with value m and is no parameter; every other
                                name keeps its registration in both maps; the relative order of any two other names is unchanged in both maps; a name that was
                                already a submodule keeps its rank, a new one comes after every existing submodule; getattr(self, name) is m; Inv preserved
  register_parameter(name, p)   symmetric
  train() / eval()              the mode of self and of EVERY module reachable from it is set, modules outside are untouched, self is returned -- by induction on the height of the
                                module graph: the recursive call on a child enters through its contract (the induction hypothesis), the loop over the children has an invariant
                                instantiated at a Skolem index (the child through which the probe module is reached)
  __setattr__(name, value)      value a Module / a Parameter: exactly the contract above (the callee is used through its CONTRACT, not its body);
                                anything else: name is in neither registry afterwards, everything else unchanged, getattr(self, name) is value
This is the step the bounded exploration of C12 (vf/rtc/modtree.py) relies on as "the call that breaks the registry invariant is blamed": here it is proved for
every name and every registry content, not only for the enumerated programs.
"""
import z3

from ..pyvc.engine import Executor, State, Obj, Opaque, Returned, Raised, LoopContract, to_z3 as to_z3_
from ..pyvc.harness import Target

MOD = "synapgrad/nn/modules.py"
NAME = "synapgrad.nn.modules.Module."
I, B = z3.IntSort(), z3.BoolSort()


def new_map(state, tag):
    d = Obj("OrderedDict")
    a = state.attrs(d)
    a["has"] = z3.Array("has_" + tag, I, B)
    a["val"] = z3.Array("val_" + tag, I, I)
    a["pos"] = z3.Array("pos_" + tag, I, I)
    a["count"] = z3.Int("count_" + tag)
    state.pc.append(a["count"] >= 0)
    return d


def snapshot(state, d):
    a = state.attrs(d)
    return {k: a[k] for k in ("has", "val", "pos", "count")}


def oid_of(state, v):
    """object identities as integers (0 = None); symbolic values keep their own z3 Int"""
    if v is None:
        return z3.IntVal(0)
    if z3.is_expr(v):
        return v
    ids = state.glob.setdefault("__ids", {})
    if isinstance(v, Obj):
        if v.oid not in ids:
            ids[v.oid] = len(ids) + 1000
        return z3.IntVal(ids[v.oid])
    if isinstance(v, Opaque):
        return z3.Int("id(%s)" % v.label)
    raise TypeError("no identity for %r" % (v,))


def m_setitem(ex, s, args, kw):
    d, k, v = args
    a = s.attrs(d)
    has, val, pos, cnt = a["has"], a["val"], a["pos"], a["count"]
    was = z3.Select(has, k)
    a["has"] = z3.Store(has, k, True)
    a["val"] = z3.Store(val, k, oid_of(s, v))
    a["pos"] = z3.If(was, pos, z3.Store(pos, k, cnt))
    a["count"] = z3.If(was, cnt, cnt + 1)
    return None


def m_pop(ex, s, args, kw):
    d, k = args[0], args[1]
    a = s.attrs(d)
    a["has"] = z3.Store(a["has"], k, False)
    return Opaque("popped")


def m_object_setattr(ex, s, args, kw):
    o, k, v = args
    a = s.attrs(o)
    a["__inst_has"] = z3.Store(a["__inst_has"], k, True)
    a["__inst_val"] = z3.Store(a["__inst_val"], k, oid_of(s, v))
    return None


def executor(extra_models=None):
    ex = Executor(havoc={"TypeError", "RuntimeError"}, class_models={"Module": {"mro": ["Module"]}, "Parameter": {"mro": ["Parameter", "Tensor"]}, "Tensor": {"mro": ["Tensor"]},
                                                                      "OrderedDict": {"mro": ["OrderedDict"]}})
    ex.models["OrderedDict.__setitem__"] = m_setitem
    ex.models["OrderedDict.pop"] = m_pop
    ex.models["object.__setattr__"] = m_object_setattr
    # check_is_initialized: contract "returns iff self._initialized" -- the targets assume an initialised module (its own target proves the contract)
    ex.models["Module.check_is_initialized"] = lambda ex_, s, args, kw: None
    ex.models.update(extra_models or {})
    return ex


def world(kind):
    """kind of the value: 'module' | 'parameter' | 'other'"""
    s = State()
    me = Obj("Module")
    a = s.attrs(me)
    subs, pars = new_map(s, "sub"), new_map(s, "par")
    a["_submodules"], a["_parameters"] = subs, pars
    a["_initialized"] = True
    a["training"] = True
    a["__inst_has"] = z3.Array("inst_has", I, B)
    a["__inst_val"] = z3.Array("inst_val", I, I)
    name, q, q2 = z3.Ints("name q q2")
    if kind == "module":
        value = Obj("Module")
    elif kind == "parameter":
        value = Obj("Parameter")
    else:
        value = Opaque("value")
        s.pc.append(z3.Not(z3.Bool("isinstance(%s,Module)" % value.label)))
        s.pc.append(z3.Not(z3.Bool("isinstance(%s,Parameter)" % value.label)))
    # invariant instantiated at the names we talk about
    for d in (subs, pars):
        da = s.attrs(d)
        for k in (name, q, q2):
            s.pc.append(z3.Implies(z3.Select(da["has"], k), z3.And(z3.Select(da["pos"], k) >= 0, z3.Select(da["pos"], k) < da["count"])))
    ctx = {"me": me, "subs": subs, "pars": pars, "name": name, "q": q, "q2": q2, "value": value, "kind": kind,
           "old": {"sub": snapshot(s, subs), "par": snapshot(s, pars), "inst_has": a["__inst_has"], "inst_val": a["__inst_val"]}}
    return s, ctx


def registration_clauses(ctx, s, target, other, vid, prefix=""):
    """`target` map receives name := value, `other` map loses name"""
    name, q, q2 = ctx["name"], ctx["q"], ctx["q2"]
    T, O = s.attrs(ctx[target]), s.attrs(ctx[other])
    T0, O0 = ctx["old"]["sub" if target == "subs" else "par"], ctx["old"]["par" if target == "subs" else "sub"]
    sel = z3.Select
    cl = [("registers_the_value_under_the_name", z3.And(sel(T["has"], name), sel(T["val"], name) == vid)),
          ("replaces_the_other_kind_of_registration", z3.Not(sel(O["has"], name))),
          ("leaves_other_names_alone", z3.Implies(q != name, z3.And(sel(T["has"], q) == sel(T0["has"], q), z3.Implies(sel(T0["has"], q), sel(T["val"], q) == sel(T0["val"], q)),
                                                                    sel(O["has"], q) == sel(O0["has"], q), z3.Implies(sel(O0["has"], q), sel(O["val"], q) == sel(O0["val"], q))))),
          ("keeps_registration_order_of_other_names", z3.Implies(z3.And(q != name, q2 != name, sel(T0["has"], q), sel(T0["has"], q2)),
                                                                 (sel(T["pos"], q) < sel(T["pos"], q2)) == (sel(T0["pos"], q) < sel(T0["pos"], q2)))),
          ("keeps_registration_order_in_the_other_registry", z3.Implies(z3.And(q != name, q2 != name, sel(O0["has"], q), sel(O0["has"], q2)),
                                                                        (sel(O["pos"], q) < sel(O["pos"], q2)) == (sel(O0["pos"], q) < sel(O0["pos"], q2)))),
          ("re_registration_keeps_its_slot", z3.Implies(sel(T0["has"], name), sel(T["pos"], name) == sel(T0["pos"], name))),
          ("new_name_goes_last", z3.Implies(z3.And(z3.Not(sel(T0["has"], name)), sel(T0["has"], q), q != name), sel(T["pos"], name) > sel(T["pos"], q))),
          ("registry_invariant_preserved", z3.And(*[z3.Implies(sel(M["has"], k), z3.And(sel(M["pos"], k) >= 0, sel(M["pos"], k) < M["count"])) for M in (T, O) for k in (name, q)]))]
    me = s.attrs(ctx["me"])
    cl.append(("getattr_returns_the_new_value", z3.And(sel(me["__inst_has"], name), sel(me["__inst_val"], name) == vid)))
    cl.append(("leaves_other_attributes_alone", z3.Implies(q != name, z3.And(sel(me["__inst_has"], q) == sel(ctx["old"]["inst_has"], q), sel(me["__inst_val"], q) == sel(ctx["old"]["inst_val"], q)))))
    return [(prefix + n, g) for n, g in cl]


def unchanged_clauses(ctx, s):
    q = ctx["q"]
    out = []
    for tag, key in (("subs", "sub"), ("pars", "par")):
        M, M0 = s.attrs(ctx[tag]), ctx["old"][key]
        out.append(z3.And(z3.Select(M["has"], q) == z3.Select(M0["has"], q), z3.Select(M["val"], q) == z3.Select(M0["val"], q), z3.Select(M["pos"], q) == z3.Select(M0["pos"], q),
                          M["count"] == M0["count"]))
    return z3.And(*out)


def make_replay(fn, kind):
    """native replay of a counter-model: a real Module whose registries hold `name` (and one other name) as the model says, then the real call"""
    def replay(ctx, model, clause):
        import numpy as np
        from synapgrad.nn.modules import Module, Parameter
        ev = lambda e: z3.is_true(model.eval(e, model_completion=True))
        old = ctx["old"]
        in_sub, in_par = ev(z3.Select(old["sub"]["has"], ctx["name"])), ev(z3.Select(old["par"]["has"], ctx["name"]))
        q_sub, q_par = ev(z3.Select(old["sub"]["has"], ctx["q"])), ev(z3.Select(old["par"]["has"], ctx["q"]))

        class T(Module):
            def forward(self, x):
                return x
        m = T()
        other_m, other_p = T(), Parameter(np.ones(2, dtype=np.float32))
        if q_sub:
            m._submodules["other"] = other_m
        if q_par:
            m._parameters["other"] = other_p
        if in_sub:
            m._submodules["x"] = T()
        if in_par:
            m._parameters["x"] = Parameter(np.zeros(1, dtype=np.float32))
        value = T() if kind == "module" else (Parameter(np.ones(3, dtype=np.float32)) if kind == "parameter" else 7)
        rep = {"before": {"x_is_submodule": in_sub, "x_is_parameter": in_par, "other_is_submodule": q_sub, "other_is_parameter": q_par}, "call": "%s('x', <%s>)" % (fn, kind)}
        try:
            if fn == "__setattr__":
                setattr(m, "x", value)
            else:
                getattr(m, fn)("x", value)
        except Exception as e:
            rep["raised"] = type(e).__name__
            ok = (fn == "register_module" and kind != "module") or (fn == "register_parameter" and kind != "parameter")
            ok = ok and ("x" in m._submodules) == in_sub and ("x" in m._parameters) == in_par
            return {**rep, "reproduced": not ok, "native_satisfies_contract": ok}
        want_sub, want_par = kind == "module", kind == "parameter"
        facts = {"x registered as submodule": ("x" in m._submodules) == want_sub, "x registered as parameter": ("x" in m._parameters) == want_par,
                 "registered value is the new one": (not want_sub or m._submodules["x"] is value) and (not want_par or m._parameters["x"] is value),
                 "getattr returns the new value": getattr(m, "x", None) is value,
                 "other name untouched": ("other" in m._submodules) == q_sub and ("other" in m._parameters) == q_par,
                 "accepted only the right kind": not ((fn == "register_module" and kind != "module") or (fn == "register_parameter" and kind != "parameter"))}
        bad = [k for k, v in facts.items() if not v]
        return {**rep, "facts_failing": bad, "parameters()": len(m.parameters()), "reproduced": bool(bad), "native_satisfies_contract": not bad}
    return replay


def targets():
    ts = []
    # ---- register_module / register_parameter on their own bodies
    for fn, tgt, oth, good in (("register_module", "subs", "pars", "module"), ("register_parameter", "pars", "subs", "parameter")):
        for kind in ("module", "parameter", "other"):
            def setup(ex, kind=kind):
                s, ctx = world(kind)
                return s, [ctx["me"], ctx["name"], ctx["value"]], ctx

            def ens(ctx, s, out, tgt=tgt, oth=oth, good=good, kind=kind):
                if isinstance(out, Raised):
                    return [("raises_only_for_the_wrong_kind_of_value", kind != good), ("a_rejected_call_changes_nothing", unchanged_clauses(ctx, s))]
                if kind != good:
                    return [("rejects_the_wrong_kind_of_value", False)]
                return registration_clauses(ctx, s, tgt, oth, oid_of(s, ctx["value"]))
            ts.append(Target(NAME + "%s[value is %s]" % (fn, {"module": "a Module", "parameter": "a Parameter", "other": "neither"}[kind]), MOD, "Module." + fn, setup, ens, replay=make_replay(fn, kind), executor=executor,
                             key={"value_kind": kind}))

    # ---- __setattr__: callees through their contracts
    def contract(tgt, oth):
        def model(ex, s, args, kw):
            me, name, value = args
            a = s.attrs(me)
            m_pop(ex, s, [a["_parameters" if tgt == "_submodules" else "_submodules"], name], {})
            m_setitem(ex, s, [a[tgt], name, value], {})
            m_object_setattr(ex, s, [me, name, value], {})
            return None
        return model
    callee = {"Module.register_module": contract("_submodules", "_parameters"), "Module.register_parameter": contract("_parameters", "_submodules")}
    for kind in ("module", "parameter", "other"):
        def setup(ex, kind=kind):
            s, ctx = world(kind)
            return s, [ctx["me"], ctx["name"], ctx["value"]], ctx

        def ens(ctx, s, out, kind=kind):
            if isinstance(out, Raised):
                return [("completes", False)]
            if kind == "module":
                return registration_clauses(ctx, s, "subs", "pars", oid_of(s, ctx["value"]))
            if kind == "parameter":
                return registration_clauses(ctx, s, "pars", "subs", oid_of(s, ctx["value"]))
            name, q = ctx["name"], ctx["q"]
            S_, P_ = s.attrs(ctx["subs"]), s.attrs(ctx["pars"])
            me = s.attrs(ctx["me"])
            sel = z3.Select
            others = z3.Implies(q != name, z3.And(*[z3.And(sel(M["has"], q) == sel(M0["has"], q), sel(M["val"], q) == sel(M0["val"], q), sel(M["pos"], q) == sel(M0["pos"], q))
                                                    for M, M0 in ((S_, ctx["old"]["sub"]), (P_, ctx["old"]["par"]))]))
            return [("replaces_registration_by_a_plain_attribute", z3.And(z3.Not(sel(S_["has"], name)), z3.Not(sel(P_["has"], name)))),
                    ("leaves_other_names_alone", others),
                    ("getattr_returns_the_new_value", z3.And(sel(me["__inst_has"], name), sel(me["__inst_val"], name) == oid_of(s, ctx["value"])))]
        ts.append(Target(NAME + "__setattr__[value is %s]" % {"module": "a Module", "parameter": "a Parameter", "other": "neither"}[kind], MOD, "Module.__setattr__", setup, ens, replay=make_replay("__setattr__", kind),
                         executor=lambda: executor(callee), key={"value_kind": kind}))

    # ---- train() / eval(): the mode of EVERY reachable submodule, by induction on the height of the module graph (a DAG)
    #   reach(m, x): x is m or a descendant of m (uninterpreted); children c(0..n-1) of self; axiom at the probe q:  reach(self, q)  =>  q == self  or  reach(c(jq), q) for some 0 <= jq < n
    #   induction hypothesis = contract of the recursive call on a child:  T'[x] = mode if reach(child, x) else T[x]   (used at the probe only)
    #   loop invariant (instantiated at the Skolem index jq):  jq < k and reach(c(jq), q)  =>  T[q] == mode ;  self.training == mode ;  nothing outside reach(self) changes
    R = z3.Function("reach", I, I, B)
    cfun = z3.Function("child", I, I)
    for meth, mode in (("train", True), ("eval", False)):
        def setup(ex, meth=meth, mode=mode):
            s = State()
            me = Obj("Module")
            sid, q, jq, n, out_q = z3.Ints("self_id q jq n outsider")
            s.attrs(me)["training"] = z3.Bool("own_mode0")
            s.attrs(me)["id"] = sid
            T0 = z3.Array("mode_of", I, B)
            s.glob["T"] = T0
            s.pc += [n >= 0, q != sid, out_q != sid, z3.Not(R(sid, out_q)), R(sid, sid),
                     z3.Implies(R(sid, q), z3.And(jq >= 0, jq < n, R(cfun(jq), q))),                         # reach axiom at the probe
                     z3.ForAll([z3.Int("j_")], z3.Implies(z3.And(z3.Int("j_") >= 0, z3.Int("j_") < n), z3.Implies(R(cfun(z3.Int("j_")), out_q), R(sid, out_q))))]   # children's descendants are mine

            def child_call(ex_, st, args, kw):          # the recursive call through its contract (induction hypothesis)
                cid = st.attrs(args[0])["id"]
                T = st.glob["T"]
                ex_._nT = getattr(ex_, "_nT", 0) + 1
                T2 = z3.Array("mode_of@%d" % ex_._nT, I, B)
                for x in (q, out_q):
                    st.pc.append(z3.Select(T2, x) == z3.If(R(cid, x), z3.BoolVal(mode), z3.Select(T, x)))
                st.glob["T"] = T2
                return args[0]
            ex.models["Module." + meth] = child_call

            def havoc(st, k):
                st.glob["T"] = z3.Array("mode_of_at_%s" % k, I, B)

            def inv(st, k):
                T = st.glob["T"]
                return [("descendants_reached_so_far_have_the_mode", z3.Implies(z3.And(jq < k, R(sid, q)), z3.Select(T, q) == mode)),
                        ("own_flag_set", st.attrs(me)["training"] == mode), ("modules_outside_are_untouched", z3.Select(T, out_q) == z3.Select(T0, out_q))]

            def bind(st, k):
                m = Obj("Module")
                st.attrs(m)["id"] = cfun(k)
                return m
            ex.loop_contracts = {"self.submodules()": LoopContract("submodule_loop", lambda st: n, inv, havoc, bind, frame=("T",))}
            return s, [me], {"me": me, "q": q, "sid": sid, "T0": T0, "out_q": out_q, "mode": mode}

        def ens(ctx, s, out):
            if isinstance(out, Raised):
                return [("completes", False)]
            T = s.glob["T"]
            return [("sets_its_own_mode", s.attrs(ctx["me"])["training"] == ctx["mode"]),
                    ("sets_the_mode_of_every_reachable_submodule", z3.Implies(R(ctx["sid"], ctx["q"]), z3.Select(T, ctx["q"]) == ctx["mode"])),
                    ("leaves_modules_outside_alone", z3.Select(T, ctx["out_q"]) == z3.Select(ctx["T0"], ctx["out_q"])), ("returns_self", out.value is ctx["me"])]

        def mk():
            return Executor()

        def replay(ctx, model, clause, meth=meth, mode=mode):
            """a real three-level tree whose root starts in the counter-model's own mode and whose descendants start in the opposite one"""
            from synapgrad.nn.modules import Module

            class T(Module):
                def forward(self, x):
                    return x
            own = z3.is_true(model.eval(z3.Bool("own_mode0"), model_completion=True))
            root, mid, leaf, out = T(), T(), T(), T()
            root.a, mid.b = mid, leaf
            for m_, v in ((root, own), (mid, not mode), (leaf, not mode), (out, not mode)):
                object.__setattr__(m_, "training", v)
            ret = getattr(root, meth)()
            facts = {"root": root.training == mode, "child": mid.training == mode, "grandchild": leaf.training == mode, "module outside untouched": out.training == (not mode), "returns self": ret is root}
            bad = [k_ for k_, v in facts.items() if not v]
            return {"tree": "root(training=%s) -> child(training=%s) -> grandchild(training=%s)" % (own, not mode, not mode), "call": "root.%s()" % meth, "facts_failing": bad,
                    "reproduced": bool(bad), "native_satisfies_contract": not bad}
        ts.append(Target(NAME + meth + "[every reachable submodule, any module graph]", MOD, "Module." + meth, setup, ens, replay=replay, executor=mk, key={"mode": meth}))

    # ---- freeze / unfreeze / zero_grad: act on EXACTLY the parameters that parameters() reports (callee contract: parameters() lists the reachable parameters; bounded part)
    pfun = z3.Function("param", I, I)
    for meth in ("freeze", "unfreeze", "zero_grad"):
        def setup(ex, meth=meth):
            s = State()
            me = Obj("Module")
            j, n, o = z3.Ints("j n outsider_param")
            RG0, Z0 = z3.Array("requires_grad_of", I, B), z3.Array("zeroed", I, B)
            s.glob["RG"], s.glob["Z"] = RG0, Z0
            s.pc += [n >= 0, j >= 0, j < n, z3.ForAll([z3.Int("i_")], z3.Implies(z3.And(z3.Int("i_") >= 0, z3.Int("i_") < n), pfun(z3.Int("i_")) != o))]
            ex.attr_models[("Parameter", "requires_grad")] = lambda ex_, st, obj: z3.Select(st.glob["RG"], st.attrs(obj)["id"])

            def set_rg(ex_, st, obj, value):
                st.glob["RG"] = z3.Store(st.glob["RG"], st.attrs(obj)["id"], value if z3.is_expr(value) else z3.BoolVal(bool(value)))
                return None
            ex.setattr_models[("Parameter", "requires_grad")] = set_rg

            def zero_(ex_, st, args, kw):
                st.glob["Z"] = z3.Store(st.glob["Z"], st.attrs(args[0])["id"], True)
                return None
            ex.models["Parameter.zero_"] = zero_
            want = {"freeze": lambda RG, Z, x: z3.Select(RG, x) == False, "unfreeze": lambda RG, Z, x: z3.Select(RG, x) == True,          # noqa: E712
                    "zero_grad": lambda RG, Z, x: z3.And(z3.Select(RG, x) == z3.Select(RG0, x), z3.Implies(z3.Select(RG0, x), z3.Select(Z, x)))}[meth]      # a frozen parameter may be zeroed or skipped (both readings)

            def havoc(st, k):
                st.glob["RG"] = z3.Array("requires_grad_at_%s" % k, I, B)
                st.glob["Z"] = z3.Array("zeroed_at_%s" % k, I, B)

            def inv(st, k):
                RG, Z = st.glob["RG"], st.glob["Z"]
                return [("parameters_visited_so_far_are_done", z3.Implies(j < k, want(RG, Z, pfun(j)))),
                        ("parameters_not_listed_are_untouched", z3.And(z3.Select(RG, o) == z3.Select(RG0, o), z3.Select(Z, o) == z3.Select(Z0, o))),
                        ("flags_untouched_by_zero_grad", (st.glob["RG"] == RG0) if meth == "zero_grad" else z3.BoolVal(True))]

            def bind(st, k):
                p = Obj("Parameter")
                st.attrs(p)["id"] = pfun(k)
                return p
            ex.loop_contracts = {"self.parameters()": LoopContract("parameter_loop", lambda st: n, inv, havoc, bind, frame=("RG", "Z"))}
            return s, [me], {"j": j, "o": o, "RG0": RG0, "Z0": Z0, "want": want}

        def ens(ctx, s, out):
            if isinstance(out, Raised):
                return [("completes", False)]
            RG, Z = s.glob["RG"], s.glob["Z"]
            return [("acts_on_every_listed_parameter", ctx["want"](RG, Z, pfun(ctx["j"]))),
                    ("leaves_other_parameters_alone", z3.And(z3.Select(RG, ctx["o"]) == z3.Select(ctx["RG0"], ctx["o"]), z3.Select(Z, ctx["o"]) == z3.Select(ctx["Z0"], ctx["o"])))]
        ts.append(Target(NAME + meth + "[every listed parameter, no other]", MOD, "Module." + meth, setup, ens, executor=lambda: Executor(), key={"method": meth}))

    # ---- num_params: the sum of the sizes of the listed parameters, split by their requires_grad flag -- for every number of parameters (spec functions S / St / Sn are
    #      defined by recursion over the list; the loop invariant is "the three counters are S(k), St(k), Sn(k)"); which of the three is returned follows the two flags
    sizef, rgf = z3.Function("size_of", I, I), z3.Function("requires_grad_of_param", I, B)
    S, St, Sn = z3.Function("S", I, I), z3.Function("St", I, I), z3.Function("Sn", I, I)

    def setup_np(ex):
        s = State()
        me = Obj("Module")
        n = z3.Int("n")
        tr, ntr = z3.Bools("trainable non_trainable")
        i_ = z3.Int("i_")
        s.pc += [n >= 0, S(0) == 0, St(0) == 0, Sn(0) == 0]

        def unfold(i_):       # the recursive definition of the spec functions, instantiated where the proof needs it (quantifier-free: refutations come with a model)
            return z3.And(S(i_ + 1) == S(i_) + sizef(pfun(i_)), St(i_ + 1) == St(i_) + z3.If(rgf(pfun(i_)), sizef(pfun(i_)), 0),
                          Sn(i_ + 1) == Sn(i_) + z3.If(rgf(pfun(i_)), 0, sizef(pfun(i_))))
        ex.attr_models[("Parameter", "requires_grad")] = lambda ex_, st, obj: rgf(st.attrs(obj)["id"])
        ex.attr_models[("Parameter", "size")] = lambda ex_, st, obj: sizef(st.attrs(obj)["id"])
        def roles(loop):
            """the three accumulators of the loop, found by WHERE they are incremented, not by what they are called: unconditionally (total), under the test of the
            requires_grad flag (trainable), in its else branch (frozen)"""
            import ast as _ast
            total = trainable = frozen = None
            for b in loop.body:
                if isinstance(b, _ast.AugAssign) and isinstance(b.target, _ast.Name):
                    total = total or b.target.id
                elif isinstance(b, _ast.If) and "requires_grad" in _ast.unparse(b.test):
                    neg = isinstance(b.test, _ast.UnaryOp) and isinstance(b.test.op, _ast.Not)
                    yes = [x.target.id for x in b.body if isinstance(x, _ast.AugAssign) and isinstance(x.target, _ast.Name)]
                    no = [x.target.id for x in b.orelse if isinstance(x, _ast.AugAssign) and isinstance(x.target, _ast.Name)]
                    if neg:
                        yes, no = no, yes
                    trainable, frozen = (yes or [None])[0], (no or [None])[0]
            if None in (total, trainable, frozen):
                raise KeyError("accumulators of the counting loop not recognised")
            return (total, trainable, frozen)

        def havoc(st, k):
            for nm in roles(lc.node):
                st.env[nm] = z3.Int("%s_at_%s" % (nm, k))
            st.pc.append(unfold(k))

        def inv(st, k):
            return [("counters_are_the_partial_sums", z3.And(*[to_z3_(st.env[nm]) == f(k) for nm, f in zip(roles(lc.node), (S, St, Sn))]))]

        def bind(st, k):
            p_ = Obj("Parameter")
            st.attrs(p_)["id"] = pfun(k)
            return p_
        lc = LoopContract("parameter_loop", lambda st: n, inv, havoc, bind)
        ex.loop_contracts = {"self.parameters()": lc}
        return s, [me, tr, ntr], {"n": n, "tr": tr, "ntr": ntr}

    def ens_np(ctx, s, out):
        if isinstance(out, Raised):
            return [("completes", False)]
        n, v = ctx["n"], to_z3_(out.value)
        return [("total_trainable_or_frozen_element_count_as_selected", v == z3.If(ctx["tr"], St(n), z3.If(ctx["ntr"], Sn(n), S(n))))]

    def replay_np(ctx, model, clause):
        from synapgrad.nn.modules import Module, Parameter
        import numpy as np

        class T(Module):
            def forward(self, x):
                return x
        m_ = T()
        sizes, flags = (1, 2, 3, 5), (True, False, True, False)
        for k_, (sz, f_) in enumerate(zip(sizes, flags)):
            setattr(m_, "p%d" % k_, Parameter(np.ones(sz, dtype=np.float32), requires_grad=f_))
        got = (m_.num_params(), m_.num_params(trainable=True), m_.num_params(non_trainable=True))
        want = (11, 4, 7)
        return {"module": "four parameters of sizes %s with requires_grad %s" % (sizes, flags), "num_params / trainable / non_trainable": got, "expected": want,
                "reproduced": got != want, "native_satisfies_contract": got == want}
    ts.append(Target(NAME + "num_params[any number of listed parameters]", MOD, "Module.num_params", setup_np, ens_np, replay=replay_np, executor=lambda: Executor()))

    # ---- Sequential.forward: the submodules are applied in registration order, each to the result of the one before -- for every number of submodules
    app, Fx = z3.Function("apply", I, I, I), z3.Function("F", I, I)

    def setup_sf(ex):
        s = State()
        me = Obj("Sequential")
        n, x = z3.Ints("n x")
        i_ = z3.Int("i_")
        s.pc += [n >= 0, Fx(0) == x]
        ex.models["Module.__call__"] = lambda ex_, st, args, kw: app(st.attrs(args[0])["id"], to_z3_(args[1]))

        def carried(loop):
            """the locals the loop carries from one iteration to the next (every name its body assigns; `out` and `inp` today, one name if they are ever merged)"""
            import ast as _ast
            names = sorted({t.id for b in _ast.walk(loop) for t in (b.targets if isinstance(b, _ast.Assign) else []) if isinstance(t, _ast.Name)})
            if not names:
                raise KeyError("no carried local in the loop")
            return names

        def havoc(st, k):
            for nm in carried(lcs.node):
                st.env[nm] = z3.Int("%s_at_%s" % (nm, k))
            st.pc.append(Fx(k + 1) == app(cfun(k), Fx(k)))       # the recursive definition of the composition, instantiated at this iteration

        def inv(st, k):
            return [("value_so_far_is_the_composition_of_the_first_k_submodules", z3.And(*[to_z3_(st.env[nm]) == Fx(k) for nm in carried(lcs.node)]))]

        def bind(st, k):
            m_ = Obj("Module")
            st.attrs(m_)["id"] = cfun(k)
            return m_
        lcs = LoopContract("submodule_loop", lambda st: n, inv, havoc, bind)
        ex.loop_contracts = {"self.submodules()": lcs}
        return s, [me, x], {"n": n, "x": x}

    def ens_sf(ctx, s, out):
        if isinstance(out, Raised):
            return [("completes", False)]
        return [("result_is_the_composition_in_registration_order", to_z3_(out.value) == Fx(ctx["n"]))]

    def replay_sf(ctx, model, clause):
        from synapgrad.nn.modules import Module, Sequential
        log = []

        class T(Module):
            def __init__(self, k):
                super().__init__()
                object.__setattr__(self, "k", k)

            def forward(self, x):
                log.append(self.k)
                return x * 10 + self.k
        cases = {}
        for n_ in range(0, 4):
            del log[:]
            got = Sequential(*[T(k_ + 1) for k_ in range(n_)])(7)
            want = int("7" + "".join(str(k_ + 1) for k_ in range(n_)))
            cases[n_] = (got, want, list(log))
        bad = {k_: v for k_, v in cases.items() if v[0] != v[1] or v[2] != list(range(1, k_ + 1))}
        return {"sequentials_of_0_to_3_submodules": {str(k_): {"got": v[0], "expected": v[1], "applied": v[2]} for k_, v in cases.items()}, "reproduced": bool(bad), "native_satisfies_contract": not bad}
    ts.append(Target(NAME.replace("Module.", "Sequential.") + "forward[any number of submodules]", MOD, "Sequential.forward", setup_sf, ens_sf, replay=replay_sf, executor=lambda: Executor()))

    # ---- check_is_initialized: raises iff the module was not initialised
    def setup_ci(ex):
        s = State()
        me = Obj("Module")
        flag = z3.Bool("initialized")
        s.attrs(me)["_initialized"] = flag
        return s, [me], {"flag": flag}

    def ens_ci(ctx, s, out):
        return [("raises_iff_not_initialized", z3.Not(ctx["flag"]) if isinstance(out, Raised) else ctx["flag"])]

    def ex_ci():
        e = Executor(havoc={"RuntimeError"})
        return e
    ts.append(Target(NAME + "check_is_initialized", MOD, "Module.check_is_initialized", setup_ci, ens_ci, executor=ex_ci))
    return ts
