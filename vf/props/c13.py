"""C13 - Dropout and BatchNorm honour train/eval mode over any call history.

 * pyvc (unbounded: every combination of training / track_running_stats / momentum in R or None / buffers present or None
   and EVERY batch counter k >= 0): BatchNorm.forward hands F.batch_norm the documented averaging factor (momentum, or
   1/(k+1) for the cumulative average), increments the counter exactly once iff training and tracking, selects batch
   statistics iff training or no buffers, and passes the running buffers iff (eval or tracking).
 * symreal (all values, bounded histories): the BatchNorm layers on histories of <=3 calls with train()/eval() switches:
   outputs equal the reference normalisation (batch mean / biased variance in training, running buffers in eval), buffers
   move by (1-f)*old + f*new with the UNBIASED variance exactly once per training forward and are term-identical after an
   eval forward; two eval calls on the same input give identical terms.  Dropout: eval is the identity (same tensor object),
   training output == x * m/(1-p) and gradient == g * m/(1-p) with the SAME mask m in {0,1}, m = [u > p] for the uniforms u
   that were drawn (the law of np.random.rand is the assumed external contract).
 * run time (bounded): float32 forwards for batch sizes 2-5, 2-d/3-d/4-d inputs, Dropout statistics over 10^5 elements.
"""
import itertools
import sys

import numpy as np
import z3

from ..report import Run
from ..spec import refsem as R
from ..pyvc.engine import Executor, State, Obj, Opaque, Returned, Raised, _real, to_z3
from ..pyvc.harness import Target, TargetCase
from ..symreal import core, shim
from ..symreal.core import S, symarr, new_session
from ..symreal.discharge import prove_equal
from ..symreal.pool import run_catalogue

LAYERS = "synapgrad/nn/layers.py"
BN = "synapgrad.nn.layers.BatchNorm.forward"


# ------------------------------------------------------------------------------------------------------ pyvc: mode logic
def bn_targets():
    ts = []
    for mom_none, track in itertools.product([False, True], repeat=2):
        def setup(ex, mom_none=mom_none, track=track):
            s = State()
            me = Obj("BatchNorm")
            a = s.attrs(me)
            training = z3.Bool("training")
            k = z3.Int("num_batches_tracked")
            s.pc.append(k >= 0)
            mom = None if mom_none else z3.Real("momentum")
            a.update({"momentum": mom, "training": training, "track_running_stats": track, "num_batches_tracked": k, "eps": z3.Real("eps"),
                      "weight": Obj("Tensor"), "bias": Obj("Tensor")})
            # constructor invariant: buffers exist iff track_running_stats
            a["running_mean"] = Obj("Tensor") if track else None
            a["running_var"] = Obj("Tensor") if track else None

            def bn(ex_, st, args, kw):
                # arguments bound as Python binds them to batch_norm's signature, whether the call passes them by position or by name
                names = ("x", "weight", "bias", "running_mean", "running_var", "training", "momentum", "eps")
                bound = list(args) + [None] * (len(names) - len(args))
                given = set(range(len(args)))
                for k_, v_ in kw.items():
                    if k_ in names and names.index(k_) not in given:
                        bound[names.index(k_)] = v_
                        given.add(names.index(k_))
                st.glob["__bn_args"] = tuple(bound) if len(given) == len(names) and len(args) <= len(names) else tuple(args)
                return Opaque("out")
            ex.models["F.batch_norm"] = bn
            return s, [me, Obj("Tensor")], {"me": me, "training": training, "k": k, "mom": mom, "track": track, "rm": a["running_mean"], "rv": a["running_var"]}

        def ens(ctx, s, out, mom_none=mom_none, track=track):
            if isinstance(out, Raised):
                return [("completes", False)]
            args = s.glob.get("__bn_args")
            if args is None or len(args) != 8:
                return [("calls_batch_norm_once", False)]
            x, w, b, rm, rv, bn_training, factor, eps = args
            tr = ctx["training"]
            k0 = ctx["k"]
            k1 = s.attrs(ctx["me"])["num_batches_tracked"]
            cl = []
            if track:
                cl.append(("counter_increases_by_one_iff_training", to_z3(k1) == z3.If(tr, k0 + 1, k0)))
                if mom_none:
                    # cumulative moving average: 1/(number of training batches seen, this one included)
                    f = _real(factor) if z3.is_expr(factor) else to_z3(float(factor))
                    cl.append(("cumulative_average_factor", z3.Implies(tr, f * _real(k0 + 1) == 1)))
                else:
                    cl.append(("exponential_average_factor_is_momentum", z3.is_expr(factor) and factor.eq(ctx["mom"])))
                cl.append(("buffers_passed", rm is ctx["rm"] and rv is ctx["rv"]))
                bt = bn_training if z3.is_expr(bn_training) else z3.BoolVal(bool(bn_training))
                cl.append(("batch_statistics_iff_training", bt == tr))
            else:
                cl.append(("counter_unchanged_without_tracking", to_z3(k1) == k0 if z3.is_expr(k1) else k1 == k0))
                bt = bn_training if z3.is_expr(bn_training) else z3.BoolVal(bool(bn_training))
                cl.append(("batch_statistics_always_without_buffers", bt == z3.BoolVal(True)))
                cl.append(("no_buffers_passed", rm is None and rv is None))
            return cl
        ts.append(Target(BN + "[momentum=%s, track_running_stats=%s]" % ("None" if mom_none else "real", track), LAYERS, "BatchNorm.forward", setup, ens,
                         executor=lambda: Executor(havoc={"print"}), key={"momentum_none": mom_none, "track_running_stats": track}))
    return ts


# ------------------------------------------------------------------------------------------------- symreal: histories
class BNHistory:
    expect = "bn-history"
    functions = ("synapgrad.nn.layers.BatchNorm.forward", "synapgrad.nn.functional.batch_norm", "synapgrad.cpu_ops.batch_norm_forward", "synapgrad.nn.modules.Module.train",
                 "synapgrad.nn.modules.Module.eval")

    def __init__(self, cls, shape, affine, track, momentum, events):
        self.cls, self.shape, self.affine, self.track, self.momentum, self.events = cls, tuple(shape), affine, track, momentum, tuple(events)
        self.name = "synapgrad.nn.layers.%s[history]" % cls
        self.key = {"layer": cls, "shape": list(shape), "affine": affine, "track_running_stats": track, "momentum": momentum, "history": list(events)}

    def run(self, seed):
        res = {"name": self.name, "key": dict(self.key), "obligations": 0, "discharged": 0, "backends": {}, "paths": 1, "solver_s": 0.0,
               "failures": [], "undecided": [], "errors": [], "notes": [], "status": "ok", "faithful": 0, "sample": None}
        try:
            self._run(res, seed)
        except Exception as e:
            import traceback
            res["errors"].append("%s %s: %s\n%s" % (self.name, self.key, e, traceback.format_exc()[-1500:]))
        return res

    def _world(self, mode, sess=None, point=None):
        import synapgrad.nn as nn
        from synapgrad.tensor import Tensor
        from synapgrad.nn.modules import Parameter
        C = self.shape[1]

        def arr(name, shape):
            if mode == "sym":
                return symarr(name, shape)
            from ..symreal.harness import var_names
            return np.array([point[n] for n in var_names(name, shape)], dtype=np.float64).reshape(shape)
        if self.momentum == "symbolic":
            mom = S(sess.var("mom")) if mode == "sym" else point["mom"]
        else:
            mom = self.momentum
        eps = S(sess.var("eps")) if mode == "sym" else point["eps"]
        L = getattr(nn, self.cls)(C, eps=eps, momentum=mom, affine=self.affine, track_running_stats=self.track, dtype=(object if mode == "sym" else np.float64))
        if self.affine:
            L.weight = Parameter(arr("gamma", (C,)), requires_grad=True)
            L.bias = Parameter(arr("beta", (C,)), requires_grad=True)
        if self.track:
            L.running_mean = Tensor(arr("rm", (C,)))
            L.running_var = Tensor(arr("rv", (C,)))
        return L, arr, mom, eps

    def _run(self, res, seed):
        sess = new_session()
        fail = None

        def bump(b):
            res["obligations"] += 1
            res["discharged"] += 1
            res["backends"][b] = res["backends"].get(b, 0) + 1
        with shim.symbolic(eps="native"):
            sess.pre += [sess.var("eps") > 0, sess.var("mom") > 0, sess.var("mom") < 1]
            C = self.shape[1]
            for c in range(C):
                sess.pre.append(sess.var("rv_%d" % c) > 0)
            L, arr, mom, eps = self._world("sym", sess)
            rm = None if not self.track else np.array(L.running_mean.data, dtype=object)
            rv = None if not self.track else np.array(L.running_var.data, dtype=object)
            gamma = L.weight.data if self.affine else None
            beta = L.bias.data if self.affine else None
            k = 0
            training = True
            track_now = self.track
            last_eval = None
            nfw = 0
            for ei, ev in enumerate(self.events):
                if ev in ("train", "eval"):
                    getattr(L, ev)()
                    training = ev == "train"
                    continue
                if ev in ("freeze", "unfreeze"):
                    getattr(L, ev)()            # whether the affine parameters are trainable is none of the statistics' business
                    continue
                if ev in ("flag_off", "flag_on"):
                    L.track_running_stats = ev == "flag_on"     # switched after construction: the buffers stay (PyTorch semantics: eval keeps using them, nothing updates them while off)
                    track_now = ev == "flag_on"
                    continue
                from synapgrad.tensor import Tensor
                if ev == "bw":
                    # backward through the last forward: running statistics change exactly once per FORWARD, so never here
                    snaps = None if not self.track else (L.running_mean.data, L.running_mean.data.copy(), L.running_var.data, L.running_var.data.copy())
                    info = {"event_index": ei, "training": training, "forward_number": nfw}
                    try:
                        last_out.backward(Tensor(symarr("g%d" % ei, last_out.shape)))
                    except Exception as e:
                        fail = ("backward_completes", "backward at event %d raised %s: %s" % (ei, type(e).__name__, e), info)
                        break
                    if self.track:
                        a0, s0, a1, s1 = snaps
                        same = L.running_mean.data is a0 and L.running_var.data is a1 and all(p is q for p, q in zip(a0.ravel(), s0.ravel())) and \
                            all(p is q for p, q in zip(a1.ravel(), s1.ravel())) and getattr(L, "num_batches_tracked", None) == k
                        if not same:
                            fail = ("backward_leaves_running_statistics_untouched", "a backward call through a %s-mode forward changed the running statistics" %
                                    ("training" if training else "eval"), info)
                            break
                        bump("syntactic")
                    continue
                # "fw_other": a batch of another size (the short last batch of an epoch): every batch counts once in the cumulative average, whatever its size
                x = arr("x%d" % nfw, self.shape) if ev == "fw" else (arr("x%d" % nfw, (self.shape[0] + 1,) + tuple(self.shape[1:])) if ev == "fw_other" else last_x)
                nfw += 1 if ev in ("fw", "fw_other") else 0
                last_x = x
                rm_obj = None if not self.track else L.running_mean.data
                rv_obj = None if not self.track else L.running_var.data
                rm_snap = None if rm_obj is None else rm_obj.copy()
                rv_snap = None if rv_obj is None else rv_obj.copy()
                try:
                    out = last_out = L(Tensor(x.copy(), requires_grad=True))
                except Exception as e:
                    fail = ("forward_completes", "forward %d raised %s: %s" % (ei, type(e).__name__, e), {"event_index": ei, "training": training})
                    break
                # ---- specification
                use_batch = training or not self.track
                if training and self.track and track_now:
                    k += 1
                    f = mom if mom is not None else 1.0 / float(k)
                else:
                    f = mom if mom is not None else 0.0
                try:
                    y, nrm, nrv = R.batch_norm(x, gamma, beta, rm, rv, use_batch if self.track else True, f, eps, lambda v: S.of(v).sqrt())
                except R.Reject as e:
                    res["status"] = "rejected"
                    return
                if self.track and (not training or not track_now):
                    nrm, nrv = rm, rv
                info = {"event_index": ei, "training": training, "forward_number": nfw}
                pairs = [("output_is_the_documented_normalisation", np.asarray(out.data, dtype=object), y)]
                if self.track:
                    pairs += [("running_mean_follows_moving_average", np.asarray(L.running_mean.data, dtype=object), nrm),
                              ("running_var_follows_moving_average_of_unbiased_variance", np.asarray(L.running_var.data, dtype=object), nrv)]
                for clause, got, exp in pairs:
                    if got.shape != np.asarray(exp).shape:
                        fail = (clause, "shape %s vs %s" % (got.shape, np.asarray(exp).shape), info)
                        break
                    for idx in np.ndindex(*got.shape):
                        a, b = S.of(got[idx]), S.of(exp[idx])
                        v = prove_equal(a, b, list(sess.pre) + sess.relevant_axioms(list(sess.pre) + [a.n, a.d, b.n, b.d]), timeout_ms=30000)
                        res["solver_s"] += v.seconds
                        if v.status == "discharged":
                            bump(v.backend)
                            if res["sample"] is None and v.backend not in ("syntactic",):
                                res["sample"] = {"obligation": self.name + "." + clause, "config": self.key, "lhs": str(a.term())[:140], "rhs": str(b.term())[:140], "backend": v.backend}
                        else:
                            fail = (clause, "element %s after event %d: %s vs %s" % (list(idx), ei, str(a.term())[:120], str(b.term())[:120]), {**info, "solver": v.status})
                            break
                    if fail:
                        break
                if fail:
                    break
                if self.track and not training:
                    same = all(p is q for p, q in zip(np.asarray(L.running_mean.data, dtype=object).ravel(), rm_snap.ravel())) and \
                        all(p is q for p, q in zip(np.asarray(L.running_var.data, dtype=object).ravel(), rv_snap.ravel()))
                    if not same:
                        fail = ("eval_leaves_running_statistics_untouched", "an eval-mode forward changed the running statistics", info)
                        break
                    bump("syntactic")
                    if last_eval is not None and last_eval[0] is x:
                        ident = all(S.of(p).n.eq(S.of(q).n) and S.of(p).d.eq(S.of(q).d) for p, q in zip(np.asarray(out.data, dtype=object).ravel(), last_eval[1].ravel()))
                        if not ident:
                            fail = ("repeated_eval_is_deterministic", "two eval forwards on the same input differ", info)
                            break
                        bump("syntactic")
                    last_eval = (x, np.asarray(out.data, dtype=object))
                else:
                    last_eval = None
                if self.track:
                    rm, rv = (np.asarray(L.running_mean.data, dtype=object), np.asarray(L.running_var.data, dtype=object))
                kk = getattr(L, "num_batches_tracked", None)
                if self.track and kk != k:
                    fail = ("batch_counter_counts_training_forwards", "num_batches_tracked is %s after %d tracked training forwards" % (kk, k), info)
                    break
                bump("executed")
        if fail:
            clause, what, info = fail
            res["key"].update(info)
            rep = self._native(seed, info["event_index"])
            res["failures"].append({"obligation": "%s.%s" % (self.name.replace("[history]", ""), clause), "what": what, "reproduced": rep.get("reproduced", False), "replay": rep})

    def _native(self, seed, upto):
        """float64 replay against the reference semantics evaluated numerically"""
        import random
        from ..symreal.harness import var_names
        from synapgrad.tensor import Tensor
        rng = random.Random("%s|%d" % (self.key, seed))
        C = self.shape[1]
        point = {"mom": 0.1 + 0.5 * rng.random(), "eps": 0.01 + rng.random() * 0.1}
        for nm, sh, pos in [("gamma", (C,), False), ("beta", (C,), False), ("rm", (C,), False), ("rv", (C,), True)] + [("x%d" % i, (self.shape[0] + 1,) + tuple(self.shape[1:]), False) for i in range(len(self.events))]:
            for n in var_names(nm, sh):
                point[n] = rng.uniform(0.3, 2.0) * (1 if pos else rng.choice([-1, 1]))
        rep = {"inputs": point, "history": list(self.events)}
        try:
            with shim.native():
                L, arr, mom, eps = self._world("nat", point=point)
                rm = None if not self.track else L.running_mean.data.copy()
                rv = None if not self.track else L.running_var.data.copy()
                gamma = L.weight.data.copy() if self.affine else None
                beta = L.bias.data.copy() if self.affine else None
                k, training, nfw, bad = 0, True, 0, []
                for ei, ev in enumerate(self.events[: upto + 1]):
                    if ev in ("train", "eval"):
                        getattr(L, ev)()
                        training = ev == "train"
                        continue
                    if ev == "bw":
                        before = None if not self.track else (L.running_mean.data.copy(), L.running_var.data.copy())
                        out.backward(Tensor(np.ones(out.shape)))
                        if self.track and not (np.array_equal(before[0], L.running_mean.data) and np.array_equal(before[1], L.running_var.data)):
                            bad.append(("running statistics changed by backward", ei))
                        continue
                    x = arr("x%d" % nfw, self.shape) if ev == "fw" else (arr("x%d" % nfw, (self.shape[0] + 1,) + tuple(self.shape[1:])) if ev == "fw_other" else last_x)
                    nfw += 1 if ev in ("fw", "fw_other") else 0
                    last_x = x
                    out = L(Tensor(x.copy(), requires_grad=True))
                    if training and self.track:
                        k += 1
                        f = mom if mom is not None else 1.0 / k
                    else:
                        f = mom if mom is not None else 0.0
                    y, nrm, nrv = R.batch_norm(x, gamma, beta, rm, rv, training or not self.track, f, eps, np.sqrt)
                    if self.track and not training:
                        nrm, nrv = rm, rv
                    if not np.allclose(out.data, y, rtol=1e-7, atol=1e-9):
                        bad.append(("output", ei))
                    if self.track:
                        if not np.allclose(L.running_mean.data, nrm, rtol=1e-7, atol=1e-9):
                            bad.append(("running_mean", ei))
                        if not np.allclose(L.running_var.data, nrv, rtol=1e-7, atol=1e-9):
                            bad.append(("running_var", ei))
                        rm, rv = np.array(L.running_mean.data, dtype=np.float64), np.array(L.running_var.data, dtype=np.float64)
                        if getattr(L, "num_batches_tracked", None) != k:
                            bad.append(("counter", ei))
                rep["differences"] = bad
                rep["reproduced"] = bool(bad)
        except Exception as e:
            rep["native_exception"] = "%s: %s" % (type(e).__name__, e)
            rep["reproduced"] = True
        return rep


class DropoutCase:
    expect = "dropout"
    functions = ("synapgrad.nn.layers.Dropout.forward",)

    def __init__(self, p, training, shape, seedv):
        self.p, self.training, self.shape, self.seedv = p, training, tuple(shape), seedv
        self.name = "synapgrad.nn.layers.Dropout"
        self.key = {"p": p, "training": training, "shape": list(shape), "seed": seedv}

    def run(self, seed):
        res = {"name": self.name, "key": dict(self.key), "obligations": 0, "discharged": 0, "backends": {}, "paths": 1, "solver_s": 0.0,
               "failures": [], "undecided": [], "errors": [], "notes": [], "status": "ok", "faithful": 0, "sample": None}
        try:
            self._run(res)
        except Exception as e:
            import traceback
            res["errors"].append("%s %s: %s\n%s" % (self.name, self.key, e, traceback.format_exc()[-1500:]))
        return res

    def _run(self, res):
        import synapgrad.nn as nn
        from synapgrad.tensor import Tensor
        sess = new_session()

        def fail(clause, what):
            res["obligations"] += 1
            res["failures"].append({"obligation": self.name + "." + clause, "what": what, "reproduced": True, "replay": {"config": self.key}})

        def bump(b, n=1):
            res["obligations"] += n
            res["discharged"] += n
            res["backends"][b] = res["backends"].get(b, 0) + n
        with shim.symbolic(eps="native"):
            x = symarr("x", self.shape)
            g = symarr("g", self.shape)
            L = nn.Dropout(self.p)
            if not self.training:
                L.eval()
            np.random.seed(self.seedv)
            u = np.random.rand(*self.shape)            # the uniforms the layer is about to draw
            np.random.seed(self.seedv)
            xt = Tensor(x.copy(), requires_grad=True)
            out = L(xt)
            if not self.training:
                if out is not xt:
                    return fail("eval_is_identity", "eval-mode Dropout did not return its input")
                bump("syntactic")
                return
            mask = (u > self.p).astype(int)
            scale = (1.0 / (1.0 - self.p)) if self.p < 1 else 1.0
            out.backward(Tensor(g.copy()))
            od = np.asarray(out.data, dtype=object)
            gd = np.asarray(xt._grad, dtype=object)
            for idx in np.ndindex(*self.shape):
                for clause, got, base in (("survivors_scaled_by_1_over_1_minus_p", od[idx], x[idx]), ("gradient_through_the_same_mask", gd[idx], g[idx])):
                    exp = base * float(scale) if mask[idx] else S.of(0)
                    v = prove_equal(S.of(got), S.of(exp), [])
                    if v.status == "discharged":
                        bump(v.backend)
                    else:
                        return fail(clause, "element %s: %s, expected %s (u=%.4f, p=%s)" % (list(idx), S.of(got).term(), S.of(exp).term(), u[idx], self.p))


def cases(tier, seed):
    cs = [TargetCase(t) for t in bn_targets()]
    hist = [("fw",), ("fw", "fw"), ("fw", "eval", "fw", "again"), ("eval", "fw", "again", "train", "fw"), ("fw", "eval", "fw", "train", "fw"), ("eval", "fw", "train", "fw", "eval", "fw"),
            ("eval", "fw", "bw", "again", "bw", "again"), ("fw", "bw", "eval", "fw", "bw", "again"), ("fw", "bw", "fw", "bw")]
    shapes = {"BatchNorm1d": [(3, 2), (2, 1, 2)], "BatchNorm2d": [(2, 1, 1, 2)]}
    for cls, shs in shapes.items():
        for shape in shs:
            for affine, track in itertools.product([True, False], repeat=2):
                for mom in ("symbolic", None, 0.25, 0.0, 1.0):      # 0.0 = "never move the running statistics" and 1.0 = "last batch only" are legal end points, not "no momentum"
                    if mom in (0.25, 0.0, 1.0) and not (affine and track):
                        continue
                    for h in (hist if (affine and track) or tier == "thorough" else hist[2:4] + hist[6:7]):
                        cs.append(BNHistory(cls, shape, affine, track, mom, h))
                    # the layer's parameters are frozen / thawed, or its track_running_stats flag is switched after construction, in the middle of a history
                    if track and mom not in (0.25, 0.0, 1.0):
                        extra = [("fw", "fw_other", "eval", "fw"), ("fw_other", "fw", "fw_other", "eval", "fw_other"), ("fw", "flag_off", "fw", "eval", "fw", "again"), ("flag_off", "eval", "fw", "flag_on", "train", "fw"), ("fw", "eval", "flag_off", "fw", "bw")]
                        if affine:
                            extra += [("fw", "freeze", "fw", "fw", "eval", "fw"), ("freeze", "fw", "unfreeze", "fw", "eval", "fw"), ("fw", "freeze", "eval", "fw", "train", "fw", "bw")]
                        for h in extra:
                            cs.append(BNHistory(cls, shape, affine, track, mom, h))
    for p in (0, 0.1, 0.5, 0.9, 1, 1.0):
        for training in (True, False):
            for sd in ((1, 2) if tier == "quick" else (1, 2, 3, 4, 5)):
                cs.append(DropoutCase(p, training, (3, 4), sd + seed))
    return cs


def runtime_part(run, tier, seed):
    import synapgrad.nn as nn
    from synapgrad.tensor import Tensor
    rng = np.random.RandomState(seed)
    # float32 forwards: batch sizes 2-5, 2-d / 3-d / 4-d inputs against the reference semantics
    for cls, shapes in ((nn.BatchNorm1d, [(n, 3) for n in range(2, 6)] + [(2, 3, 4), (3, 2, 2)]), (nn.BatchNorm2d, [(n, 2, 2, 3) for n in range(2, 5)])):
        for shape in shapes:
            for mom in (0.1, None):
                L = cls(shape[1], momentum=mom)
                rm, rv = L.running_mean.data.copy().astype(np.float64), L.running_var.data.copy().astype(np.float64)
                k = 0
                for step, mode in enumerate(["train", "train", "eval", "eval", "train"]):
                    getattr(L, mode)()
                    x = rng.randn(*shape).astype(np.float32)
                    out = L(Tensor(x))
                    tr = mode == "train"
                    if tr:
                        k += 1
                    f = (mom if mom is not None else (1.0 / k if tr else 0.0))
                    y, nrm, nrv = R.batch_norm(x.astype(np.float64), L.weight.data.astype(np.float64), L.bias.data.astype(np.float64), rm, rv, tr, f, 1e-5, np.sqrt)
                    if not tr:
                        nrm, nrv = rm, rv
                    run.rt(("bn-native", cls.__name__, shape, mom, step))
                    ok = np.allclose(out.data, y, rtol=1e-4, atol=1e-5) and np.allclose(L.running_mean.data, nrm, rtol=1e-4, atol=1e-6) and np.allclose(L.running_var.data, nrv, rtol=1e-4, atol=1e-6)
                    if not ok:
                        run.violation("synapgrad.nn.layers.%s.float32_forward_matches_reference" % cls.__name__, "shape %s momentum %s step %d (%s)" % (shape, mom, step, mode),
                                      key={"layer": cls.__name__, "shape": list(shape), "momentum": mom, "mode": mode}, replay={})
                    rm, rv = np.array(L.running_mean.data, dtype=np.float64), np.array(L.running_var.data, dtype=np.float64)
    # Dropout statistics: fraction dropped ~ p, survivors exactly x/(1-p), over 10^5 elements (sanity check of the assumed law)
    for p in (0.1, 0.5, 0.9):
        np.random.seed(seed + 7)
        L = nn.Dropout(p)
        x = Tensor(np.ones((200, 500), dtype=np.float32))
        out = L(x).data
        frac = float((out == 0).mean())
        run.rt(("dropout-stats", p))
        surv = out[out != 0]
        if abs(frac - p) > 5 * np.sqrt(p * (1 - p) / out.size) or not np.allclose(surv, 1.0 / (1 - p), rtol=1e-6):
            run.violation("synapgrad.nn.layers.Dropout.drop_fraction_and_scale", "p=%s: dropped fraction %.4f, survivor value %s" % (p, frac, np.unique(surv)[:3]),
                          key={"p": p, "clause": "statistics"}, replay={})


def nested_part(run, tier, seed):
    """bounded, native ("any interleaving of train()/eval() switches"): the layers sit inside containers (Sequential in a Module); every sequence of switches
    issued on the root, the inner container or a layer (length <= 3, thorough 4) is followed by a forward, and each layer must behave according to the LAST switch
    that reached it (ghost: a switch on a node sets the node and everything below it). Also: two forwards through one Dropout before the first backward -- each
    result back-propagates through its own mask."""
    import itertools
    import synapgrad.nn as nn
    from synapgrad.tensor import Tensor
    rng = np.random.RandomState(seed + 3)
    targets = ("root", "seq", "bn", "do")
    below = {"root": ("root", "seq", "bn", "do"), "seq": ("seq", "bn", "do"), "bn": ("bn",), "do": ("do",)}
    events = [(t, m) for t in targets for m in ("train", "eval")]
    for n in range(1, (4 if tier == "thorough" else 3) + 1):
        for hist in itertools.product(events, repeat=n):
            bn, do = nn.BatchNorm1d(2), nn.Dropout(0.5)
            seq = nn.Sequential(bn, do)

            class Net(nn.Module):
                def __init__(s):
                    super().__init__()
                    s.body = seq

                def forward(s, x):
                    return s.body(x)
            root = Net()
            objs = {"root": root, "seq": seq, "bn": bn, "do": do}
            mode = {k: True for k in targets}
            for t, m in hist:
                getattr(objs[t], m)()
                for k in below[t]:
                    mode[k] = m == "train"
            x = (rng.randn(6, 2) * 2 + 3).astype(np.float32)
            rm0, rv0 = bn.running_mean.data.copy(), bn.running_var.data.copy()
            np.random.seed(seed)
            y = root(Tensor(x)).data
            run.rt(("nested-modes", hist))
            key = {"history": ["%s.%s()" % e for e in hist], "expected_training": {k: mode[k] for k in ("bn", "do")}}
            stats_changed = not (np.array_equal(rm0, bn.running_mean.data) and np.array_equal(rv0, bn.running_var.data))
            if mode["bn"]:
                h = (x - x.mean(0)) / np.sqrt(x.var(0) + 1e-5)
            else:
                h = (x - rm0) / np.sqrt(rv0 + 1e-5)
            if stats_changed != mode["bn"]:
                run.violation("synapgrad.nn.layers.BatchNorm1d.mode_follows_last_switch", "after %s BatchNorm %s its running statistics (it should be in %s mode)" %
                              (key["history"], "updated" if stats_changed else "did not update", "training" if mode["bn"] else "eval"), key={**key, "layer": "BatchNorm1d"}, replay=key)
                continue
            if mode["do"]:
                ok = np.all((y == 0) | np.isclose(y, 2.0 * h, rtol=1e-4, atol=1e-5)) and np.any(y == 0) and np.any(y != 0)
            else:
                ok = np.allclose(y, h, rtol=1e-4, atol=1e-5)
            if not ok:
                run.violation("synapgrad.nn.layers.Dropout.mode_follows_last_switch", "after %s the output is not %s of the %s-mode normalisation" % (key["history"], "a dropout (zeros / doubled survivors)" if mode["do"] else "the identity",
                                                                                              "training" if mode["bn"] else "eval"), key={**key, "layer": "Dropout/BatchNorm1d"}, replay=key)
    # one Dropout used twice before the first backward: each result back-propagates through ITS OWN mask
    for shape in [(4, 5), (3,)]:
        np.random.seed(seed + 1)
        L = nn.Dropout(0.5)
        xs = [Tensor(np.ones(shape, dtype=np.float64) * (i + 1.5), requires_grad=True) for i in range(3)]
        ys = [L(xi) for xi in xs]
        masks = [np.asarray(yi.data) / np.asarray(xi.data) for xi, yi in zip(xs, ys)]
        for i in (0, 1, 2):
            ys[i].backward(Tensor(np.full(shape, 3.0)))
            run.rt(("dropout-own-mask", shape, i))
            if not np.allclose(xs[i]._grad, 3.0 * masks[i]):
                run.violation("synapgrad.nn.layers.Dropout.backward_through_the_same_mask", "forward #%d of 3 through one Dropout(0.5), backward afterwards: x.grad %s, its own mask (scaled) %s" %
                              (i, np.asarray(xs[i]._grad).ravel()[:6].tolist(), (3.0 * masks[i]).ravel()[:6].tolist()), key={"clause": "own_mask", "forward_index": i, "shape": list(shape)}, replay={})
                break


def main(tier="quick", seed=0, procs=None, only=None):
    run = Run("C13", tier, seed, "proof")
    run.assume("reals", "numpy", "shims", "atoms", "engines", "pyvc-encoding")
    run.assume("external contract assumed: np.random.rand draws i.i.d. U[0,1); given the drawn u, 'zeroes each element independently with probability p' is m = [u > p]")
    run.assume("BatchNorm constructor invariant used by the pyvc targets: running buffers exist iff track_running_stats")
    run.bounds = {"pyvc": "unbounded: every training flag, every real momentum or None, every counter value k >= 0, both track_running_stats settings",
                  "symreal": "BatchNorm1d on (3,2),(2,1,2), BatchNorm2d on (2,1,1,2); affine x track x momentum {symbolic, None, 0.25}; 6 histories of <=3 forwards with train/eval switches; "
                             "Dropout p in {0,0.1,0.5,0.9,1} x 2-5 seeds on (3,4)",
                  "runtime": "float32 forwards for batch sizes 2-5 on 2-d/3-d/4-d inputs, 5-step mode histories; Dropout statistics on 10^5 elements; every sequence of <=3 (thorough 4) train/eval "
                             "switches on root / inner Sequential / BatchNorm / Dropout of a nested model followed by a forward; three forwards through one Dropout before the backward calls"}
    run.rule = "pyvc: one case = BatchNorm.forward x (momentum kind, tracking); symreal: one case = (layer, shape, options, history) or (p, mode, seed)"
    cs = cases(tier, seed)
    if only:
        cs = [c for c in cs if only in c.name]
    run_catalogue(run, cs, seed=seed, procs=procs)
    try:
        runtime_part(run, tier, seed)
        nested_part(run, tier, seed)
        from . import c06
        c06.float_part(run, seed)          # batch statistics and the running variance on un-centred float operands (identical over the reals, not in floats)
    except Exception as e:
        run.error("runtime part failed", e)
    return run.finish()
