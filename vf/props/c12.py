"""C12 - module trees: parameters() each reachable parameter once in registration order, num_params, train/eval,
zero_grad/freeze/unfreeze on exactly the reachable set, replacement replaces the registration, Sequential order.

Bounded stand-in (DESIGN 2.4): run-time contracts on the REAL synapgrad.nn.modules functions against a ghost model (ordered
abstract registries computed from the program text, vf/rtc/modtree.py), evaluated on EVERY program of a finite space of
module-building programs (exhaustive up to the symmetry "unused slots / unused names are interchangeable").

Contracts (old = state of the real objects before the last operation, reach = reachability in the ghost):
  Module.__setattr__ / register_*   getattr returns the new value; the name is registered as module iff the value is a Module,
                                    as parameter iff it is a Parameter (replaces_registration); no flag or gradient changes
  Module.train/eval (n)             x.training == mode for x in reach(n), old value otherwise
  Module.freeze/unfreeze (n)        p.requires_grad == flag for p in reach(n), old value otherwise
  Module.zero_grad (n)              p._grad == 0 for reachable p that required grad, untouched for unreachable p
                                    (reachable frozen p: zeroed or untouched, the property admits both readings)
  Module.parameters (every root)    no duplicates (each_once), superset (every_reachable) and subset (only_reachable) of the reachable
                                    parameters, order = own parameters in registration order, then submodules in registration order
  Module.num_params (every root)    total / trainable / non_trainable == element counts over the reachable SET
  Sequential.forward                applies exactly the registered submodules in registration order (log and value), identity if none
Modular blame: every contract assumes the registry invariant Inv (real _submodules/_parameters == ghost registrations) in its
pre-state; the call that breaks Inv is reported (replaces_registration), clause failures in states where Inv is already broken
are counted in the evidence ("downstream") but not reported a second time under another name.
Order convention: "registration order" of a hierarchy is read as pre-order with a module's own parameters first (what torch
does); a name that was de-registered and registered again may keep its old slot or go to the end.
"""
import glob
import multiprocessing as mp
import os
import random
import time
import traceback

from ..report import OUT as ROOT, Run
from ..rtc import modtree as mt

FULL = dict(max_mods=4, max_pars=4, max_children=2)
BOTH = ("setattr", "register")
SPACES = {   # (name, depth N, bounds, only programs of at least this length are evaluated here, registration forms)
    "quick": [("A", 3, FULL, 0, BOTH), ("B", 4, dict(max_mods=3, max_pars=3, max_children=2), 4, ("setattr",))],
    "thorough": [("A", 4, FULL, 0, BOTH), ("B", 5, dict(max_mods=2, max_pars=2, max_children=2), 5, BOTH)],
}
EXTRA = {"quick": 300, "thorough": 3000}     # seeded random longer programs on top of the exhaustive core


def _merge(into, cls):
    for k, (cnt, prog, what, det) in cls.items():
        c = into.get(k)
        if c is None:
            into[k] = [cnt, prog, what, det]
        else:
            c[0] += cnt
            if len(prog) < len(c[1]):
                c[1:] = [prog, what, det]


def _eval(prog, out, g=None, g0=None):
    n, fails, down = mt.check(prog, g, g0)
    out["programs"] += 1
    out["evals"] += n
    for o, _w, _d in down:
        out["downstream"][o] = out["downstream"].get(o, 0) + 1
    if fails:
        fs = mt.features(prog)
        for o, what, det in fails:
            _merge(out["classes"], {(o, fs): (1, prog, what, det)})


def _work(task):
    kind, via, prefix, depth, kw, min_len = task
    out = {"programs": 0, "evals": 0, "classes": {}, "downstream": {}, "error": None, "samples": []}
    try:
        if kind == "fixed":
            for prog in prefix:
                _eval(prog, out)
            return out
        if kind == "random":
            rng = random.Random(via)
            for _ in range(depth):
                g, prog = mt.Ghost(), ()
                for _i in range(min_len + rng.randint(1, 3)):
                    op = rng.choice(mt.next_ops(g, rng.choice(("setattr", "register")), **kw))
                    g.apply(op)
                    prog += (op,)
                    if len(prog) > min_len:
                        _eval(prog, out)
            return out
        for prog, g, g0 in mt.enumerate_from(prefix, depth, via, **kw):
            if len(prog) >= min_len:
                _eval(prog, out, g, g0)
                if len(prog) >= 3 and len(out["samples"]) < 1:
                    out["samples"].append(prog)
    except Exception:
        out["error"] = "task %r: %s" % (task[:4], traceback.format_exc(limit=4))
    return out


def _shrink(item):
    obl, cnt, prog = item
    try:
        small = mt.shrink(prog, obl)
        hit = [(w, d) for o, w, d in mt.check(small)[1] if o == obl]
        return obl, cnt, prog, small, hit[0] if hit else None, None
    except Exception:
        return obl, cnt, prog, prog, None, "shrinking %r for %s: %s" % (prog, obl, traceback.format_exc(limit=3))


def main(tier="quick", seed=0, procs=None, only=None):
    run = Run("C12", tier, seed, "other")
    run.under_contract(*["synapgrad.nn.modules." + f for f in (
        "Module.__setattr__", "Module.register_module", "Module.register_parameter", "Module.parameters", "Module.submodules",
        "Module.num_params", "Module.train", "Module.eval", "Module.zero_grad", "Module.freeze", "Module.unfreeze",
        "Sequential.__init__", "Sequential.forward")])
    run.assume("bounded stand-in: run-time contracts on native objects over an exhaustively enumerated finite program space; nothing is proved beyond the bound",
               "symmetry: module slots that were never used are interchangeable (plain test modules), so are unused parameter slots (sizes 1,2,3,5 "
               "only make double counting visible) and unused attribute names; only the lowest unused one is ever introduced",
               "module graphs are DAGs: assignments that would make a module its own descendant are outside the space",
               "'registration order' = own parameters in registration order, then submodules in registration order (pre-order, torch convention); "
               "first occurrence for shared objects; a re-registered name may keep its slot or be appended",
               "registry invariant as precondition of every contract (modular blame): failures downstream of a call that already broke it are counted, not re-reported",
               "zero_grad on a reachable frozen parameter may zero or skip it (both readings of the statement accepted)",
               "all explicit registrations of one program use the same form (all by attribute assignment or all by register_*)")
    spaces = SPACES[tier]
    for f in glob.glob(os.path.join(ROOT, "replays", "C12", "*.json")):      # replay files of earlier runs would be misleading
        os.remove(f)
    run.bounds = {"alphabet": "M.x = Module | Parameter | None | 7 (fresh name or re-assignment of any existing name, incl. Sequential keys); register_module / "
                              "register_parameter; Sequential(*ms) and Sequential(OrderedDict) with keys ('z','k','m') and 0..2 children (repeats allowed, "
                              "children may be new or already-owned modules); train/eval/freeze/unfreeze/zero_grad on any module; targets may be modules not "
                              "yet attached",
                  "spaces": ["%s: all programs of <= %d operations on <= %d modules, <= %d parameters%s" %
                             (n, d, kw["max_mods"], kw["max_pars"], " (lengths < %d are contained in the other space)" % ml if ml else "") +
                             ("" if len(vias) == 2 else "; attribute-assignment form only") for n, d, kw, ml, vias in spaces],
                  "fresh attribute names per module": list(mt.FRESH), "parameter sizes": list(mt.SIZES),
                  "extra seeded random programs": "%d walks, %d-%d operations" % (EXTRA[tier], spaces[-1][1] + 1, spaces[-1][1] + 3)}
    run.rule = ("one case = one program; it is run on real objects, then every clause of the contract of its last operation and of the observers "
                "(parameters, num_params, Sequential.forward, getattr; every module as root) is evaluated against the ghost; all prefixes are cases of their own")
    run.explanation = ("every program of the stated spaces is executed (no sampling); failing programs are grouped by (obligation, features of the program), one "
                       "representative per group is shrunk by dropping operations while the same obligation fails, and one violation per (obligation, triggering "
                       "feature of the minimal program) is reported with the number of failing programs")
    run.exhaustive = True
    tasks = []
    for _name, depth, kw, min_len, vias in spaces:
        for via in vias:
            tasks.append(("enum", via, (), 1, kw, min_len))
            for prog, _g, _g0 in mt.enumerate_from((), 2, via, **kw):
                if len(prog) == 2:
                    tasks.append(("enum", via, prog, depth - 2, kw, min_len))
    tasks.append(("random", seed, (), EXTRA[tier], FULL, spaces[-1][1]))
    # Sequentials with more children than one digit can number (positional names '0'..'12'): registration order is not the order of the names
    long_ = [tuple(k % 3 for k in range(n_)) for n_ in (10, 11, 12, 13)] + [(0, 1, 2, 2, 1, 0, 0, 2, 1, 1, 0, 2)]
    tasks.append(("fixed", "setattr", tuple((("seq", "pos", 3, ch),) + tail for ch in long_ for tail in ((), (("call", 3, "eval"),), (("set", 3, "5", ("M", 0), "setattr"),))), 1, FULL, 0))
    if only:
        tasks = [t for t in tasks if only in repr(t[2])]
        run.extra["filtered_only"] = only
        run.exhaustive = False
    tasks.sort(key=lambda t: -t[3])
    classes, programs, samples, shrunk, downstream = {}, 0, [], [], {}
    t0 = time.time()
    try:
        with mp.get_context("fork").Pool(procs or min(16, os.cpu_count() or 1)) as pool:
            for out in pool.imap_unordered(_work, tasks, chunksize=4):
                if out["error"]:
                    run.error(out["error"])
                programs += out["programs"]
                run.rt(None, n=out["evals"])
                _merge(classes, out["classes"])
                for o, c in out["downstream"].items():
                    downstream[o] = downstream.get(o, 0) + c
                samples.extend(out["samples"])
            run.extra["enumeration_seconds"] = round(time.time() - t0, 2)
            t0 = time.time()
            # shrink one representative per group (obligation, features of the failing program)
            shrunk = pool.map(_shrink, [(obl, cnt, prog) for (obl, _fs), (cnt, prog, _w, _d) in classes.items()], chunksize=32)
    except Exception as e:
        run.error("enumeration", e)
    for s in samples[::max(1, len(samples) // 8)]:
        run.sample("; ".join(mt.source(s).split("\n")[5:]), limit=8)
    run.add_counts(configs=programs)
    run.extra["programs_executed"] = programs
    run.extra["failing_program_groups_before_shrinking"] = len(classes)
    run.extra["downstream_clause_failures_not_reported_again"] = dict(sorted(downstream.items()))
    # ---- regroup by the triggering feature of the minimal program
    final = {}
    for obl, cnt, prog, small, hit, err in shrunk:
        if err or not hit:
            run.error(err or "shrunk program no longer fails %s: %r" % (obl, small))
            continue
        feats = mt.features(small)
        c = final.setdefault((obl, mt.primary(feats)), {"n": 0, "rank": None, "other": []})
        c["n"] += cnt
        rank = (len(small), len(feats), mt.source(small))          # shortest, then plainest program represents the class
        if c["rank"] is None or rank < c["rank"]:
            c.update(rank=rank, prog=small, what=hit[0], det=hit[1], feats=feats)
        if len(c["other"]) < 3 and prog != small:
            c["other"].append(mt.source(prog).split("\n")[5:])
    run.extra["shrink_seconds"] = round(time.time() - t0, 2)
    for (obl, feat), c in sorted(final.items()):
        prog = c["prog"]
        last = prog[-1]
        key = {"clause": obl.rsplit(".", 1)[1], "feature": feat, "family": mt.family(feat), "features": sorted(c["feats"]), "sharing": any(f.startswith("shared_") for f in c["feats"]),
               "reassignment": any(f.startswith("reassign_") for f in c["feats"]), "empty_sequential": "empty_sequential" in c["feats"],
               "op": (last[0] if last[0] != "call" else last[2]) if last[0] != "set" else "assign_" + mt.KIND[last[3][0]],
               "minimal_program_length": len(prog)}
        key.update({k: v for k, v in c["det"].items() if k in ("old_kind", "new_kind", "n_submodules")})
        run.violation(obl, "%s [minimal program: %s] [%d failing (program, root) pairs in this class]" % (c["what"], "; ".join(mt.source(prog).split("\n")[5:]), c["n"]),
                      key=key, replay={"program": [list(o) for o in prog], "python": mt.source(prog), "detail": c["det"], "observed": c["what"],
                                       "failing_cases_in_class": c["n"], "unshrunk_examples": c["other"]})
    # ---- deductive part (vf/props/c12_vc.py): the registration step for ALL names and ALL registry contents, verification conditions from the real AST
    from . import c12_vc
    from ..pyvc.harness import TargetCase
    from ..symreal.pool import run_catalogue
    run.assume("deductive part: OrderedDict is modelled by its abstract ordered-map contract (has / val / rank arrays; d[k]=v keeps the rank of an existing key and appends a new one; "
               "pop removes the key only), object.__setattr__ by an instance-attribute map; attribute names are integers; pyvc encoding as in C07/C15")
    run_catalogue(run, [TargetCase(t) for t in c12_vc.targets()], seed=seed, procs=procs)
    return run.finish()
