"""C15 - weight initialisers fill tensors with the documented distribution, in place.

pyvc (unbounded: all shapes of rank 2-5 with symbolic extents, all gains / slopes, every mode and nonlinearity):
   calculate_gain's table; fan_in = shape[1]*prod(shape[2:]), fan_out = shape[0]*prod(shape[2:]);
   the ARGUMENTS each initialiser hands to its filler - modular: uniform_(t,a,b) and normal_(t,mean,std) have the contract
   "fills t with U(a,b) / N(mean, std^2)" (assumed from NumPy's generators), and the obligations are
       xavier_uniform_:  uniform_(t, -a, a),  a >= 0,  a^2 == gain^2 * 6/(fan_in+fan_out)
       xavier_normal_:   normal_(t, 0, s),    s >= 0,  s^2 == gain^2 * 2/(fan_in+fan_out)
       kaiming_uniform_: uniform_(t, -b, b),  b^2 == gain^2 * 3/fan       kaiming_normal_: normal_(t, 0, s), s^2 * fan == gain^2
       Linear/Conv1d/Conv2d.reset_parameters: uniform_(weight, -b, b) and uniform_(bias, -b, b) with b^2 * fan_in == 1
   (sqrt is a fresh non-negative value r with r*r == argument).
run time (bounded stand-in): tensor identity / shape / dtype / requires_grad unchanged; the arguments actually received by
np.random.uniform / normal equal the documented ones; sample mean / std / range within 5 sigma bands (seeded).
"""
import itertools
import math
import sys

import numpy as np
import z3

from ..report import Run
from ..pyvc.engine import Executor, State, Obj, Opaque, Returned, Raised, Unsupported, to_z3, _real
from ..pyvc.harness import Target, TargetCase
from ..symreal.pool import run_catalogue

INIT = "synapgrad/nn/init.py"
LAYERS = "synapgrad/nn/layers.py"
NAME = "synapgrad.nn.init."


def sqrt_model(ex, s, args, kw):
    v = args[0]
    if isinstance(v, (int, float)) and not isinstance(v, bool):
        return math.sqrt(v)
    v = _real(v)
    r = z3.Real("sqrt#%d" % len(s.pc))
    out = []
    for s2, ok in ex.branch(s, v >= 0):
        if ok:
            s2.pc += [r >= 0, r * r == v]
            out.append((s2, r))
        else:
            out.append((s2, Raised("ValueError")))
    return out


def prod_model(ex, s, args, kw):
    vals = args[0]
    r = 1
    for v in vals:
        r = ex.binop(__import__("ast").Mult(), r, v, s)[0][1]
    return r


def base_executor():
    ex = Executor(havoc={"ValueError", "RuntimeError", "print"})
    ex.models["math.sqrt"] = sqrt_model
    ex.models["np.prod"] = prod_model
    ex.class_models = {"Tensor": {"mro": ["Tensor"]}}
    return ex


def tensor_obj(state, rank, prefix="d"):
    t = Obj("Tensor")
    dims = tuple(z3.Int("%s%d" % (prefix, i)) for i in range(rank))
    for d in dims:
        state.pc.append(d >= 1)
    a = state.attrs(t)
    a["ndim"] = rank
    a["shape"] = dims
    return t, dims


def fans(dims):
    rf = 1
    for d in dims[2:]:
        rf = rf * d
    return dims[1] * rf, dims[0] * rf


def targets():
    ts = []
    # ---- calculate_gain
    for nl, expect, with_param in [(n_, e_, w_) for (n_, e_) in [("linear", 1), ("conv1d", 1), ("conv2d", 1), ("sigmoid", 1), ("tanh", 5.0 / 3), ("relu", math.sqrt(2.0)), ("selu", 3.0 / 4)]
                                   for w_ in (False, True)]:
        def setup(ex, nl=nl, with_param=with_param):
            # PyTorch's table ignores `param` for every nonlinearity except leaky_relu: the gain must not depend on it
            return State(), [nl, z3.Real("param") if with_param else None], {}

        def ens(ctx, s, out, expect=expect):
            if isinstance(out, Raised):
                return [("known_nonlinearity_accepted", False)]
            return [("gain_value", out.value == expect if not z3.is_expr(out.value) else out.value == to_z3(float(expect)))]
        def replay(ctx, model, clause, nl=nl, expect=expect, with_param=with_param):
            import sys
            import synapgrad.nn  # noqa: F401
            init = sys.modules["synapgrad.nn.init"]
            pv = None
            if with_param:
                from ..pyvc.harness import model_value
                pv = float(model_value(model, z3.Real("param")))
            got = init.calculate_gain(nl, pv)
            return {"call": "calculate_gain(%r, %r)" % (nl, pv), "actual": float(got), "expected": float(expect), "reproduced": abs(float(got) - float(expect)) > 1e-12,
                    "native_satisfies_contract": abs(float(got) - float(expect)) <= 1e-12}
        ts.append(Target(NAME + "calculate_gain[%s%s]" % (nl, ", param given" if with_param else ""), INIT, "calculate_gain", setup, ens, replay=replay, executor=base_executor,
                         key={"nonlinearity": nl, "param_given": with_param}))
    for kind in ("real", "int", "none", "bool", "str"):
        def setup(ex, kind=kind):
            s = State()
            p = {"real": z3.Real("slope"), "int": z3.Int("slope"), "none": None, "bool": True, "str": "x"}[kind]
            return s, ["leaky_relu", p], {"p": p}

        def ens(ctx, s, out, kind=kind):
            if kind in ("bool", "str"):
                return [("rejects_non_numeric_slope", isinstance(out, Raised) and out.exc == "ValueError")]
            if isinstance(out, Raised):
                return [("numeric_slope_accepted", False)]
            a = 0.01 if kind == "none" else _real(ctx["p"])
            r = out.value
            if kind == "none":
                return [("gain_value", abs(r - math.sqrt(2.0 / (1 + 0.01 ** 2))) < 1e-15 if not z3.is_expr(r) else r * r * (1 + to_z3(0.01) * to_z3(0.01)) == 2)]
            return [("gain_is_sqrt_2_over_1_plus_slope_squared", z3.And(r >= 0, r * r * (1 + a * a) == 2))]
        ts.append(Target(NAME + "calculate_gain[leaky_relu, %s slope]" % kind, INIT, "calculate_gain", setup, ens, executor=base_executor, key={"nonlinearity": "leaky_relu", "slope": kind}))

    def setup_bad(ex):
        return State(), ["swish", None], {}
    ts.append(Target(NAME + "calculate_gain[unknown]", INIT, "calculate_gain", setup_bad,
                     lambda c, s, out: [("rejects_unknown_nonlinearity", isinstance(out, Raised) and out.exc == "ValueError")], executor=base_executor, key={"nonlinearity": "unknown"}))
    # ---- fans
    for rank in range(0, 6):
        def setup(ex, rank=rank):
            s = State()
            t, dims = tensor_obj(s, rank)
            return s, [t], {"dims": dims}

        def ens(ctx, s, out, rank=rank):
            if rank < 2:
                return [("rank_below_2_rejected", isinstance(out, Raised) and out.exc == "ValueError")]
            if isinstance(out, Raised):
                return [("rank_at_least_2_accepted", False)]
            fi, fo = fans(ctx["dims"])
            return [("fan_in_is_shape1_times_receptive_field", out.value[0] == fi), ("fan_out_is_shape0_times_receptive_field", out.value[1] == fo)]
        ts.append(Target(NAME + "_calculate_fan_in_and_fan_out[rank %d]" % rank, INIT, "_calculate_fan_in_and_fan_out", setup, ens, executor=base_executor, key={"rank": rank}))

    # ---- initialisers: arguments handed to the filler (callees replaced by their contracts)
    def init_executor():
        ex = base_executor()

        def fan_contract(ex_, s, args, kw):
            fi, fo = z3.Int("fan_in"), z3.Int("fan_out")
            s.pc += [fi >= 1, fo >= 1]
            s.glob["__fans"] = (fi, fo)
            return (fi, fo)

        def gain_contract(ex_, s, args, kw):
            g = z3.Real("gain")
            s.pc.append(g > 0)
            s.glob["__gain_args"] = tuple(args)
            s.glob["__gain"] = g
            return g

        def filler(name):
            def m(ex_, s, args, kw):
                s.glob.setdefault("__fills", [])
                s.glob["__fills"] = s.glob["__fills"] + [(name, args[0], args[1] if len(args) > 1 else kw.get("a", kw.get("mean")), args[2] if len(args) > 2 else kw.get("b", kw.get("std")))]
                return args[0]
            return m
        ex.models["_calculate_fan_in_and_fan_out"] = fan_contract
        ex.models["init._calculate_fan_in_and_fan_out"] = fan_contract
        ex.models["calculate_gain"] = gain_contract
        for pre in ("", "init.", "nn.init."):
            ex.models[pre + "uniform_"] = filler("uniform_")
            ex.models[pre + "normal_"] = filler("normal_")
        return add_array_models(ex)

    def one_fill(s, which, tensor):
        fills = s.glob.get("__fills", [])
        if not fills:
            # the filler's body written out in place: the tensor's data is an array drawn from the law in question
            d = s.attrs(tensor).get("data")
            if isinstance(d, Obj) and d.cls == "NdArray":
                gen = s.attrs(d).get("gen", ())
                if gen and gen[0] + "_" == which and len(gen) == 3:
                    return (which, tensor, gen[1], gen[2])
            return None
        if len(fills) != 1 or fills[0][0] != which or fills[0][1] is not tensor:
            return None
        return fills[0]

    def mk(fn, filler, relation, extra_args=(), modes=(None,)):
        for mode in modes:
            def setup(ex, mode=mode):
                s = State()
                t = Obj("Tensor")
                s.attrs(t).update(shape=Opaque("shape"), dtype=Opaque("dtype"), data=Opaque("old_data"))
                g = z3.Real("gain_arg")
                s.pc.append(g > 0)
                args = [t] + ([g] if fn.startswith("xavier") else [z3.Real("a"), mode, "leaky_relu"])
                return s, args, {"t": t, "gain_arg": g, "mode": mode}

            def ens(ctx, s, out, mode=mode):
                if mode not in (None, "fan_in", "fan_out"):
                    return [("rejects_unknown_mode", isinstance(out, Raised) and out.exc == "ValueError")]
                if isinstance(out, Raised):
                    return [("completes", False)]
                f = one_fill(s, filler, ctx["t"])
                if f is None:
                    return [("calls_%s_once_on_the_given_tensor" % filler, False)]
                fi, fo = s.glob["__fans"]
                gain = ctx["gain_arg"] if fn.startswith("xavier") else s.glob["__gain"]
                fan = None if mode is None else (fi if mode == "fan_in" else fo)
                lo, hi = _real(f[2]) if z3.is_expr(f[2]) or not isinstance(f[2], (int, float)) else to_z3(float(f[2])), _real(f[3])
                cl = [("returns_the_given_tensor", out.value is ctx["t"])]
                if filler == "uniform_":
                    cl += [("bounds_are_symmetric", lo == -hi), ("bound_nonnegative", hi >= 0), ("bound_formula", relation(hi, gain, fi, fo, fan))]
                else:
                    cl += [("mean_is_zero", lo == 0), ("std_nonnegative", hi >= 0), ("std_formula", relation(hi, gain, fi, fo, fan))]
                if not fn.startswith("xavier"):
                    ga = s.glob.get("__gain_args")
                    cl.append(("gain_computed_from_nonlinearity_and_slope", ga is not None and ga[0] == "leaky_relu" and z3.is_expr(ga[1]) and str(ga[1]) == "a"))
                return cl
            ts.append(Target(NAME + fn + ("" if mode is None else "[mode=%s]" % mode), INIT, fn, setup, ens, executor=init_executor, key={"initialiser": fn, "mode": mode}))
    mk("xavier_uniform_", "uniform_", lambda a, g, fi, fo, fan: a * a * _real(fi + fo) == g * g * 6)
    mk("xavier_normal_", "normal_", lambda sd, g, fi, fo, fan: sd * sd * _real(fi + fo) == g * g * 2)
    mk("kaiming_uniform_", "uniform_", lambda b, g, fi, fo, fan: b * b * _real(fan) == g * g * 3, modes=("fan_in", "fan_out", "fan_avg"))
    mk("kaiming_normal_", "normal_", lambda sd, g, fi, fo, fan: sd * sd * _real(fan) == g * g, modes=("fan_in", "fan_out", "fan_avg"))

    # ---- the five basic fillers: what is drawn, where it is stored, and the frame (identity, shape, dtype, requires_grad flag and every other attribute of the tensor untouched)
    def add_array_models(ex):
        def array(s, shape, dtype, gen):
            o = Obj("NdArray")
            s.attrs(o).update(shape=shape, dtype=dtype, gen=gen)
            return o

        def gen_model(name, pnames):
            def m(ex_, s, args, kw):
                vals = list(args)
                for k in pnames[len(vals):]:
                    vals.append(kw.get(k))
                shape = vals[len(pnames) - 1]
                return array(s, shape, "float64", (name,) + tuple(vals[:len(pnames) - 1]))
            return m
        ex.models["np.random.uniform"] = gen_model("uniform", ("low", "high", "size"))
        ex.models["np.random.normal"] = gen_model("normal", ("loc", "scale", "size"))
        ex.models["np.full"] = lambda ex_, s, args, kw: array(s, args[0] if args else kw.get("shape"), "default", ("full", args[1] if len(args) > 1 else kw.get("fill_value")))
        ex.models["np.ones"] = lambda ex_, s, args, kw: array(s, args[0] if args else kw.get("shape"), kw.get("dtype", "float64"), ("full", 1))
        ex.models["np.zeros"] = lambda ex_, s, args, kw: array(s, args[0] if args else kw.get("shape"), kw.get("dtype", "float64"), ("full", 0))

        def astype(ex_, s, args, kw):
            a = s.attrs(args[0])
            return array(s, a["shape"], args[1] if len(args) > 1 else kw.get("dtype"), a["gen"])
        ex.models["NdArray.astype"] = astype
        return ex

    def fill_executor():
        return add_array_models(base_executor())

    def mk_fill(fn, nargs, gen_of):
        def setup(ex):
            s = State()
            t, dims = tensor_obj(s, 2)
            a = s.attrs(t)
            dt = Opaque("dtype")
            old = Obj("NdArray")
            s.attrs(old).update(shape=dims, dtype=dt, gen=("old",))
            a.update(dtype=dt, data=old, _requires_grad=z3.Bool("requires_grad"), _grad=Opaque("grad"), _grad_fn=None, _children=(), _retain_grad=z3.Bool("retain"),
                     _name=Opaque("name"), device=Opaque("device"), _operation=None, _initialized=True)
            extra = [z3.Real("arg%d" % i) for i in range(nargs)]
            return s, [t] + extra, {"t": t, "dims": dims, "dtype": dt, "args": extra, "before": dict(a)}

        def ens(ctx, s, out):
            if isinstance(out, Raised):
                return [("completes", False)]
            a = s.attrs(ctx["t"])
            cl = [("returns_the_given_tensor", out.value is ctx["t"])]
            frame = set(a) == set(ctx["before"]) and all(a[k] is ctx["before"][k] for k in a if k != "data")
            cl.append(("writes_nothing_but_the_data_of_the_tensor(flag_grad_name_device_kept)", frame))
            d = a.get("data")
            if not (isinstance(d, Obj) and d.cls == "NdArray" and d is not ctx["before"]["data"]):
                return cl + [("stores_freshly_drawn_values", False)]
            da = s.attrs(d)
            sh = da["shape"]
            cl.append(("keeps_the_shape", isinstance(sh, tuple) and len(sh) == len(ctx["dims"]) and all(x is y for x, y in zip(sh, ctx["dims"]))))
            cl.append(("keeps_the_dtype", da["dtype"] is ctx["dtype"]))
            want = gen_of(ctx["args"])
            got = da["gen"]
            same = len(got) == len(want) and got[0] == want[0] and all((g is w) if z3.is_expr(w) else (g == w and type(g) is type(w)) for g, w in zip(got[1:], want[1:]))
            cl.append(("values_drawn_as_documented", same))
            return cl
        ts.append(Target(NAME + fn, INIT, fn, setup, ens, executor=fill_executor, key={"initialiser": fn}))
    mk_fill("uniform_", 2, lambda A: ("uniform", A[0], A[1]))
    mk_fill("normal_", 2, lambda A: ("normal", A[0], A[1]))
    mk_fill("constant_", 1, lambda A: ("full", A[0]))
    mk_fill("ones_", 0, lambda A: ("full", 1))
    mk_fill("zeros_", 0, lambda A: ("full", 0))

    # ---- layers: reset_parameters
    for cls in ("Linear", "Conv1d", "Conv2d"):
        for has_bias in (True, False):
            def setup(ex, has_bias=has_bias):
                s = State()
                me = Obj("Layer")
                w = Obj("Tensor")
                b = Obj("Tensor") if has_bias else None
                s.attrs(me)["weight"] = w
                s.attrs(me)["bias"] = b
                return s, [me], {"w": w, "b": b}

            def ens(ctx, s, out, has_bias=has_bias):
                if isinstance(out, Raised):
                    return [("completes", False)]
                fills = s.glob.get("__fills", [])
                fi, fo = s.glob["__fans"]
                want = [ctx["w"]] + ([ctx["b"]] if has_bias else [])
                cl = [("fills_weight_then_bias", len(fills) == len(want) and all(f[0] == "uniform_" and f[1] is t for f, t in zip(fills, want)))]
                for f in fills:
                    lo, hi = _real(f[2]), _real(f[3])
                    cl += [("bounds_are_symmetric", lo == -hi), ("bound_nonnegative", hi >= 0), ("bound_is_one_over_sqrt_fan_in", hi * hi * _real(fi) == 1)]
                return cl
            ts.append(Target("synapgrad.nn.layers.%s.reset_parameters[%s bias]" % (cls, "with" if has_bias else "without"), LAYERS, cls + ".reset_parameters", setup, ens,
                             executor=init_executor, key={"layer": cls, "bias": has_bias}))
    return ts


# --------------------------------------------------------------------------------------------------------- run time
def _dist_args(rec):
    """the two parameters of a recorded np.random.uniform / normal call, whether they were passed by position or by name (low/high, loc/scale)"""
    kind, a, k = rec
    names = ("low", "high") if kind == "uniform" else ("loc", "scale")
    defaults = (0.0, 1.0)
    vals = [a[i] if i < len(a) else k.get(names[i], defaults[i]) for i in range(2)]
    return tuple(float(v) for v in vals)


def runtime_part(run, tier, seed):
    import synapgrad
    from synapgrad.tensor import Tensor
    import synapgrad.nn as nn
    init = sys.modules["synapgrad.nn.init"]
    np.random.seed(seed)
    recorded = []
    real_u, real_n = np.random.uniform, np.random.normal

    class Rec:
        def __getattr__(self, k):
            return getattr(np, k)

    class RandRec:
        def __getattr__(self, k):
            return getattr(np.random, k)

        def uniform(self, *a, **k):
            recorded.append(("uniform", a, k))
            return real_u(*a, **k)

        def normal(self, *a, **k):
            recorded.append(("normal", a, k))
            return real_n(*a, **k)
    proxy = Rec()
    proxy_random = RandRec()
    object.__setattr__(proxy, "random", proxy_random) if False else None

    class NP:
        random = proxy_random

        def __getattr__(self, k):
            return getattr(np, k)
    saved = init.np
    init.np = NP()
    try:
        shapes = [(3, 4), (2, 3, 5), (4, 2, 3, 3)] + ([(2, 2, 2, 2, 2)] if tier == "thorough" else [])
        fillers = [("uniform_", lambda t: init.uniform_(t, -0.5, 2.0), ("uniform", -0.5, 2.0)), ("normal_", lambda t: init.normal_(t, 1.0, 0.25), ("normal", 1.0, 0.25)),
                   ("constant_", lambda t: init.constant_(t, 3.5), None), ("ones_", init.ones_, None), ("zeros_", init.zeros_, None)]
        # argument TYPES: NumPy scalars are "strong" in NumPy 2 promotion (np.float64(0.5) * float32 array -> float64); every numeric argument is also passed
        # as np.float64 / np.float32 scalar and as a Python int where that makes sense -- the tensor's dtype must survive
        f64, f32 = np.float64, np.float32
        typed = [("uniform_", lambda t, c: init.uniform_(t, c(-0.5), c(2.0))), ("normal_", lambda t, c: init.normal_(t, c(1.0), c(0.25))), ("constant_", lambda t, c: init.constant_(t, c(3.5))),
                 ("xavier_uniform_", lambda t, c: init.xavier_uniform_(t, c(1.7))), ("xavier_normal_", lambda t, c: init.xavier_normal_(t, c(1.7))),
                 ("kaiming_uniform_", lambda t, c: init.kaiming_uniform_(t, c(0.2), "fan_in", "leaky_relu")), ("kaiming_normal_", lambda t, c: init.kaiming_normal_(t, c(0.2), "fan_out", "leaky_relu"))]
        for dt in (np.float32, np.float64):
            for name, fn in typed:
                for cname, c in (("np.float64", f64), ("np.float32", f32), ("np.sqrt result", lambda v: np.sqrt(f64(v * v)) * (1 if v >= 0 else -1)), ("0-d array", lambda v: np.array(v))):
                    t = Tensor(np.full((3, 4), 7.0, dtype=dt))
                    run.rt(("typed-argument", name, np.dtype(dt).name, cname))
                    try:
                        r = fn(t, c)
                    except Exception:
                        continue        # refusing an argument type is fine (calculate_gain, like PyTorch's, accepts only int/float subclasses): the clause is about what is accepted
                    if not (r is t and t.data.dtype == dt and t.shape == (3, 4)):
                        run.violation(NAME + name + ".keeps_identity_shape_dtype_flag", "%s on a %s tensor with %s arguments: dtype became %s" % (name, np.dtype(dt).name, cname, t.data.dtype),
                                      key={"initialiser": name, "dtype": np.dtype(dt).name, "argument_type": cname}, replay={})
        # memory LAYOUT: a tensor whose array is a transposed view, Fortran-ordered or a strided slice is filled like any other (every element drawn / set; nothing of the
        # previous content, and no uninitialised memory, survives)
        lay_fillers = [("uniform_", lambda t: init.uniform_(t, 1.0, 2.0), (1.0, 2.0), True), ("normal_", lambda t: init.normal_(t, 5.0, 0.25), (2.5, 7.5), True),
                       ("constant_", lambda t: init.constant_(t, 3.5), (3.5, 3.5), False), ("ones_", init.ones_, (1.0, 1.0), False), ("zeros_", init.zeros_, (0.0, 0.0), False),
                       ("xavier_uniform_", lambda t: init.xavier_uniform_(t, 1.7), (-1.7 * math.sqrt(6.0 / 9), 1.7 * math.sqrt(6.0 / 9)), True),
                       ("xavier_normal_", lambda t: init.xavier_normal_(t, 1.7), (-17 * math.sqrt(2.0 / 9), 17 * math.sqrt(2.0 / 9)), True),
                       ("kaiming_uniform_", lambda t: init.kaiming_uniform_(t, 0, "fan_in", "relu"), (-math.sqrt(2.0) * math.sqrt(3.0 / 4), math.sqrt(2.0) * math.sqrt(3.0 / 4)), True),
                       ("kaiming_normal_", lambda t: init.kaiming_normal_(t, 0, "fan_out", "relu"), (-10 * math.sqrt(2.0 / 5), 10 * math.sqrt(2.0 / 5)), True)]
        layouts = [("transposed view", lambda dt: np.full((4, 5), np.nan, dtype=dt).T), ("Fortran order", lambda dt: np.asfortranarray(np.full((5, 4), np.nan, dtype=dt))),
                   ("strided slice", lambda dt: np.full((10, 8), np.nan, dtype=dt)[::2, ::2]), ("library transpose", None)]
        for dt in (np.float32, np.float64):
            for lname, mk in layouts:
                for name, fn, (lo, hi), rnd in lay_fillers:
                    if mk is None:
                        t = Tensor(np.full((4, 5), np.nan, dtype=dt)).transpose(0, 1)
                    else:
                        t = Tensor(mk(dt))
                    if t.shape != (5, 4) or t.data.flags["C_CONTIGUOUS"]:
                        continue
                    run.rt(("layout", name, lname, np.dtype(dt).name))
                    try:
                        r = fn(t)
                    except Exception as e:
                        run.violation(NAME + name + ".completes", "%s on a %s tensor (%s) raised %s: %s" % (name, np.dtype(dt).name, lname, type(e).__name__, e),
                                      key={"initialiser": name, "layout": lname}, replay={})
                        continue
                    d = np.asarray(t.data)
                    bad = None
                    if not (r is t and t.shape == (5, 4) and d.dtype == dt):
                        bad = "identity / shape / dtype changed (shape %s dtype %s)" % (t.shape, d.dtype)
                    elif not np.all(np.isfinite(d)) or not np.all((d >= lo - 1e-6) & (d <= hi + 1e-6)):
                        bad = "%d of %d elements are outside what the initialiser can produce (nan, previous content or uninitialised memory)" % (int((~(np.isfinite(d) & (d >= lo - 1e-6) & (d <= hi + 1e-6))).sum()), d.size)
                    elif rnd and len(np.unique(d)) < d.size // 2:
                        bad = "only %d distinct values among %d drawn elements" % (len(np.unique(d)), d.size)
                    if bad:
                        run.violation(NAME + name + ".fills_every_element", "%s on a %s tensor whose array is a %s: %s" % (name, np.dtype(dt).name, lname, bad),
                                      key={"initialiser": name, "layout": lname, "dtype": np.dtype(dt).name}, replay={})
        for dt in (np.float32, np.float64):
            for shape in shapes + [(5,)]:
                for name, fn, exp in fillers:
                    t = Tensor(np.full(shape, 7.0, dtype=dt), requires_grad=True)
                    recorded.clear()
                    r = fn(t)
                    run.rt((name, shape, np.dtype(dt).name))
                    ok = r is t and t.shape == tuple(shape) and t.data.dtype == dt and t.requires_grad is True
                    if not ok:
                        run.violation(NAME + name + ".keeps_identity_shape_dtype_flag", "%s on %s %s: identity=%s shape=%s dtype=%s requires_grad=%s"
                                      % (name, shape, np.dtype(dt).name, r is t, t.shape, t.data.dtype, t.requires_grad), key={"initialiser": name, "dtype": np.dtype(dt).name}, replay={})
                    if exp is not None:
                        if len(recorded) != 1 or recorded[0][0] != exp[0] or _dist_args(recorded[0]) != (exp[1], exp[2]):
                            run.violation(NAME + name + ".draws_from_documented_distribution", "%s passed %s to numpy, expected %s" % (name, recorded, exp),
                                          key={"initialiser": name}, replay={})
                    if name == "constant_" and not np.all(t.data == dt(3.5)):
                        run.violation(NAME + "constant_.value", "constant_ did not fill with the value", key={"initialiser": name}, replay={})
                    if name == "ones_" and not np.all(t.data == 1):
                        run.violation(NAME + "ones_.value", "ones_ did not fill with 1", key={"initialiser": name}, replay={})
                    if name == "zeros_" and not np.all(t.data == 0):
                        run.violation(NAME + "zeros_.value", "zeros_ did not fill with 0", key={"initialiser": name}, replay={})
            for shape in shapes:
                fi = shape[1] * int(np.prod(shape[2:]))
                fo = shape[0] * int(np.prod(shape[2:]))
                specs = [("xavier_uniform_", lambda t: init.xavier_uniform_(t, 1.7), "uniform", 1.7 * math.sqrt(6.0 / (fi + fo))),
                         ("xavier_normal_", lambda t: init.xavier_normal_(t, 1.7), "normal", 1.7 * math.sqrt(2.0 / (fi + fo)))]
                # the mode is matched by VALUE: a string built at run time (read from a config file, lower-cased, joined) equals the literal without being the same object
                runtime = {"fan_in": "".join(["fan", "_", "in"]), "fan_out": "FAN_OUT".lower()}
                for mode, fan in (("fan_in", fi), ("fan_out", fo), (runtime["fan_in"], fi), (runtime["fan_out"], fo)):
                    for nl, a, gain in (("leaky_relu", 0.2, math.sqrt(2.0 / (1 + 0.2 ** 2))), ("relu", 0, math.sqrt(2.0)), ("tanh", 0, 5.0 / 3), ("linear", 0, 1.0)):
                        specs.append(("kaiming_uniform_", lambda t, mode=mode, nl=nl, a=a: init.kaiming_uniform_(t, a, mode, nl), "uniform", gain * math.sqrt(3.0 / fan)))
                        specs.append(("kaiming_normal_", lambda t, mode=mode, nl=nl, a=a: init.kaiming_normal_(t, a, mode, nl), "normal", gain / math.sqrt(fan)))
                for name, fn, dist, param in specs:
                    t = Tensor(np.zeros(shape, dtype=dt), requires_grad=False)
                    recorded.clear()
                    r = fn(t)
                    run.rt((name, shape, np.dtype(dt).name, round(param, 6)))
                    if not (r is t and t.shape == tuple(shape) and t.data.dtype == dt and t.requires_grad is False):
                        run.violation(NAME + name + ".keeps_identity_shape_dtype_flag", "%s on %s" % (name, shape), key={"initialiser": name, "dtype": np.dtype(dt).name}, replay={})
                    if len(recorded) != 1 or recorded[0][0] != dist:
                        run.violation(NAME + name + ".draws_from_documented_distribution", "%s drew %s" % (name, [r_[0] for r_ in recorded]), key={"initialiser": name}, replay={})
                        continue
                    got = _dist_args(recorded[0])
                    want = (-param, param) if dist == "uniform" else (0.0, param)
                    if not all(abs(g - w) <= 1e-12 * max(1, abs(w)) for g, w in zip(got, want)):
                        run.violation(NAME + name + ".documented_parameters", "%s on shape %s passed %s to np.random.%s, documented %s" % (name, shape, got, dist, want),
                                      key={"initialiser": name, "distribution": dist}, replay={"shape": list(shape), "passed": got, "documented": want})
        # the CONTEXT of the call: inside no_grad() (the PyTorch idiom for re-initialisation), inside retain_grads(), on Parameters, for both values of the flag;
        # identity, shape, dtype and requires_grad are kept in each, also by reset_parameters() of the layers
        import contextlib
        tm = sys.modules["synapgrad.tensor"]
        from synapgrad.nn.modules import Parameter
        every = [("uniform_", lambda t: init.uniform_(t, -0.5, 2.0)), ("normal_", lambda t: init.normal_(t, 1.0, 0.25)), ("constant_", lambda t: init.constant_(t, 3.5)),
                 ("ones_", init.ones_), ("zeros_", init.zeros_), ("xavier_uniform_", init.xavier_uniform_), ("xavier_normal_", init.xavier_normal_),
                 ("kaiming_uniform_", init.kaiming_uniform_), ("kaiming_normal_", init.kaiming_normal_)]
        contexts = [("no_grad", tm.no_grad), ("retain_grads", tm.retain_grads), ("plain", contextlib.nullcontext)]
        for (name, fn), (cname, ctx), flag, cls, dt in itertools.product(every, contexts, (True, False), (Tensor, Parameter), (np.float32, np.float64)):
            t = cls(np.full((3, 4), 7.0, dtype=dt), requires_grad=flag)
            run.rt(("context", name, cname, flag, cls.__name__, np.dtype(dt).name))
            with ctx():
                r = fn(t)
            if not (r is t and t.shape == (3, 4) and t.data.dtype == dt and t.requires_grad is flag and type(t) is cls):
                run.violation(NAME + name + ".keeps_identity_shape_dtype_flag", "%s on a %s %s with requires_grad=%s inside %s: identity=%s shape=%s dtype=%s requires_grad=%s type=%s" %
                              (name, np.dtype(dt).name, cls.__name__, flag, cname, r is t, t.shape, t.data.dtype, t.requires_grad, type(t).__name__),
                              key={"initialiser": name, "context": cname, "flag": flag}, replay={"initialiser": name, "context": cname, "requires_grad": flag, "class": cls.__name__})
        for mk in (lambda: nn.Linear(4, 3), lambda: nn.Conv1d(2, 3, 2), lambda: nn.Conv2d(2, 3, 2), lambda: nn.BatchNorm1d(3), lambda: nn.BatchNorm2d(3)):
            for cname, ctx in contexts[:2]:
                L = mk()
                if not hasattr(L, "reset_parameters"):
                    continue
                before = [(p, p.requires_grad, p.shape, p.data.dtype) for p in L.parameters()]
                run.rt(("context-layer", type(L).__name__, cname))
                with ctx():
                    L.reset_parameters()
                after = L.parameters()
                if len(after) != len(before) or any(q is not p or q.requires_grad is not f or q.shape != sh or q.data.dtype != d_ for q, (p, f, sh, d_) in zip(after, before)):
                    run.violation("synapgrad.nn.layers.%s.reset_parameters.keeps_identity_shape_dtype_flag" % type(L).__name__,
                                  "%s.reset_parameters() inside %s: parameters before %s, after %s" % (type(L).__name__, cname, [(f, sh, str(d_)) for _, f, sh, d_ in before],
                                                                                                  [(q.requires_grad, q.shape, str(q.data.dtype)) for q in after]),
                                  key={"layer": type(L).__name__, "context": cname}, replay={"layer": type(L).__name__, "context": cname})
        # HISTORY of the process: a fill gives the tensor storage of its own -- updating an earlier filled tensor in place (what every optimizer step does) must not
        # show in a later fill with the same shape / value / dtype, nor in the earlier tensor when the later one is updated
        for (name, fn), dt in itertools.product(every, (np.float32, np.float64)):
            t1 = Tensor(np.full((3, 4), 7.0, dtype=dt))
            fn(t1)
            first = t1.data.copy()
            t1.data -= 0.5
            t1.data *= 3.0
            t2 = Tensor(np.full((3, 4), 7.0, dtype=dt))
            fn(t2)
            run.rt(("history", name, np.dtype(dt).name))
            exact = {"constant_": 3.5, "ones_": 1.0, "zeros_": 0.0}.get(name)
            bad = []
            if np.shares_memory(t1.data, t2.data):
                bad.append("the two filled tensors share memory")
            if exact is not None and not np.all(t2.data == dt(exact)):
                bad.append("the second tensor holds %s instead of %s" % (np.unique(t2.data).tolist(), exact))
            before = t1.data.copy()
            t2.data += 1.0
            if not np.array_equal(t1.data, before):
                bad.append("updating the second tensor in place changed the first")
            if not np.array_equal(t1.data, (first - dt(0.5)) * dt(3.0)):
                bad.append("the first tensor does not hold its own updated values")
            if bad:
                run.violation(NAME + name + ".fills_the_given_tensor_with_storage_of_its_own", "%s twice on equal-shaped %s tensors with an in-place update in between: %s" % (name, np.dtype(dt).name, "; ".join(bad)),
                              key={"initialiser": name, "clause": "history independence"}, replay={"initialiser": name, "dtype": np.dtype(dt).name})
        for mk in (lambda: nn.BatchNorm1d(4), lambda: nn.Linear(3, 2), lambda: nn.Conv1d(2, 2, 2)):
            L1 = mk()
            for p_ in L1.parameters():
                p_.data -= 0.25
            L2 = mk()
            run.rt(("history-layer", type(L2).__name__))
            if isinstance(L2, nn.BatchNorm1d):
                ok = np.all(L2.weight.data == 1) and np.all(L2.bias.data == 0) and np.all(L2.running_mean.data == 0) and np.all(L2.running_var.data == 1)
            else:
                ok = True
            ok = ok and not any(np.shares_memory(a.data, b.data) for a, b in zip(L1.parameters(), L2.parameters()))
            if not ok:
                run.violation("synapgrad.nn.layers.%s.reset_parameters.fills_with_storage_of_its_own" % type(L2).__name__, "a second %s built after an in-place update of the first one's parameters "
                              "does not start from its documented initial values / shares storage with the first" % type(L2).__name__, key={"layer": type(L2).__name__, "clause": "history independence"}, replay={})
        # sample statistics (sanity check of the assumed NumPy law), 10^5 draws
        t = Tensor(np.zeros((200, 500), dtype=np.float64))
        n = t.data.size
        for name, fn, mean, std, lo, hi in [("uniform_", lambda: init.uniform_(t, -1.0, 3.0), 1.0, 4.0 / math.sqrt(12), -1.0, 3.0), ("normal_", lambda: init.normal_(t, 0.5, 2.0), 0.5, 2.0, None, None),
                                            ("xavier_uniform_", lambda: init.xavier_uniform_(t), 0.0, math.sqrt(6.0 / 700) / math.sqrt(3), -math.sqrt(6.0 / 700), math.sqrt(6.0 / 700)),
                                            ("kaiming_normal_", lambda: init.kaiming_normal_(t, 0, "fan_in", "relu"), 0.0, math.sqrt(2.0) / math.sqrt(500), None, None),
                                            ("xavier_normal_", lambda: init.xavier_normal_(t), 0.0, math.sqrt(2.0 / 700), None, None)]:
            fn()
            run.rt(("stats", name))
            d = t.data
            ok = abs(d.mean() - mean) <= 5 * std / math.sqrt(n) and abs(d.std() - std) <= 5 * std / math.sqrt(2 * n) * 1.5
            if lo is not None:
                ok = ok and d.min() >= lo and d.max() <= hi
            if not ok:
                run.violation(NAME + name + ".sample_statistics", "%s: sample mean %.5f std %.5f (documented %.5f / %.5f)" % (name, d.mean(), d.std(), mean, std),
                              key={"initialiser": name, "clause": "statistics"}, replay={"mean": float(d.mean()), "std": float(d.std())})
        # layers start from U(-1/sqrt(fan_in), 1/sqrt(fan_in))
        layer_grid = [(lambda: nn.Linear(7, 3), 7), (lambda: nn.Conv1d(3, 2, 4), 12), (lambda: nn.Conv2d(2, 3, (2, 3)), 12), (lambda: nn.Neuron(5), 5), (lambda: nn.Linear(7, 3, bias=False), 7)]
        # fan_in = in_channels x kernel elements, whatever the other constructor options are (stride, padding, dilation, bias)
        for k, st, pd, dl in itertools.product([1, 3, 5], [1, 2], [0, 2], [1, 2, 3]):
            layer_grid.append((lambda k=k, st=st, pd=pd, dl=dl: nn.Conv1d(3, 2, k, st, pd, dl), 3 * k))
        for k, st, pd, dl in itertools.product([1, 2, (2, 3), (3, 1)], [1, (2, 1)], [0, (1, 2)], [1, 2, (1, 3), (2, 2)]):
            kk = (k, k) if isinstance(k, int) else k
            layer_grid.append((lambda k=k, st=st, pd=pd, dl=dl: nn.Conv2d(2, 3, k, st, pd, dl), 2 * kk[0] * kk[1]))
        for mk, fan_in in layer_grid:
            recorded.clear()
            L = mk()
            run.rt(("layer", type(L).__name__))
            b = 1.0 / math.sqrt(fan_in)
            ok = len(recorded) in (1, 2) and all(r_[0] == "uniform" and abs(_dist_args(r_)[0] + b) < 1e-12 and abs(_dist_args(r_)[1] - b) < 1e-12 for r_ in recorded)
            ok = ok and len(recorded) == (2 if getattr(L, "bias", None) is not None else 1)
            ok = ok and L.weight.data.dtype == np.float32 and L.weight.requires_grad and np.all(np.abs(L.weight.data) <= b + 1e-7)
            if not ok:
                opts = {k_: str(getattr(L, k_)) for k_ in ("kernel_size", "stride", "padding", "dilation") if hasattr(L, k_)}
                run.violation("synapgrad.nn.layers.%s.reset_parameters.documented_parameters" % type(L).__name__, "layer %s drew %s, documented U(-%g, %g) with fan_in = %d" %
                              (opts, [(r_[0], list(_dist_args(r_))) for r_ in recorded], b, b, fan_in), key={"layer": type(L).__name__, **opts}, replay={})
    finally:
        init.np = saved


def main(tier="quick", seed=0, procs=None, only=None):
    run = Run("C15", tier, seed, "proof")
    run.assume("pyvc-encoding", "engines")
    run.assume("contracts assumed for the fillers' back end: np.random.uniform(a, b, shape) / np.random.normal(mean, std, shape) draw i.i.d. from U(a,b) / N(mean, std^2); "
               "uniform_ / normal_ themselves are checked at run time to pass their arguments through unchanged")
    run.assume("math.sqrt(x) is a fresh r with r >= 0 and r*r == x; float arithmetic as reals")
    run.bounds = {"pyvc": "unbounded: ranks 0-5 with symbolic extents, all positive gains, all real/int slopes, every mode and nonlinearity string in the tables",
                  "runtime": "shapes (3,4),(2,3,5),(4,2,3,3)(,(2,2,2,2,2)), both dtypes, both modes x 4 nonlinearities, 5 statistical samples of 10^5 draws"}
    run.rule = "pyvc: one case = one function x (nonlinearity | rank | mode | bias); run time: one evaluation = (initialiser, shape, dtype, parameters)"
    cases = [TargetCase(t) for t in targets()]
    run_catalogue(run, cases, seed=seed, procs=procs)
    try:
        runtime_part(run, tier, seed)
    except Exception as e:
        run.error("runtime part failed", e)
    return run.finish()
