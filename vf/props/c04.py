"""C04 - leaf gradients accumulate exactly across any history of backward calls.

Ghost state: for every leaf an accumulator acc[leaf] (symbolic terms, or None = "never reached / reset to None") that the
SPEC updates:  backward(r, g) adds  g . d r / d leaf  for every leaf reachable from r;  a reset sets it to zeros.
Contract, checked after EVERY event of a history:  leaf._grad == acc[leaf]  (None <=> None);  tensors not reachable from
the root of a call keep identical gradient terms;  every upstream gradient array handed in by the caller is unchanged.
The real Tensor / Module / Optimizer code is executed on symbolic values; equalities are discharged by z3.
"""
import itertools
import random

import numpy as np

from ..report import Run
from ..symreal import core, shim
from ..symreal.core import S, symarr, vjp, new_session, evalarr
from ..symreal.discharge import prove_equal
from ..symreal.pool import run_catalogue

ALPHABET = ["B0", "B1", "B2", "B3", "B4", "B5", "B6", "B7", "B8", "B9", "B10", "B11", "B12", "B13", "B14", "BN_train", "REG_d", "REFUSED_last", "BW_last", "BW_prev", "BW_int", "BW_leaf_a", "BWG_last", "BWR_last", "BWR_int", "RET_int", "RET_last", "AUG_c", "Z_a", "Z_mod", "Z_opt"]
DESCR = {"B13": "weighted blocks of concat([a, c, b]) (flattened operands)", "B14": "sum(j*j) over the join j of the previous B13 (a second root sharing the join)", "B9": "sum_k w_k * stack([c, a, c, b])[k]  (constants in front of and between the operands that require grad)", "B10": "eval-mode BatchNorm1d over the batch (a, b), weighted sum",
         "BN_train": "a training-mode forward through that layer on other data (rewrites its running statistics)", 
    "B0": "r = a * b", "B1": "m = a + b; r = m * a", "B2": "r = sum(a * a)", "B3": "r = <previous result> * b  (reuse of an earlier result)", "B4": "m = exp(b); r = m * c", "B5": "u = unbind(a); r = u[0] * b + u[1] + a   (multi-output op whose operand is also used directly)",
    "B7": "r = a * d   (d: a parameter that is registered in a nested module only by event REG_d)", "REG_d": "module.inner.pd = d   (registration after the module may already have been queried)",
    "B8": "r = e * b   (e: a second Parameter object tied to a's storage, registered in the module, not given to the optimizer)",
    "REFUSED_last": "backward(last result, g of the WRONG shape): refused, and nothing may be left behind that disturbs later calls",
    "B6": "r = cross_entropy(stack([a, b]), labels [0, 1])   (a fused loss whose backward re-uses values of its forward)",
    "BW_last": "backward(last result, fresh g)", "BW_prev": "backward(previous result, fresh g)", "BW_int": "backward(last interior node m, fresh g)",
    "BW_leaf_a": "a.backward(fresh g)", "BWG_last": "<last result>.backward(<previous result>.grad)  (the gradient an earlier sweep left on a tensor, passed on as it is)", "BWR_last": "with retain_grads(): backward(last result)", "BWR_int": "with retain_grads(): backward(last interior)",
    "RET_int": "m.retain_grad()", "RET_last": "<last result>.retain_grad()  (a tensor that is later used as a root)", "AUG_c": "c += 1.0  (augmented assignment on the constant operand; earlier graphs captured the old value)", "Z_a": "a.zero_()", "Z_mod": "Module.zero_grad()", "Z_opt": "Optimizer.zero_grad()",
}


class World:
    """interprets a history on the real library; the same interpreter runs symbolically and natively"""

    def __init__(self, mode, sess=None, point=None, shape=(2,)):
        self.shape = tuple(shape)
        import synapgrad
        from synapgrad.nn.modules import Parameter, Module
        from synapgrad.optim.optimizers import SGD
        self.mode = mode
        self.sess = sess
        self.point = point
        self.F = synapgrad.functional
        self.tmod = shim.tmod()
        self.a = Parameter(self._arr("a", self.shape), requires_grad=True)
        self.b = Parameter(self._arr("b", self.shape), requires_grad=True)
        self.c = Parameter(self._arr("c", self.shape), requires_grad=False)
        self.d = Parameter(self._arr("d", self.shape), requires_grad=True)      # registered late (event REG_d), never given to the optimizer
        self.d_registered = False
        self.e = Parameter(self.a)          # a SECOND parameter object tied to a's storage (weight tying): its own flags and gradient, the same data array
        self.f = Parameter(self._arr("f", self.shape), requires_grad=True)      # held in a plain Python list of the module and reported by its OVERRIDDEN parameters()
        self.leaves = {"a": self.a, "b": self.b, "c": self.c, "d": self.d, "e": self.e, "f": self.f}

        class Inner(Module):
            pass

        class Holder(Module):
            def __init__(s):
                super().__init__()
                s.pa = self.a
                s.pb = self.b
                s.pc = self.c
                s.pe = self.e
                s.inner = Inner()
                object.__setattr__(s, "extra", [self.f])

            def parameters(s):
                return super().parameters() + s.extra
        self.module = Holder()
        self.optim = SGD([self.a, self.b], lr=0.1)
        self.results = []       # roots in build order
        self.interiors = []
        self.ng = 0
        self.gs = []            # (Tensor g, array, snapshot)

    def _arr(self, name, shape):
        if self.mode == "sym":
            return symarr(name, shape)
        from ..symreal.harness import var_names
        return np.array([self.point[n] for n in var_names(name, shape)], dtype=np.float64).reshape(shape)

    def fresh_g(self, shape):
        from synapgrad.tensor import Tensor
        arr = self._arr("g%d" % self.ng, shape)
        self.ng += 1
        t = Tensor(arr)
        self.gs.append((t, arr, arr.copy()))
        return t

    def valid(self, ev):
        if ev in ("BW_last", "BWR_last", "RET_last", "REFUSED_last"):
            return len(self.results) >= 1
        if ev == "BW_prev":
            return len(self.results) >= 2
        if ev == "BWG_last":
            return len(self.results) >= 2 and self.results[-2]._grad is not None and tuple(self.results[-2].shape) == tuple(self.results[-1].shape)
        if ev in ("BW_int", "BWR_int", "RET_int"):
            return len(self.interiors) >= 1
        return True

    def target(self, ev):
        if ev in ("BW_last", "BWR_last", "RET_last", "BWG_last"):
            return self.results[-1]
        if ev == "BW_prev":
            return self.results[-2]
        if ev in ("BW_int", "BWR_int", "RET_int"):
            return self.interiors[-1]
        if ev == "BW_leaf_a":
            return self.a
        return None

    def apply(self, ev):
        F = self.F
        a, b, c = self.a, self.b, self.c
        if ev == "B0":
            self.results.append(a * b)
        elif ev == "B1":
            m = a + b
            self.interiors.append(m)
            self.results.append(m * a)
        elif ev == "B2":
            self.results.append(F.sum(a * a))
        elif ev == "B3":
            prev = self.results[-1] if self.results else a * c
            if prev.ndim == 0:
                prev = prev * a
            self.results.append(prev * b)
        elif ev == "B4":
            m = F.exp(b)
            self.interiors.append(m)
            self.results.append(m * c)
        elif ev == "B5":
            u = F.unbind(a, 0)
            self.results.append(u[0] * b + u[1] + a)
        elif ev == "B6":
            import synapgrad.nn.functional as NF
            from synapgrad.tensor import Tensor
            self.results.append(NF.cross_entropy(F.stack([a, b], 0), Tensor(np.array([0, 1]))))
        elif ev == "B9":
            # a join of operands that do and do not require grad, the constant ones in front and in between; each slice gets its own weight so upstream slices differ
            st = F.stack([c, a, c, b], 0)
            self.results.append(st[0] * 2.0 + st[1] * 3.0 + st[2] * 5.0 + st[3] * 7.0)
        elif ev == "B13":
            # a concat of tracked operands and a constant, reshaped per operand so that each block of the join has its own weight; swept more than once by the histories
            j = F.concat([F.reshape(a, (-1,)), F.reshape(c, (-1,)), F.reshape(b, (-1,))], 0)
            n_ = int(np.prod(self.shape)) if self.shape else 1
            self.interiors.append(j)
            self.results.append(F.reshape(j[0:n_] * 2.0 + j[n_:2 * n_] * 3.0 + j[2 * n_:3 * n_] * 5.0, self.shape))
        elif ev == "B14":
            # a second root over the join of the previous B13 (two roots sharing one join node)
            j = self.interiors[-1] if self.interiors else F.concat([F.reshape(a, (-1,)), F.reshape(b, (-1,))], 0)
            self.results.append(F.sum(j * j))
        elif ev == "B10":
            # an eval-mode batch norm over (a, b) as a batch of two samples; the layer's running statistics are rewritten by the event BN_train before this graph is swept
            from synapgrad.tensor import Tensor
            if getattr(self, "bn", None) is None:
                import synapgrad.nn as nn_
                self.bn = nn_.BatchNorm1d(int(np.prod(self.shape, dtype=int)) if self.shape else 1, affine=False, dtype=a.data.dtype)
                self.bn.running_mean = Tensor(np.array(c.data).reshape(-1) * 1.0)
                self.bn.running_var = Tensor(np.array(c.data).reshape(-1) * np.array(c.data).reshape(-1) + 1.0)
            self.bn.eval()
            x = F.stack([F.reshape(a, (-1,)), F.reshape(b, (-1,))], 0)
            self.results.append(F.reshape(F.sum(self.bn(x) * F.stack([F.reshape(c, (-1,)), F.reshape(c, (-1,)) + 1.0], 0), 0), self.shape))
        elif ev == "B11":
            # an interior tensor as the EARLIER operand of an op whose later operand is computed from it
            h = a * b
            self.interiors.append(h)
            self.results.append(h + F.exp(h))
        elif ev == "B12":
            self.results.append(self.f * a)
        elif ev == "BN_train":
            if getattr(self, "bn", None) is not None:
                from synapgrad.tensor import Tensor
                self.bn.train()
                self.bn(Tensor(np.array(F.stack([F.reshape(c, (-1,)) + 2.0, F.reshape(c, (-1,)) * 3.0], 0).data)))
                self.bn.eval()
        elif ev in ("BW_last", "BW_prev", "BW_int", "BW_leaf_a"):
            t = self.target(ev)
            t.backward(self.fresh_g(t.shape))
        elif ev == "BWG_last":
            g = self.results[-2].grad           # what the user gets from the attribute, handed on unchanged
            self.gs.append((g, g.data, np.asarray(g.data, dtype=object).copy() if g.data.dtype == object else g.data.copy()))
            self.results[-1].backward(g)
        elif ev in ("BWR_last", "BWR_int"):
            t = self.target(ev)
            g = self.fresh_g(t.shape)
            with self.tmod.retain_grads():
                t.backward(g)
        elif ev == "AUG_c":
            c_ = self.c
            c_ += 1.0
            self.c = c_
        elif ev == "RET_int":
            self.interiors[-1].retain_grad()
        elif ev == "RET_last":
            self.results[-1].retain_grad()
        elif ev == "REFUSED_last":
            t = self.results[-1]
            g = self.fresh_g(tuple(t.shape) + (2,))
            try:
                t.backward(g)
            except Exception:
                return
            raise AssertionError("backward accepted an upstream gradient of shape %s for a result of shape %s" % (tuple(t.shape) + (2,), tuple(t.shape)))
        elif ev == "B7":
            self.results.append(a * self.d)
        elif ev == "B8":
            self.results.append(self.e * b)
        elif ev == "REG_d":
            self.module.inner.pd = self.d
            self.d_registered = True
        elif ev == "Z_a":
            a.zero_()
        elif ev == "Z_mod":
            self.module.zero_grad()
        elif ev == "Z_opt":
            self.optim.zero_grad()
        else:
            raise ValueError(ev)


def reachable(t):
    seen = {}
    stack = [t]
    while stack:
        n = stack.pop()
        if id(n) in seen:
            continue
        seen[id(n)] = n
        stack.extend(n._children)
    return seen


class HistoryCase:
    functions = ("synapgrad.tensor.Tensor.backward", "synapgrad.tensor.Tensor.zero_", "synapgrad.tensor.Tensor.retain_grad", "synapgrad.tensor.retain_grads",
                 "synapgrad.nn.modules.Module.zero_grad", "synapgrad.optim.optimizers.Optimizer.zero_grad")
    expect = "history"

    def __init__(self, events, shape=(2,)):
        self.events = tuple(events)
        self.shape = tuple(shape)           # shape of the leaves a, b, c ((2,) or 0-d)
        self.name = "history"
        self.key = {"history": list(self.events), "leaf_shape": list(self.shape)}

    def run(self, seed):
        res = {"name": self.name, "key": dict(self.key), "obligations": 0, "discharged": 0, "backends": {}, "paths": 1, "solver_s": 0.0,
               "failures": [], "undecided": [], "errors": [], "notes": [], "status": "ok", "faithful": 0, "sample": None}
        try:
            self._run(res, seed)
        except Exception as e:
            import traceback
            res["errors"].append("history %s: %s\n%s" % (self.events, e, traceback.format_exc()[-1800:]))
        return res

    def _run(self, res, seed):
        # histories whose graphs contain value-dependent branches (max inside cross-entropy) are explored path by path
        sess = new_session()
        ex = core.Explorer(max_paths=64)
        stop = []

        def one():
            if not stop:
                self._run_path(res, seed, sess, ex)
                if res["failures"] or res["errors"] or res["status"] != "ok":
                    stop.append(1)
        ex.run(one)
        res["paths"] = ex.paths

    def _run_path(self, res, seed, sess, ex):
        fail = None
        with shim.symbolic(eps="native"):
            w = World("sym", sess, shape=self.shape)
            acc = {"a": None, "b": None, "c": None, "d": None, "e": None, "f": None}
            leafsym = {k: symarr(k, self.shape) for k in "abcdf"}
            leafsym["e"] = leafsym["a"]         # tied storage: the same symbols (no template uses a and e in one graph)
            nel = int(np.prod(self.shape)) if self.shape else 1
            flat = lambda x: np.asarray(x, dtype=object).reshape(-1)
            zeros = lambda: np.array([S.of(0)] * nel, dtype=object)

            def bump(backend):
                res["obligations"] += 1
                res["discharged"] += 1
                res["backends"][backend] = res["backends"].get(backend, 0) + 1

            for ei, ev in enumerate(self.events):
                if not w.valid(ev):
                    res["status"] = "invalid"
                    return
                info = {"event_index": ei, "event": ev}
                tgt = w.target(ev)
                before = {k: (None if t._grad is None else (t._grad, flat(t._grad).copy())) for k, t in w.leaves.items()}
                if ev.startswith("BW"):
                    reach = reachable(tgt)
                    info["root_kind"] = "leaf" if tgt is w.a else ("interior" if any(tgt is m for m in w.interiors) else
                                                                     ("earlier_result" if ev == "BW_prev" else "last_result"))
                    info["root_had_grad"] = tgt._grad is not None
                    info["stale_nonleaf_grad_in_graph"] = any((n._grad is not None) and (n._grad_fn is not None) and n is not tgt for n in reach.values())
                    info["under_retain_grads"] = ev.startswith("BWR")
                    # SPEC update
                    ng = w.ng
                    gsym = symarr("g%d" % ng, tgt.shape) if ev != "BWG_last" else np.asarray(w.results[-2]._grad, dtype=object).copy()
                    out_terms = np.asarray(tgt.data, dtype=object)
                    for k, t in w.leaves.items():
                        if id(t) in reach and t.requires_grad:
                            contrib = flat(vjp(out_terms, gsym, leafsym[k]))
                            base = acc[k] if acc[k] is not None else zeros()
                            acc[k] = np.array([S.of(base[i]) + contrib[i] for i in range(nel)], dtype=object)
                elif ev == "Z_a":
                    acc["a"] = zeros()
                elif ev in ("Z_mod", "Z_opt"):
                    acc["a"] = zeros()
                    acc["b"] = zeros()
                    if ev == "Z_mod":
                        acc["e"] = zeros()
                        acc["f"] = zeros()          # the module resets what its (overridden) parameters() reports
                    if ev == "Z_mod" and w.d_registered:
                        acc["d"] = zeros()          # the module resets exactly the parameters registered below it NOW
                try:
                    w.apply(ev)
                except Exception as e:
                    fail = ("%s.completes" % _api(ev), "event %d (%s) raised %s: %s" % (ei, ev, type(e).__name__, e), info)
                    break
                # ---- contract after the event
                for k, t in w.leaves.items():
                    exp = acc[k]
                    got = t._grad
                    oname = "%s.leaf_grad_is_sum_of_contributions" % _api(ev)
                    if not t.requires_grad:
                        if ev in ("Z_opt",) and False:
                            pass
                        if got is not None:
                            fail = ("%s.non_requiring_tensor_gets_no_grad" % _api(ev), "leaf %s does not require grad but has a gradient after %s" % (k, ev),
                                    {**info, "leaf": k})
                            break
                        bump("executed")
                        continue
                    if exp is None:
                        if got is not None and not _all_zero(got):
                            fail = (oname, "leaf %s was never reached / reset but holds a gradient after event %d (%s)" % (k, ei, ev), {**info, "leaf": k})
                            break
                        bump("executed")
                        continue
                    if got is None:
                        if _all_zero_terms(exp):
                            bump("executed")
                            continue
                        fail = (oname, "leaf %s has no gradient after event %d (%s) but contributions are due" % (k, ei, ev), {**info, "leaf": k})
                        break
                    if tuple(np.shape(got)) != self.shape:
                        fail = ("%s.grad_shape" % _api(ev), "leaf %s gradient has shape %s" % (k, np.shape(got)), {**info, "leaf": k})
                        break
                    got = flat(got)
                    for i in range(nel):
                        v = prove_equal(S.of(got[i]), S.of(exp[i]), list(sess.pre) + list(ex.pc) + sess.relevant_axioms(list(ex.pc) + [S.of(got[i]).n, S.of(exp[i]).n, S.of(got[i]).d, S.of(exp[i]).d]))
                        res["solver_s"] += v.seconds
                        if v.status == "discharged":
                            bump(v.backend)
                            if res["sample"] is None and v.backend != "syntactic":
                                res["sample"] = {"obligation": oname, "history": list(self.events), "after_event": ei, "leaf": k,
                                                 "lhs": str(S.of(got[i]).term())[:140], "rhs": str(S.of(exp[i]).term())[:140], "backend": v.backend}
                        else:
                            fail = (oname, "leaf %s[%d] after event %d (%s): implementation %s, specification %s" %
                                    (k, i, ei, ev, str(S.of(got[i]).term())[:200], str(S.of(exp[i]).term())[:200]), {**info, "leaf": k, "solver": v.status})
                            break
                    if fail:
                        break
                if fail:
                    break
                # unreachable leaves untouched (identity of the buffer terms)
                if ev.startswith("BW"):
                    for k, t in w.leaves.items():
                        if id(t) not in reach and before[k] is not None:
                            arr, snap = before[k]
                            ok = t._grad is arr and all(x is y for x, y in zip(flat(arr), snap))
                            if ok:
                                bump("syntactic")
                            else:
                                fail = ("Tensor.backward.unreachable_untouched", "leaf %s is not reachable from the root of event %d but its gradient changed" % (k, ei),
                                        {**info, "leaf": k})
                                break
                    if fail:
                        break
                # caller's upstream gradients unchanged (all of them, also those of earlier calls)
                for gi, (gt, arr, snap) in enumerate(w.gs):
                    ok = gt.data is arr and all(x is y for x, y in zip(arr.ravel(), snap.ravel()))
                    if ok:
                        bump("syntactic")
                    else:
                        fail = ("Tensor.backward.callers_gradient_unchanged", "the upstream gradient passed to backward call #%d was modified by event %d (%s)" % (gi, ei, ev),
                                {**info, "which_g": gi, "g_of_earlier_call": gi < len(w.gs) - 1 or not ev.startswith("BW")})
                        break
                if fail:
                    break
            accs = acc
        if not fail and ex.paths == 0 and any(e.startswith("BW") for e in self.events):
            # floats: the same history natively on float64 leaves must give the accumulated sums to double precision (a gradient routed through a
            # lower-precision buffer, or any other rounding beyond the leaf's own precision, is not "the sum of the true gradients")
            rep = self._native_replay(sess, accs, {"event_index": len(self.events) - 1}, seed, rtol=1e-11, default_dtype=np.float32)   # the library's own default dtype
            if rep.get("reproduced") and not rep.get("native_exception"):
                res["obligations"] += 1
                res["failures"].append({"obligation": "history.float64_accumulation_exact_to_double_precision", "what": "natively the leaf gradients after the history differ from the sum of "
                                        "contributions beyond double precision (or the buffer is not float64): %s vs %s %s" % (rep.get("actual"), rep.get("expected"), rep.get("gradient_dtype", "")),
                                        "reproduced": True, "replay": rep})
            else:
                res["faithful"] += 1        # bounded native evaluation, not a discharged obligation
        if fail:
            oname, what, info = fail
            rep = self._native_replay(sess, accs, info, seed)
            res["key"].update({k: v for k, v in info.items()})
            if rep.get("reproduced"):
                if ".completes" in oname and not rep.get("native_exception"):
                    # the exception belongs to the symbolic run (e.g. a method missing on a symbolic scalar); what the user sees natively is a wrong gradient
                    oname = oname.replace(".completes", ".leaf_grad_is_sum_of_contributions")
                    what = "natively after event %s: leaves %s hold %s, the sum of contributions is %s (symbolic run: %s)" % (info.get("event_index"), rep.get("leaves_differing"),
                                                                                                                          rep.get("actual"), rep.get("expected"), what)
                res["failures"].append({"obligation": oname, "what": what, "reproduced": True, "replay": rep})
            elif rep.get("native_agrees"):
                res["errors"].append("history %s: symbolic run fails (%s) but the native replay satisfies the contract: %s" % (self.events, what, rep))
            else:
                res["failures"].append({"obligation": oname, "what": what, "reproduced": False, "replay": rep})

    def _native_replay(self, sess, acc, info, seed, rtol=1e-6, default_dtype=np.float64):
        """run the same history on float64 and compare the leaf gradients with the specification terms evaluated at that point"""
        from ..symreal.harness import var_names
        rng = random.Random("%s|%d" % (self.events, seed))
        point = {}
        for k in "abcdf":
            for n in var_names(k, self.shape):
                point[n] = rng.choice([-1, 1]) * rng.uniform(0.3, 2.0)
        for gi in range(len(self.events) + 1):
            for shape in ((2,), (), self.shape):
                for n in var_names("g%d" % gi, shape):
                    point[n] = rng.choice([-1, 1]) * rng.uniform(0.3, 2.0)
        upto = info["event_index"]
        rep = {"inputs": point, "history": list(self.events), "failing_event": upto}
        try:
            with shim.native(dtype=default_dtype):
                w = World("nat", point=point, shape=self.shape)
                for ev in self.events[: upto + 1]:
                    w.apply(ev)
                got = {k: (None if t._grad is None else np.array(t._grad, dtype=np.float64)) for k, t in w.leaves.items()}
                dtypes = {k: (None if t._grad is None else str(np.asarray(t._grad).dtype)) for k, t in w.leaves.items()}
                gs_ok = all(np.array_equal(arr, snap) and gt.data is arr for gt, arr, snap in w.gs)
        except Exception as e:
            rep.update({"reproduced": True, "native_exception": "%s: %s" % (type(e).__name__, e)})
            return rep
        exp = {}
        bad = []
        for k in "abdef":
            exp[k] = None if acc[k] is None else evalarr(np.asarray(acc[k], dtype=object), point).reshape(self.shape)
            g = got[k]
            if exp[k] is None:
                if g is not None and np.any(g != 0):
                    bad.append(k)
            elif g is None:
                if np.any(np.abs(exp[k]) > 1e-9):
                    bad.append(k)
            elif g.shape != exp[k].shape or not np.allclose(g, exp[k], rtol=rtol, atol=rtol * 1e-3):
                bad.append(k)
            elif dtypes[k] != "float64":
                bad.append(k)           # a float64 leaf accumulating through a buffer of another dtype
                rep["gradient_dtype"] = dtypes[k]
        if got["c"] is not None:
            bad.append("c")
        rep["actual"] = {k: (None if v is None else v.tolist()) for k, v in got.items()}
        rep["expected"] = {k: (None if v is None else v.tolist()) for k, v in exp.items()}
        rep["callers_gradients_unchanged"] = gs_ok
        if bad or not gs_ok:
            rep["reproduced"] = True
            rep["leaves_differing"] = bad
        else:
            rep["native_agrees"] = True
        return rep


def _api(ev):
    if ev.startswith("BW"):
        return "Tensor.backward"
    return {"Z_a": "Tensor.zero_", "Z_mod": "Module.zero_grad", "Z_opt": "Optimizer.zero_grad", "RET_int": "Tensor.retain_grad", "RET_last": "Tensor.retain_grad", "REG_d": "Module.__setattr__", "REFUSED_last": "Tensor.backward"}.get(ev, "build")


def _all_zero(arr):
    for x in np.asarray(arr, dtype=object).ravel():
        x = S.of(x)
        if not core.isc(x.n, 0):
            return False
    return True


_all_zero_terms = _all_zero


def histories(tier, seed):
    rng = random.Random(seed)
    hs = []
    maxlen = 3
    for n in range(1, maxlen + 1):
        for h in itertools.product(ALPHABET, repeat=n):
            if h[0] not in ("B0", "B1", "B2", "B3", "B4", "B5", "B6", "B7", "B8", "B9", "BW_leaf_a", "Z_a", "Z_mod", "Z_opt") or "B10" in h or "BN_train" in h or "B11" in h or "B12" in h or "B13" in h or "B14" in h:
                continue
            if not any(e.startswith("BW") for e in h):
                continue
            hs.append(h)
    # a build, optionally a retain_grad on its result / interior, then every ordered pair of backward calls (quick); every history of length 4
    # that starts with a build (thorough)
    BWS = [e for e in ALPHABET if e.startswith("BW")]
    for b in ("B0", "B1", "B2", "B3", "B4", "B5", "B6"):
        if tier == "thorough":
            # every length-4 history starting with this build would be 7 x 19^3 = 48 000 cases (about an hour); a seeded quarter of them plus the structured ones
            for h in itertools.product(ALPHABET, repeat=3):
                if any(e.startswith("BW") for e in h) and rng.random() < 0.25:
                    hs.append((b,) + h)
        else:
            for r in ("RET_last", "RET_int"):
                for x in BWS:
                    for y in BWS:
                        hs.append((b, r, x, y))
    # tied parameters: the module resets BOTH objects
    for pre in ((), ("B0", "BW_last")):
        hs.append(pre + ("B8", "BW_last", "Z_mod", "B8", "BW_last"))
        hs.append(pre + ("B8", "BW_last", "Z_mod"))
        hs.append(pre + ("B8", "BW_last", "Z_opt", "BW_last", "Z_a"))
    # a refused call between build and valid calls
    for b in ("B0", "B1", "B4", "B5"):
        for tail in (("BW_last",), ("BW_last", "BW_last"), ("BWR_last", "BW_int") if b in ("B1", "B4") else ("BW_last", "Z_a", "BW_last")):
            hs.append((b, "REFUSED_last") + tail)
            hs.append((b, "BW_last", "REFUSED_last") + tail)
    # the gradient an earlier sweep left on a result is passed on, as it is, as the upstream gradient of a sweep through a graph that CONTAINS that result
    for b in ("B0", "B1", "B4"):
        for mid in (("BW_last",), ("BWR_last",), ("RET_last", "BW_last")):
            hs.append((b,) + mid + ("B3", "BWG_last"))
            hs.append((b,) + mid + ("B3", "BWG_last", "BW_last"))
        hs.append((b, "RET_last", "B3", "BW_last", "BWG_last"))
    # augmented assignment on the constant operand between building a graph and differentiating it
    for h in (("B4", "AUG_c", "BW_last"), ("B4", "BW_last", "AUG_c", "BW_last"), ("B4", "AUG_c", "B4", "BW_prev", "BW_last"), ("B0", "B3", "AUG_c", "BW_last"), ("B4", "AUG_c", "AUG_c", "BWR_last", "BW_int")):
        hs.append(h)
    # a stateful layer used in eval mode, its statistics rewritten by a training forward, THEN the eval-mode graph is swept (and swept again)
    for h in (("B10", "BN_train", "BW_last"), ("B10", "BW_last", "BN_train", "BW_last"), ("B10", "BN_train", "B10", "BW_prev", "BW_last"), ("B9", "BW_last", "B9", "BW_last", "BW_prev")):
        hs.append(h)
    # an interior tensor feeding an op directly and through a second path listed later; a leaf reported only by an overridden parameters()
    for h in (("B11", "BW_last"), ("B11", "BW_last", "BW_last"), ("B11", "RET_int", "BW_last", "BW_int"), ("B11", "BWR_last", "Z_a", "BW_last"),
              ("B12", "BW_last", "Z_mod", "B12", "BW_last"), ("B12", "BW_last", "Z_mod"), ("B12", "BW_last", "Z_opt", "BW_last", "Z_mod", "BW_last")):
        hs.append(h)
    # a join node swept by more than one backward call: the same root twice, after a reset, through a retained interior, and through two roots that share it
    for h in (("B13", "BW_last", "BW_last"), ("B13", "BW_last", "Z_a", "BW_last"), ("B13", "BWR_last", "BW_last", "BW_last"), ("B13", "B14", "BW_last", "BW_prev"),
              ("B13", "B14", "BW_prev", "BW_last", "BW_last"), ("B13", "RET_int", "BW_last", "BW_int")):
        hs.append(h)
    # late registration: the module is queried (zero_grad) before and after a parameter is attached to a nested module
    for pre in (("Z_mod",), ("B7", "BW_last", "Z_mod"), ()):
        for post in (("B7", "BW_last", "Z_mod", "B7", "BW_last"), ("B7", "BW_last", "Z_mod"), ("B7", "BW_last", "Z_opt", "BW_last", "Z_mod")):
            hs.append(pre + ("REG_d",) + post)
    # 0-d leaves (a 0-d gradient buffer degenerates easily into a NumPy scalar): every history of length <= 3 (thorough 4) over the templates that make sense for scalars
    alpha0 = [e for e in ALPHABET if e not in ("B5", "B6", "B7", "B8", "REG_d", "REFUSED_last")]
    zero_d = []
    for n in range(1, (4 if tier == "thorough" else 3) + 1):
        for h in itertools.product(alpha0, repeat=n):
            if h[0] in ("B0", "B1", "B2", "B3", "B4", "BW_leaf_a", "Z_a", "Z_mod", "Z_opt") and any(e.startswith("BW") for e in h) and (n < 4 or rng.random() < 0.2):
                zero_d.append(h)
    for h in [("B0", "BW_last", "B3", "BWG_last"), ("B1", "RET_last", "B3", "BW_last", "BWG_last"), ("BW_leaf_a", "B0", "BW_last", "Z_a", "BW_last"), ("B0", "BW_last", "BW_leaf_a", "Z_opt", "B0", "BW_last"), ("B2", "BW_last", "BW_leaf_a", "Z_mod", "BW_last")]:
        zero_d.append(h)
    extra = 600 if tier == "quick" else 6000
    for _ in range(extra):
        n = rng.choice([4, 4, 5, 6]) if tier == "thorough" else rng.choice([4, 4, 5])
        h = [rng.choice(["B0", "B1", "B2", "B3", "B4", "B5", "B6"])]
        while len(h) < n:
            h.append(rng.choice(ALPHABET))
        hs.append(tuple(h))
    return [HistoryCase(h) for h in hs] + [HistoryCase(h, shape=()) for h in zero_d]


def nonfinite_reset_part(run):
    """Bounded, native: "the sum of the contributions since the leaf was LAST RESET" whatever the buffer held before the reset -- also inf / -inf / nan (an overflowed
    step; the reals of the proof have no such values).  Every reset route x float32/float64 x leaf shapes (3,), (1,), (): gradient made non-finite by a backward call,
    reset, one more backward call; the leaf must hold exactly the last contribution."""
    import synapgrad as sg
    from synapgrad.tensor import Tensor
    from synapgrad.nn.modules import Module, Parameter
    from synapgrad import optim

    class Holder(Module):
        def __init__(self, p):
            super().__init__()
            self.p = p

        def forward(self, x):
            return x
    routes = {"Tensor.zero_": lambda p, m, o: p.zero_(), "Module.zero_grad": lambda p, m, o: m.zero_grad(), "SGD.zero_grad": lambda p, m, o: o["sgd"].zero_grad(),
              "Adam.zero_grad": lambda p, m, o: o["adam"].zero_grad(), "AdamW.zero_grad": lambda p, m, o: o["adamw"].zero_grad()}
    for (rname, reset), dt, shape, bad in itertools.product(routes.items(), (np.float32, np.float64), ((3,), (1,), ()), (np.inf, -np.inf, np.nan)):
        vals = np.arange(1, 1 + int(np.prod(shape, dtype=int)), dtype=dt).reshape(shape) * dt(0.5)
        p = Parameter(vals.copy(), requires_grad=True)
        m = Holder(p)
        o = {"sgd": optim.SGD([p], lr=0.1, momentum=0.9), "adam": optim.Adam([p], lr=0.1), "adamw": optim.AdamW([p], lr=0.1)}
        run.rt(("nonfinite-reset", rname, np.dtype(dt).name, shape, repr(bad)))
        key = {"reset": rname, "dtype": np.dtype(dt).name, "shape": list(shape), "stale_value": repr(bad)}
        try:
            with np.errstate(all="ignore"):
                up = np.full(shape, bad, dtype=dt)
                (p * 1.0).backward(Tensor(up))
                if not np.all(~np.isfinite(np.asarray(p._grad))):
                    run.error("non-finite reset part: could not produce a non-finite gradient (%s)" % key)
                    continue
                reset(p, m, o)
                (p * p).backward(Tensor(np.ones(shape, dtype=dt)))
                got = np.asarray(p._grad)
        except Exception as e:
            run.violation("%s.leaf_grad_is_sum_of_contributions_since_last_reset" % rname, "history backward(non-finite g); %s(); backward raised %s: %s" % (rname, type(e).__name__, e), key=key, replay=key)
            continue
        if got.shape != tuple(shape) or not np.array_equal(got, 2 * vals):
            run.violation("%s.leaf_grad_is_sum_of_contributions_since_last_reset" % rname, "leaf %s %s: backward with upstream %r, then %s(), then d(p*p) with unit upstream: the leaf holds %s, "
                          "the contribution since the reset is %s" % (np.dtype(dt).name, shape, bad, rname, got.tolist(), (2 * vals).tolist()), key=key, replay={**key, "got": repr(got.tolist())})


def main(tier="quick", seed=0, procs=None, only=None):
    run = Run("C04", tier, seed, "proof")
    run.assume("reals", "numpy", "shims", "atoms", "engines")
    run.assume("histories are bounded (length and alphabet below); per history the contract is proved for all real leaf values and all upstream gradients")
    run.bounds = {"alphabet": DESCR, "leaves": "a,b (2,) requiring grad, c (2,) not requiring grad; Parameters held by a Module and an SGD optimizer",
                  "histories": "ALL histories of length <=3 over the alphabet (those that start with a build / leaf backward / reset and contain a backward); structured length-4 (build, retain_grad, two backward calls; "
                               "late registration); thorough: a seeded quarter of all length-4 histories; 0-d leaves: all histories <=3 (thorough <=4); + %d seeded histories of length 4-%d"
                               % (600 if tier == "quick" else 6000, 5 if tier == "quick" else 6)}
    run.rule = "one case = one history; after every event: leaf._grad == ghost accumulator for every leaf, unreachable leaves untouched, all callers' gradient arrays unchanged"
    cases = histories(tier, seed)
    run_catalogue(run, cases, seed=seed, procs=procs)
    try:
        nonfinite_reset_part(run)
    except Exception as e:
        run.error("non-finite reset part failed", e)
    return run.finish()
