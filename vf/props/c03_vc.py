"""C03 / C04 / C07 / C10 / C17, deductive part: the protocol of Tensor.backward around its graph traversal (pyvc, real source).

The traversal itself (`while stack:` -- an explicit-stack depth-first search) is outside what the generator can prove: it enters the obligation as an ASSUMED
summary (reported as such in the evidence; the bounded / symbolic parts of C03 and C17 are what check it): after it `ordered_nodes` is some sequence of n >= 1 distinct
tensors ending in the root, and tensors' flags are as they were.  Everything else of the function is under contract, for every n and all flags:

  refusals      backward on a tensor that does not require grad raises RuntimeError; no gradient for a non-scalar root raises RuntimeError; a non-floating gradient
                trips the assertion; a gradient that is not a Tensor raises ValueError; a gradient of another shape is refused by the .grad setter -- and nothing else raises
  root seed     the root's buffer becomes  g  (non-leaf root, or leaf without a buffer)  or  old buffer + g  (leaf root with a buffer), converted to the dtype of the
                root's data                                                                                                   (C04 accumulation, C10 dtype)
  sweep         the recorded operation of every tensor of the order runs exactly once, in reverse order of the sequence      (C03 / C17 "each operation exactly once")
  release       afterwards a tensor of the order has lost its gradient exactly when it is not the root, not a leaf, not marked retain_grad and retain_grads is off;
                leaves, the root and retained tensors keep theirs                                                            (C07 retention clause)
"""
import z3

from ..pyvc.engine import Executor, State, Obj, Opaque, Raised, LoopContract, Unsupported, to_z3
from ..pyvc.harness import Target

TENSOR_PY = "synapgrad/tensor.py"
NAME = "synapgrad.tensor.Tensor.backward"
I, B = z3.IntSort(), z3.BoolSort()


def targets():
    ts = []
    leaf_f, keep_f, fn_f = z3.Function("is_leaf_at", I, B), z3.Function("retain_grad_at", I, B), z3.Function("has_grad_fn_at", I, B)
    for gkind in ("omitted", "a Tensor", "not a Tensor"):
        for had in (False, True):
            def setup(ex, gkind=gkind, had=had):
                s = State()
                ex.class_models = {"Tensor": {"mro": ["Tensor"]}, "Other": {"mro": ["Other"]}}
                me, data = Obj("Tensor"), Obj("ndarray")
                n, q, size = z3.Ints("n q size")
                rq, root_leaf, RG, fp, match = z3.Bools("requires_grad root_is_leaf retain_grads_mode gradient_is_floating shapes_match")
                d_data, d_g = Opaque("dtype_of_data"), Opaque("dtype_of_g")
                s.attrs(data).update(dtype=d_data, size=size, kind="data")
                old = Obj("ndarray") if had else None
                if had:
                    s.attrs(old).update(dtype=d_data, kind="old")
                s.attrs(me).update(data=data, _requires_grad=rq, _grad=old, _children=Opaque("children"), _retain_grad=z3.Bool("root_retain"), device=Opaque("device"), pos=n - 1)
                s.glob["retain_grads__"] = RG
                s.pc += [n >= 1, q >= 0, q < n, size >= 0]
                CNT, WHEN, GONE = z3.Array("calls", I, I), z3.Array("called_at", I, I), z3.Array("grad_released", I, B)
                s.glob["CNT"], s.glob["WHEN"], s.glob["GONE"], s.glob["STEP"] = CNT, WHEN, GONE, z3.IntVal(0)
                s.pc += [z3.Select(CNT, q) == 0, z3.Not(z3.Select(GONE, q))]
                # ---- the argument
                if gkind == "omitted":
                    g = None
                elif gkind == "a Tensor":
                    g, garr = Obj("Tensor"), Obj("ndarray")
                    s.attrs(garr).update(dtype=d_g, kind="g")
                    s.attrs(g).update(data=garr)
                else:
                    g = Obj("Other")
                ones = Obj("ndarray")
                s.attrs(ones).update(dtype=d_data, kind="ones")

                def ones_like(ex_, st, args, kw):
                    t = Obj("Tensor")
                    st.attrs(t).update(data=ones)
                    return t
                ex.models["ones_like"] = ones_like
                ex.models["utils.is_floating_point"] = lambda ex_, st, args, kw: (z3.BoolVal(True) if (isinstance(args[0], Obj) and st.attrs(args[0]).get("data") is ones) else fp)
                # ---- tensors
                ex.attr_models[("Tensor", "requires_grad")] = lambda ex_, st, o: st.attrs(o)["_requires_grad"]
                ex.attr_models[("Tensor", "is_leaf")] = lambda ex_, st, o: root_leaf if o is me else leaf_f(st.attrs(o)["pos"])
                ex.attr_models[("Tensor", "dtype")] = lambda ex_, st, o: st.attrs(st.attrs(o)["data"])["dtype"]

                def grad_fn(ex_, st, o):
                    pos = st.attrs(o)["pos"]
                    out = []
                    for s2, has in ex_.branch(st, fn_f(pos)):
                        if has:
                            f = Obj("GradFn")
                            s2.attrs(f)["pos"] = pos
                            out.append((s2, f))
                        else:
                            out.append((s2, None))
                    return out
                ex.attr_models[("Tensor", "grad_fn")] = grad_fn

                def call_fn(ex_, st, args, kw):
                    pos = st.attrs(args[0])["pos"]
                    st.glob["CNT"] = z3.Store(st.glob["CNT"], pos, z3.Select(st.glob["CNT"], pos) + 1)
                    st.glob["WHEN"] = z3.Store(st.glob["WHEN"], pos, st.glob["STEP"])
                    return None
                ex.models["GradFn.__call__"] = call_fn

                def grad_setter(ex_, st, o, value):        # contract of the setter (discharged in C10): stores the array iff the shapes match
                    out = []
                    for s2, ok in ex_.branch(st, match if st.attrs(value)["data"] is not ones else z3.BoolVal(True)):
                        if ok:
                            s2.attrs(o)["_grad"] = s2.attrs(value)["data"]
                            out.append((s2, None))
                        else:
                            out.append((s2, Raised("RuntimeError")))
                    return out
                ex.setattr_models[("Tensor", "grad")] = grad_setter

                def arr_add(ex_, st, args, kw):
                    r = Obj("ndarray")
                    st.attrs(r).update(dtype=Opaque("promoted"), kind=("sum", st.attrs(args[0])["kind"], st.attrs(args[1])["kind"]))
                    return r
                ex.models["ndarray.__add__"] = arr_add

                def astype(ex_, st, args, kw):
                    r = Obj("ndarray")
                    st.attrs(r).update(dtype=args[1], kind=st.attrs(args[0])["kind"])
                    return r
                ex.models["ndarray.astype"] = astype

                def np_array(ex_, st, args, kw):            # np.array(<array>, dtype=<dtype>): the same content as a fresh array of that dtype (the other spelling of astype)
                    dt = kw.get("dtype", args[1] if len(args) > 1 else None)
                    if not isinstance(args[0], Obj) or dt is None:
                        raise Unsupported("np.array of something that is not a modelled array, or without a dtype")
                    r = Obj("ndarray")
                    st.attrs(r).update(dtype=dt, kind=st.attrs(args[0])["kind"])
                    return r
                ex.models["np.array"] = np_array

                # nodes of the order: position p of the sequence; the root sits at n-1 and IS the tensor backward was called on
                def set_node_grad(ex_, st, o, value):
                    if value is None:
                        st.glob["GONE"] = z3.Store(st.glob["GONE"], st.attrs(o)["pos"], True)
                    return None

                def node_attr(name, f):
                    return lambda ex_, st, o: f(st.attrs(o)["pos"])
                ex.attr_models[("Node", "is_leaf")] = node_attr("is_leaf", leaf_f)
                ex.attr_models[("Node", "_retain_grad")] = node_attr("_retain_grad", keep_f)
                ex.attr_models[("Node", "grad_fn")] = grad_fn
                ex.setattr_models[("Node", "_grad")] = set_node_grad
                ex.delattr_models = {("Node", "_grad"): lambda ex_, st, o: None}

                # ---- the traversal, ASSUMED: it yields a sequence of n >= 1 tensors, the root last, and leaves the state used below alone
                def traversal(ex_, st):
                    return None             # the engine has already made every name the loop binds unknown; nothing else is assumed to have changed
                import re
                ex.while_summaries = {re.compile(r"[A-Za-z_]\w*"): traversal}          # `while <work list>:` whatever the list is called

                def havoc(st, k):
                    st.glob["CNT"], st.glob["WHEN"], st.glob["GONE"] = z3.Array("calls_at_%s" % k, I, I), z3.Array("called_at_%s" % k, I, I), z3.Array("released_at_%s" % k, I, B)
                    st.glob["STEP"] = k

                def done(st, p):
                    """what holds for position p once its iteration is over"""
                    rel = z3.And(p != n - 1, z3.Not(leaf_f(p)), z3.Not(keep_f(p)), z3.Not(RG))
                    return z3.And(z3.Select(st.glob["CNT"], p) == z3.If(fn_f(p), 1, 0), z3.Implies(fn_f(p), z3.Select(st.glob["WHEN"], p) == n - 1 - p), z3.Select(st.glob["GONE"], p) == rel)

                def inv(st, k):
                    return [("positions_swept_so_far_are_done", z3.Implies(q >= n - k, done(st, q))),
                            ("positions_not_yet_swept_are_untouched", z3.Implies(q < n - k, z3.And(z3.Select(st.glob["CNT"], q) == 0, z3.Not(z3.Select(st.glob["GONE"], q)))))]

                def bind(st, k):
                    nd = Obj("Node")
                    st.attrs(nd).update(pos=n - 1 - k, __is__={me.oid: (n - 1 - k == n - 1) if not z3.is_expr(k) else k == 0})
                    import ast as _ast
                    return (k, nd) if isinstance(sweep.node.target, (_ast.Tuple, _ast.List)) else nd        # `for i, node in enumerate(reversed(order))` or `for node in reversed(order)`
                sweep = LoopContract("sweep", lambda st: n, inv, havoc, bind, frame=("CNT", "WHEN", "GONE", "STEP"))
                ex.loop_contracts = {re.compile(r"enumerate\(reversed\([A-Za-z_]\w*\)\)|reversed\([A-Za-z_]\w*\)"): sweep}
                ctx = {"me": me, "g": g, "gkind": gkind, "had": had, "rq": rq, "size": size, "fp": fp, "match": match, "root_leaf": root_leaf, "d_data": d_data, "n": n, "q": q,
                       "done": done, "ones": ones}
                return s, [me] + ([g] if g is not None else []), ctx

            def ens(ctx, s, out, gkind=gkind, had=had):
                rq, size, fp, match = ctx["rq"], ctx["size"], ctx["fp"], ctx["match"]
                if isinstance(out, Raised):
                    if gkind == "omitted":
                        legit = z3.Or(z3.Not(rq), size > 1)
                    elif gkind == "a Tensor":
                        legit = z3.Or(z3.Not(rq), z3.Not(fp), z3.Not(match))
                    else:
                        legit = z3.BoolVal(True)
                    exc_ok = {"RuntimeError": True, "AssertionError": gkind != "omitted", "ValueError": gkind == "not a Tensor"}.get(out.exc, False)
                    return [("raises_only_what_the_protocol_refuses", legit if exc_ok else z3.BoolVal(False))]
                cl = [("accepted_only_for_a_tensor_requiring_grad", rq)]
                if gkind == "omitted":
                    cl.append(("gradient_may_be_omitted_only_for_a_single_element", size <= 1))
                elif gkind == "a Tensor":
                    cl.append(("accepted_gradient_is_floating_and_of_the_roots_shape", z3.And(fp, match)))
                else:
                    return cl + [("a_gradient_that_is_not_a_tensor_is_refused", False)]
                buf = s.attrs(ctx["me"]).get("_grad")
                if not isinstance(buf, Obj):
                    return cl + [("root_holds_a_gradient_array_afterwards", False)]
                ba = s.attrs(buf)
                gk = "ones" if gkind == "omitted" else "g"
                want_sum = z3.And(ctx["root_leaf"], z3.BoolVal(had))
                kind_ok = z3.If(want_sum, z3.BoolVal(ba["kind"] == ("sum", "old", gk)), z3.BoolVal(ba["kind"] == gk))
                cl += [("root_buffer_has_the_dtype_of_the_roots_data", ba["dtype"] is ctx["d_data"]),
                       ("root_buffer_is_g_or_for_a_leaf_with_a_buffer_old_plus_g", kind_ok),
                       ("every_operation_of_the_order_ran_exactly_once_in_reverse_order_and_gradients_released_as_documented", ctx["done"](s, ctx["q"]))]
                return cl

            def replay(ctx, model, clause, gkind=gkind, had=had):
                """a small real graph differentiated natively with every grad_fn counted"""
                import numpy as np
                from synapgrad.tensor import Tensor
                from synapgrad.functional import BackwardFunction
                a = Tensor(np.array([1.0, 2.0]), requires_grad=True)
                m = a * 2.0
                kept = m * 3.0
                kept.retain_grad()
                y = (kept + m) * a
                calls, order = {}, []
                orig = BackwardFunction.__call__

                def counted(self):
                    calls[id(self)] = calls.get(id(self), 0) + 1
                    order.append(id(self))
                    return orig(self)
                BackwardFunction.__call__ = counted
                try:
                    y.backward(Tensor(np.ones(2)))
                finally:
                    BackwardFunction.__call__ = orig
                recorded, seen, todo = set(), set(), [y]
                while todo:
                    t_ = todo.pop()
                    if id(t_) in seen:
                        continue
                    seen.add(id(t_))
                    if t_._grad_fn is not None:
                        recorded.add(id(t_._grad_fn))
                    todo.extend(t_._children)
                facts = {"each recorded operation ran once": set(calls) == recorded and all(v == 1 for v in calls.values()), "root dtype kept": y._grad is not None and y._grad.dtype == y.data.dtype, "interior released": m._grad is None, "retained kept": kept._grad is not None,
                         "root kept": y._grad is not None, "leaf gradient": a._grad is not None and np.allclose(a._grad, 8 * np.array([1.0, 2.0]) * 2)}
                # dtype and accumulation at the root, gradient omitted, refusals
                for dt in (np.float32, np.float64):
                    b = Tensor(np.array([1.0, 2.0], dtype=dt), requires_grad=True)
                    r = b * 2.0
                    r.backward(Tensor(np.ones(2, dtype=np.float64 if dt == np.float32 else np.float32)))
                    facts["non-leaf root buffer has the root's dtype (%s)" % np.dtype(dt).name] = r._grad is not None and r._grad.dtype == dt and b._grad.dtype == dt
                    r.backward(Tensor(np.ones(2, dtype=dt)))
                    facts["non-leaf root swept twice holds g, not 2g (%s)" % np.dtype(dt).name] = bool(np.array_equal(r._grad, np.ones(2)))
                    c = Tensor(np.array([1.0, 2.0], dtype=dt), requires_grad=True)
                    c.backward(Tensor(np.array([1.0, 3.0], dtype=np.float64)))
                    c.backward(Tensor(np.array([0.5, 0.25], dtype=np.float32)))
                    facts["leaf root accumulates old + g in its own dtype (%s)" % np.dtype(dt).name] = c._grad.dtype == dt and bool(np.array_equal(c._grad, np.array([1.5, 3.25], dtype=dt)))
                one = Tensor(np.array([3.0]), requires_grad=True) * 2.0
                one.backward()
                facts["gradient may be omitted for one element"] = bool(np.array_equal(one._grad, [1.0]))
                for label, fn in (("two elements need a gradient", lambda: (Tensor(np.ones(2), requires_grad=True) * 2.0).backward()),
                                  ("a tensor that does not require grad refuses", lambda: Tensor(np.ones(1)).backward()),
                                  ("an integer gradient is refused", lambda: (Tensor(np.ones(2), requires_grad=True) * 2.0).backward(Tensor(np.array([1, 1])))),
                                  ("a gradient of another shape is refused", lambda: (Tensor(np.ones(2), requires_grad=True) * 2.0).backward(Tensor(np.ones(3))))):
                    try:
                        fn()
                        facts[label] = False
                    except Exception:
                        facts[label] = True
                bad = [k for k, v in facts.items() if not v]
                return {"programs": "a small graph with a retained interior node; float32/float64 roots with upstream gradients of the other dtype; leaf roots swept twice; the refusals",
                        "facts_failing": bad, "reproduced": bool(bad)}
            ts.append(Target(NAME + "[gradient %s, root %s a buffer]" % (gkind, "with" if had else "without"), TENSOR_PY, "Tensor.backward", setup, ens, replay=replay,
                             executor=lambda: Executor(havoc={"RuntimeError", "ValueError"}), key={"gradient": gkind, "root_had_buffer": had}))
    return ts
