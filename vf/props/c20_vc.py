"""C20, deductive part: the update protocol of Trainer.__train / Trainer.fit for EVERY number of epochs and batches (loop contracts, vf/pyvc).

Ghost state (state.glob): g_steps (optimizer.step calls), g_q (protocol automaton: 0 after a step / at start, 1 after zero_grad, 2 after backward),
g_ok (every backward came right after a zero_grad and every step right after that backward), g_train (every training forward saw the model in training mode),
g_sum (sum of the batch losses of the current epoch).
Callee contracts (models): Module.train()/eval() set the mode of the whole model (proved shape of that step: C12/C13); model(...) leaves modes alone; a user callback may leave
the model in ANY mode but performs no optimizer step (assumption); optimizer.zero_grad / loss.backward / optimizer.step drive the automaton; DataLoader yields len(loader) batches.
Proved on the real source (synapgrad/nn/utils/train.py):
  Trainer.__train   requires len(loader) = n >= 1, automaton at 0:   g_steps' = g_steps + n,  g_ok,  g_train,  automaton back at 0,  returned loss * n = sum of the batch losses;
                    with n = 0 the function raises UnboundLocalError  (the recorded known finding C20-zero-train-batches, here derived for every caller)
  Trainer.fit       for all epochs >= 0, n >= 1, with / without validation loader and callbacks:  g_steps = epochs * n,  g_ok,  g_train   (callee __train / __validate through their contracts)
"""
import z3

from ..pyvc.engine import Executor, State, Obj, Opaque, Returned, Raised, LoopContract
from ..pyvc.harness import Target

SRC = "synapgrad/nn/utils/train.py"
NAME = "synapgrad.nn.utils.train.Trainer."


# objects the caller supplies: they may define __bool__ / __len__ as they like (a loader with no batches is falsy), so only identity tests against None are decided
FOREIGN = {"Model", "Criterion", "Optimizer", "Evaluator", "Loader", "Callback", "Loss"}


def base_world(evaluator):
    s = State()
    me, model, crit, opt = Obj("Trainer"), Obj("Model"), Obj("Criterion"), Obj("Optimizer")
    s.attrs(model)["training"] = z3.Bool("mode0")
    a = s.attrs(me)
    a["model"], a["criterion"], a["optimizer"] = model, crit, opt
    a["evaluator"] = Obj("Evaluator") if evaluator else None
    a["engine"] = Obj("Engine")
    g = s.glob
    g["g_steps"], g["g_q"], g["g_ok"], g["g_train"], g["g_sum"] = z3.Int("steps0"), z3.IntVal(0), z3.BoolVal(True), z3.BoolVal(True), z3.RealVal(0)
    g["g_val"], g["g_grad"] = z3.BoolVal(True), z3.Bool("grad_mode0")       # validation forwards so far fine; the ambient gradient mode is arbitrary
    s.pc.append(g["g_steps"] >= 0)
    return s, me, model


def common_models(ex):
    def set_mode(v):
        def m(ex_, s, args, kw):
            s.attrs(args[0])["training"] = z3.BoolVal(v)
            return args[0]
        return m
    ex.models["Model.train"], ex.models["Model.eval"] = set_mode(True), set_mode(False)

    def forward(ex_, s, args, kw):
        g = s.glob
        if g.get("g_phase") == "validation":
            g["g_val"] = z3.And(g["g_val"], z3.Not(s.attrs(args[0])["training"]), z3.Not(g["g_grad"]))       # eval mode, gradient tracking off
        else:
            g["g_train"] = z3.And(g["g_train"], s.attrs(args[0])["training"])
        return Opaque("outputs")
    ex.models["Model.__call__"] = forward

    def criterion(ex_, s, args, kw):
        loss = Obj("Loss")
        ex_._n_loss = getattr(ex_, "_n_loss", 0) + 1
        s.attrs(loss)["value"] = z3.Real("loss%d" % ex_._n_loss)
        return loss
    ex.models["Criterion.__call__"] = criterion
    ex.models["Loss.item"] = lambda ex_, s, args, kw: s.attrs(args[0])["value"]

    def backward(ex_, s, args, kw):
        g = s.glob
        g["g_ok"] = z3.And(g["g_ok"], g["g_q"] == 1)
        g["g_q"] = z3.IntVal(2)
        g["g_sum"] = g["g_sum"] + s.attrs(args[0])["value"]
        return None
    ex.models["Loss.backward"] = backward

    def zero_grad(ex_, s, args, kw):
        s.glob["g_q"] = z3.IntVal(1)
        return None
    ex.models["Optimizer.zero_grad"] = zero_grad

    def step(ex_, s, args, kw):
        g = s.glob
        g["g_ok"] = z3.And(g["g_ok"], g["g_q"] == 2)
        g["g_q"] = z3.IntVal(0)
        g["g_steps"] = g["g_steps"] + 1
        return None
    ex.models["Optimizer.step"] = step
    # (a model that returns a list is read as a list of (state, value) outcomes, hence the explicit pair)
    def no_grad(ex_, s, args, kw):
        cm = Obj("NoGrad")
        s.attrs(cm)["prev"] = None
        return cm

    def ng_enter(ex_, s, args, kw):
        s.attrs(args[0])["prev"] = s.glob["g_grad"]
        s.glob["g_grad"] = z3.BoolVal(False)
        return None

    def ng_exit(ex_, s, args, kw):
        s.glob["g_grad"] = s.attrs(args[0])["prev"]
        return None
    ex.models["Engine.no_grad"], ex.models["NoGrad.__enter__"], ex.models["NoGrad.__exit__"] = no_grad, ng_enter, ng_exit
    ex.models["Evaluator.step"] = lambda ex_, s, args, kw: [(s, [("accuracy", Opaque("acc"))])]
    ex.models["Evaluator.compute"] = lambda ex_, s, args, kw: [(s, [("accuracy", Opaque("acc"))])]
    ex.models["len"] = lambda ex_, s, args, kw: (s.attrs(args[0])["n"] if isinstance(args[0], Obj) and "n" in s.attrs(args[0]) else Opaque("len"))
    ex.models["enumerate"] = lambda ex_, s, args, kw: args[0]


def train_loop_contract(loader, entry):
    """for i, data in enumerate(train_loader): after k iterations  steps = steps0 + k,  automaton at 0,  ok and train flags only depend on what they were,  loss sum tracked"""
    def count(s):
        return s.attrs(loader)["n"]

    def havoc(s, k):
        g = s.glob
        g["g_steps"] = z3.Int("steps@%s" % k)
        g["g_q"] = z3.Int("q@%s" % k)
        g["g_ok"] = z3.Bool("ok@%s" % k)
        g["g_train"] = z3.Bool("train@%s" % k)
        g["g_sum"] = z3.Real("sum@%s" % k)
        s.env["epoch_train_loss"] = z3.Real("acc@%s" % k)

    def inv(s, k):
        g = s.glob
        return [("steps", g["g_steps"] == entry["steps"] + k), ("automaton_idle", g["g_q"] == 0), ("protocol_ok", g["g_ok"] == entry["ok"]), ("training_mode", g["g_train"] == entry["train"]),
                ("loss_accumulator", s.env.get("epoch_train_loss", z3.RealVal(0)) == g["g_sum"]) if not isinstance(s.env.get("epoch_train_loss", 0), Opaque) else ("loss_accumulator", False)]

    def bind(s, k):
        return (k, Opaque("batch"))

    def after(s, n):
        s.env["i"] = n - 1
    return LoopContract("train_loop", count, inv, havoc, bind, frame=("g_",), after=after)


def make_replay(validation=False, evaluator=False, cb_train=False, cb_val=False, epochs_default=1):
    """replay of a counter-model on the real Trainer: the logged run of vf/rtc/trainlog.py with the model's epochs / batches (clipped to 3), same clauses as the bounded part"""
    def replay(ctx, model, clause):
        from ..rtc import trainlog as tl
        from . import c20

        def val(name, default):
            try:
                v = model.eval(z3.Int(name), model_completion=True).as_long()
            except Exception:
                v = default
            return max(0, min(3, v))
        case = dict(c20.FIT_DEFAULT, epochs=val("epochs", epochs_default) if "epochs" in ctx else epochs_default, n_train=val("n", 1), bs=2, val=(1 if validation else None),
                    ev=("multi-class" if evaluator else None), cb_train=cb_train, cb_val=cb_val)
        try:
            n, fails, rep = tl.run_fit(case)
        except Exception as e:
            return {"case": case, "reproduced": False, "replay_error": "%s: %s" % (type(e).__name__, e)}
        fails = [f for f in fails if "completes" not in f[0] or case["n_train"] > 0]
        return {"case": case, "failing_clauses_on_the_real_trainer": [[f[0], f[1][:200]] for f in fails[:5]], "reproduced": bool(fails), "native_satisfies_contract": False if fails else None}
    return replay


def targets():
    ts = []
    # ---------------------------------------------------------------- Trainer.__train
    for evaluator in (False, True):
        for zero in (False, True):
            def setup(ex, evaluator=evaluator, zero=zero):
                s, me, model = base_world(evaluator)
                loader = Obj("Loader")
                n = z3.Int("n")
                s.attrs(loader)["n"] = n
                s.pc.append(n == 0 if zero else n >= 1)
                entry = {"steps": s.glob["g_steps"], "ok": z3.BoolVal(True), "train": z3.BoolVal(True)}
                # the forward inside the loop sees whatever mode the model has THEN: the mode is not in the loop's frame, so the body must leave it alone
                ex.loop_contracts = {"enumerate(train_loader)": train_loop_contract(loader, entry)}
                return s, [me, loader, Opaque("kbar")], {"n": n, "entry": entry, "model": model, "zero": zero}

            def ens(ctx, s, out):
                if ctx["zero"]:
                    return [("zero_batches_raise_UnboundLocalError", isinstance(out, Raised) and out.exc == "UnboundLocalError")]
                if isinstance(out, Raised):
                    return [("completes", False)]
                g = s.glob
                cl = [("one_step_per_batch", g["g_steps"] == ctx["entry"]["steps"] + ctx["n"]), ("zero_grad_then_backward_before_every_step", g["g_ok"]),
                      ("every_update_computed_in_training_mode", g["g_train"]), ("automaton_idle_on_exit", g["g_q"] == 0)]
                ret = out.value
                ok_shape = isinstance(ret, list) and len(ret) >= 1 and isinstance(ret[0], tuple) and ret[0][0] == "loss"
                cl.append(("returns_loss_entry_first", ok_shape))
                if ok_shape:
                    cl.append(("epoch_loss_is_mean_of_batch_losses", ret[0][1] * ctx["n"] == g["g_sum"]))
                return cl

            def mk():
                ex = Executor(havoc={"pkbar", "kbar"})
                ex.foreign_classes = FOREIGN
                common_models(ex)
                return ex
            ts.append(Target(NAME + "__train[%s evaluator, %s]" % ("with" if evaluator else "without", "zero batches" if zero else "n >= 1 batches"), SRC, "Trainer.__train", setup, ens, executor=mk,
                             replay=make_replay(evaluator=evaluator), key={"evaluator": evaluator, "zero_batches": zero}))
    # ---------------------------------------------------------------- Trainer.__validate
    for evaluator in (False, True):
        for zero in (False, True):
            def setup(ex, evaluator=evaluator, zero=zero):
                s, me, model = base_world(evaluator)
                s.glob["g_phase"] = "validation"
                loader = Obj("Loader")
                n = z3.Int("n")
                s.attrs(loader)["n"] = n
                s.pc.append(n == 0 if zero else n >= 1)
                g0 = dict(s.glob)

                def havoc(st, k):
                    st.glob["g_val"] = z3.Bool("val@%s" % k)
                    st.glob["g_sum"] = z3.Real("vsum@%s" % k)
                    st.env["total_val_loss"] = z3.Real("vacc@%s" % k)

                def inv(st, k):
                    return [("validation_forwards_in_eval_mode_without_tracking", st.glob["g_val"]), ("no_optimizer_call", z3.And(st.glob["g_steps"] == g0["g_steps"], st.glob["g_q"] == g0["g_q"])),
                            ("inside_no_grad", z3.Not(st.glob["g_grad"])), ("model_stays_in_eval_mode", z3.Not(st.attrs(model)["training"]))]
                ex.loop_contracts = {"enumerate(validation_loader)": LoopContract("validation_loop", lambda st: n, inv, havoc, lambda st, k: (k, Opaque("batch")), frame=("g_val", "g_sum"),
                                                                                   after=lambda st, n_: st.env.__setitem__("i", n_ - 1))}
                return s, [me, loader], {"n": n, "g0": g0, "model": model, "zero": zero}

            def ens(ctx, s, out):
                if ctx["zero"]:
                    return [("zero_batches_raise_UnboundLocalError", isinstance(out, Raised) and out.exc == "UnboundLocalError"), ("gradient_mode_restored_on_the_exceptional_exit", s.glob["g_grad"] == ctx["g0"]["g_grad"])]
                if isinstance(out, Raised):
                    return [("completes", False)]
                g = s.glob
                return [("validation_in_eval_mode_without_gradient_tracking", g["g_val"]), ("performs_no_update", z3.And(g["g_steps"] == ctx["g0"]["g_steps"], g["g_q"] == ctx["g0"]["g_q"])),
                        ("restores_gradient_mode", g["g_grad"] == ctx["g0"]["g_grad"]), ("returns_val_loss_first", isinstance(out.value, list) and out.value[0][0] == "val_loss")]

            def mk():
                ex = Executor(havoc={"pkbar"})
                ex.foreign_classes = FOREIGN
                common_models(ex)
                return ex
            ts.append(Target(NAME + "__validate[%s evaluator, %s]" % ("with" if evaluator else "without", "zero batches" if zero else "n >= 1 batches"), SRC, "Trainer.__validate", setup, ens, executor=mk,
                             replay=make_replay(validation=True, evaluator=evaluator), key={"evaluator": evaluator, "zero_batches": zero}))

    # ---------------------------------------------------------------- Trainer.test
    for zero in (False, True):
        def setup(ex, zero=zero):
            s, me, model = base_world(False)
            s.glob["g_phase"] = "validation"
            loader = Obj("Loader")
            n = z3.Int("n")
            s.attrs(loader)["n"] = n
            s.pc.append(n == 0 if zero else n >= 1)
            g0 = dict(s.glob)

            def havoc(st, k):
                st.glob["g_val"] = z3.Bool("tval@%s" % k)

            def inv(st, k):
                return [("test_forwards_in_eval_mode_without_tracking", st.glob["g_val"]), ("no_optimizer_call", z3.And(st.glob["g_steps"] == g0["g_steps"], st.glob["g_q"] == g0["g_q"])),
                        ("inside_no_grad", z3.Not(st.glob["g_grad"])), ("model_stays_in_eval_mode", z3.Not(st.attrs(model)["training"]))]
            ex.loop_contracts = {"test_loader": LoopContract("test_loop", lambda st: n, inv, havoc, lambda st, k: Opaque("batch"), frame=("g_val",))}
            return s, [me, loader], {"n": n, "g0": g0, "model": model}

        def ens(ctx, s, out):
            if isinstance(out, Raised):
                return [("completes", False)]
            g = s.glob
            return [("test_in_eval_mode_without_gradient_tracking", g["g_val"]), ("performs_no_update", z3.And(g["g_steps"] == ctx["g0"]["g_steps"], g["g_q"] == ctx["g0"]["g_q"])),
                    ("restores_gradient_mode", g["g_grad"] == ctx["g0"]["g_grad"]), ("leaves_the_model_in_eval_mode", z3.Not(s.attrs(ctx["model"])["training"]))]

        def mk():
            ex = Executor(havoc={"pkbar", "np", "print", "Exception"})
            ex.foreign_classes = FOREIGN
            common_models(ex)
            return ex
        ts.append(Target(NAME + "test[%s]" % ("zero batches" if zero else "n >= 1 batches"), SRC, "Trainer.test", setup, ens, executor=mk, key={"zero_batches": zero}))

    # ---------------------------------------------------------------- Trainer.fit  (callees through their contracts)
    def train_contract(ex_, s, args, kw):
        """contract of Trainer.__train, proved above: requires n >= 1 and the automaton idle"""
        me, loader = args[0], args[1]
        g = s.glob
        n = s.attrs(loader)["n"]
        ex_.vcs = getattr(ex_, "vcs", [])
        ex_.vcs.append(("call___train.precondition[automaton_idle]", z3.Implies(z3.And(*s.pc) if s.pc else z3.BoolVal(True), g["g_q"] == 0)))
        ex_.vcs.append(("call___train.precondition[at_least_one_batch]", z3.Implies(z3.And(*s.pc) if s.pc else z3.BoolVal(True), n >= 1)))
        g["g_steps"] = g["g_steps"] + n
        s.attrs(s.attrs(me)["model"])["training"] = z3.BoolVal(True)
        ex_._n_loss = getattr(ex_, "_n_loss", 0) + 1
        return [(s, [("loss", z3.Real("epoch_loss%d" % ex_._n_loss))])]

    def validate_contract(ex_, s, args, kw):
        """contract of Trainer.__validate: no optimizer call at all, model left in eval mode"""
        me = args[0]
        s.attrs(s.attrs(me)["model"])["training"] = z3.BoolVal(False)
        ex_._n_loss = getattr(ex_, "_n_loss", 0) + 1
        return [(s, [("val_loss", z3.Real("val_loss%d" % ex_._n_loss))])]

    def callback(ex_, s, args, kw):
        """a user callback: may leave the model in any mode; performs no optimizer step (assumption)"""
        model = args[1]
        ex_._n_cb = getattr(ex_, "_n_cb", 0) + 1
        s.attrs(model)["training"] = z3.Bool("mode_after_callback%d" % ex_._n_cb)
        return None

    for val, cbt, cbv in [(v, a, b) for v in (False, True) for a in (False, True) for b in ((False, True) if v else (False,))]:
        def setup(ex, val=val, cbt=cbt, cbv=cbv):
            s, me, model = base_world(True)
            loader, vloader = Obj("Loader"), (Obj("Loader") if val else None)
            n, epochs = z3.Ints("n epochs")
            s.attrs(loader)["n"] = n
            if val:
                s.attrs(vloader)["n"] = z3.Int("n_val")
            s.pc += [n >= 1, epochs >= 0]
            steps0 = s.glob["g_steps"]
            mloc = "%s.training" % model.oid

            def havoc(st, k):
                st.glob["g_steps"] = z3.Int("fit_steps@%s" % k)
                st.glob["g_q"] = z3.Int("fit_q@%s" % k)
                st.attrs(model)["training"] = z3.Bool("fit_mode@%s" % k)

            def inv(st, k):
                return [("steps_is_epochs_done_times_batches", st.glob["g_steps"] == steps0 + k * n), ("automaton_idle", st.glob["g_q"] == 0)]
            ex.loop_contracts = {"range(epochs)": LoopContract("epoch_loop", lambda st: epochs, inv, havoc, lambda st, k: k, frame=("g_", mloc, "%s." % me.oid))}
            kw = {"on_train_epoch": Obj("Callback") if cbt else None, "on_validation_epoch": Obj("Callback") if cbv else None}
            return s, ([me, loader, epochs, vloader], kw), {"n": n, "epochs": epochs, "steps0": steps0}

        def ens(ctx, s, out):
            if isinstance(out, Raised):
                return [("completes", False)]
            g = s.glob
            return [("epochs_times_batches_updates", g["g_steps"] == ctx["steps0"] + ctx["epochs"] * ctx["n"]), ("automaton_idle_on_exit", g["g_q"] == 0)]

        def mk():
            ex = Executor(havoc={"pkbar", "np"})
            ex.foreign_classes = FOREIGN
            common_models(ex)
            ex.models["Trainer.__train"] = train_contract
            ex.models["Trainer.__validate"] = validate_contract
            ex.models["Callback.__call__"] = callback
            ex.closure_models = {"record_metrics": lambda ex_, s, args, kw: None}
            ex.models["_record_metrics"] = ex.models["record_metrics"] = lambda ex_, s, args, kw: None      # the same helper if it is ever moved to module level
            return ex
        ts.append(Target(NAME + "fit[%s validation, on_train_epoch %s, on_validation_epoch %s]" % ("with" if val else "without", "given" if cbt else "None", "given" if cbv else "None"), SRC, "Trainer.fit",
                         setup, ens, executor=mk, replay=make_replay(validation=val, evaluator=True, cb_train=cbt, cb_val=cbv, epochs_default=2),
                         key={"validation": val, "on_train_epoch": cbt, "on_validation_epoch": cbv}))
    return ts
