"""C05 - forward results of tensor ops match the NumPy/PyTorch definition they mirror.

Contract per op:  requires legal(op, shapes, args)  (legality from the reference semantics in vf/spec/refsem.py, i.e. the
NumPy / PyTorch rules, not from the library's own checks)
                  ensures  result.shape == ref.shape  and  result.data == ref  element-wise (z3, all operand values);
                  not legal  =>  the call raises (never answers with a different shape or value).
symreal decides the value/shape clauses for every enumerated configuration; pyvc decides the argument-normalisation code of
flatten / unfold_dim / matmul for ALL ranks, dims and sizes; iteration, constructors and the dtype-free part of
operator forms are run natively (bounded stand-in).  refsem is self-tested against NumPy and torch on every run.
"""
import itertools
import sys

import numpy as np
import z3

from ..report import Run
from ..spec import refsem as R
from ..spec.refsem import Reject
from ..symreal import core, shim
from ..symreal.core import S, symarr, new_session, Explorer, PathBudgetExceeded
from ..symreal.discharge import prove_equal
from ..symreal.harness import var_names, domain_constraints
from ..symreal.pool import run_catalogue
from ..catalog.tensor_ops import operand_shapes, bshape, INDEX_CATALOGUE, index_repr, dims_for

FN = "synapgrad.functional."


class FwdCase:
    expect = "forward"

    def __init__(self, name, key, leaves, call, ref, functions=(), max_paths=800, eps="zero"):
        self.name = name
        self.key = {"op": name, **key}
        self.leaves = leaves              # [(name, shape, domain)]
        self.call = call                  # call(T: dict name -> Tensor) -> Tensor | list of Tensors
        self.ref = ref                    # ref(A: dict name -> ndarray) -> ndarray | list   (raises Reject)
        self.functions = tuple(functions)
        self.max_paths = max_paths
        self.eps = eps

    def run(self, seed):
        res = {"name": self.name, "key": {k: _j(v) for k, v in self.key.items()}, "obligations": 0, "discharged": 0, "backends": {}, "paths": 0, "solver_s": 0.0,
               "failures": [], "undecided": [], "errors": [], "notes": [], "status": "ok", "faithful": 0, "sample": None}
        try:
            self._run(res, seed)
        except PathBudgetExceeded as e:
            res["errors"].append("%s: %s" % (self.name, e))
        except Exception as e:
            import traceback
            res["errors"].append("%s %s: %s\n%s" % (self.name, self.key, e, traceback.format_exc()[-1500:]))
        return res

    def _run(self, res, seed):
        from synapgrad.tensor import Tensor
        sess = new_session()
        with shim.symbolic(eps=self.eps):
            syms = {n: symarr(n, sh) for n, sh, dom in self.leaves}
            for n, sh, dom in self.leaves:
                for e in syms[n].ravel():
                    sess.pre.extend(domain_constraints(e.n, dom))
            ex = Explorer(max_paths=self.max_paths)

            def one_path():
                T = {n: Tensor(syms[n].copy()) for n, sh, dom in self.leaves}
                try:
                    out = self.call(T)
                    impl = ("ok", [np.asarray(o.data, dtype=object) for o in (out if isinstance(out, (list, tuple)) else [out])])
                except PathBudgetExceeded:
                    raise
                except Exception as e:
                    impl = ("raised", "%s: %s" % (type(e).__name__, str(e)[:160]))
                try:
                    r = self.ref({n: syms[n] for n, sh, dom in self.leaves})
                    ref = ("ok", [np.asarray(o, dtype=object) for o in (r if isinstance(r, (list, tuple)) else [r])])
                except Reject as e:
                    ref = ("reject", str(e))
                return impl, ref
            results = ex.run(one_path)
        res["paths"] = len(results)
        base = list(sess.pre) + sess.relevant_axioms(list(sess.pre))

        def bump(b):
            res["obligations"] += 1
            res["discharged"] += 1
            res["backends"][b] = res["backends"].get(b, 0) + 1

        def fail(clause, what, extra=None):
            res["obligations"] += 1
            rep = self._native()
            rep.update(extra or {})
            if clause == "result_value" and not rep.get("reproduced", False):
                # the solver could not prove the identity but the real call agrees numerically with the reference: undecided, never a violation
                res["undecided"].append({"obligation": "%s.%s" % (self.name, clause), "reason": "%s; native call agrees with the reference semantics at the sampled point" % what[:200]})
                return
            res["failures"].append({"obligation": "%s.%s" % (self.name, clause), "what": what, "reproduced": rep.get("reproduced", False), "replay": rep})
        for (impl, ref), pc in results:
            if impl[0] == "raised" and ref[0] == "reject":
                bump("executed")
                continue
            if impl[0] == "raised":
                fail("accepts_documented_arguments", "legal according to the reference semantics but the call raised %s" % impl[1])
                return
            if ref[0] == "reject":
                fail("rejects_what_it_cannot_honour", "illegal according to the reference semantics (%s) but the call answered with shape(s) %s"
                     % (ref[1], [o.shape for o in impl[1]]))
                return
            outs, refs = impl[1], ref[1]
            if len(outs) != len(refs):
                fail("result_count", "%d results, reference has %d" % (len(outs), len(refs)))
                return
            for oi, (o, r) in enumerate(zip(outs, refs)):
                if o.shape != r.shape:
                    fail("result_shape", "result %d has shape %s, the reference semantics give %s" % (oi, o.shape, r.shape))
                    return
                bump("executed")
                for idx in ([()] if o.ndim == 0 else np.ndindex(*o.shape)):
                    a, b = o[idx], r[idx]
                    if a is b:
                        bump("syntactic")
                        continue
                    a, b = S.of(a), S.of(b)
                    v = prove_equal(a, b, base + list(pc) + sess.relevant_axioms(list(pc) + [a.n, a.d, b.n, b.d]))
                    res["solver_s"] += v.seconds
                    if v.status == "discharged":
                        bump(v.backend)
                        if res["sample"] is None and v.backend not in ("syntactic",):
                            res["sample"] = {"obligation": self.name + ".result_value", "config": res["key"], "element": list(idx), "lhs": str(a.term())[:120],
                                             "rhs": str(b.term())[:120], "backend": v.backend}
                    else:
                        fail("result_value", "result %d element %s is %s, the reference semantics give %s" % (oi, list(idx), str(a.term())[:100], str(b.term())[:100]),
                             {"solver": v.backend, "answer": v.status})
                        return

    def on_crash(self, why):
        """the symbolic run killed the interpreter: decide on floats against the reference semantics"""
        rep = self._native()
        if rep.get("reproduced"):
            return {"failure": {"obligation": "%s.result_value" % self.name, "what": "symbolic run crashed (%s); natively the call gives %s, the reference semantics %s"
                                % (why, str(rep.get("actual", rep.get("native_call")))[:200], str(rep.get("expected", rep.get("reference")))[:200]), "reproduced": True, "replay": rep}}
        return {"native": rep}

    def _native(self):
        """replay natively on float64: the real call vs the reference semantics evaluated on the same numbers"""
        from synapgrad.tensor import Tensor
        rng = np.random.RandomState(7)
        vals = {}
        for n, sh, dom in self.leaves:
            v = rng.uniform(0.3, 2.0, size=sh) * (rng.choice([-1, 1], size=sh) if dom == "any" else 1)
            vals[n] = v
        rep = {"inputs": {k: v.tolist() for k, v in vals.items()}, "config": {k: _j(v) for k, v in self.key.items()}}
        with shim.native():
            try:
                out = self.call({n: Tensor(v.copy()) for n, v in vals.items()})
                outs = [np.array(o.data, dtype=np.float64) for o in (out if isinstance(out, (list, tuple)) else [out])]
                impl = "ok"
            except Exception as e:
                impl = "raised %s: %s" % (type(e).__name__, str(e)[:160])
                outs = None
        try:
            r = self.ref({n: v.copy() for n, v in vals.items()})
            refs = [np.asarray(o, dtype=np.float64) for o in (r if isinstance(r, (list, tuple)) else [r])]
            ref = "ok"
        except Reject as e:
            ref = "reject: %s" % e
            refs = None
        rep["native_call"] = impl if outs is None else [o.shape for o in outs]
        rep["reference"] = ref if refs is None else [o.shape for o in refs]
        if (outs is None) != (refs is None):
            rep["reproduced"] = True
        elif outs is not None:
            same = len(outs) == len(refs) and all(o.shape == r.shape and np.allclose(o, r, rtol=1e-6, atol=1e-9) for o, r in zip(outs, refs))
            rep["reproduced"] = not same
            if not same:
                rep["actual"] = [o.tolist() for o in outs]
                rep["expected"] = [r.tolist() for r in refs]
        else:
            rep["reproduced"] = False
        return rep


def _j(v):
    if isinstance(v, (list, tuple)):
        return [_j(x) for x in v]
    if isinstance(v, (np.integer,)):
        return int(v)
    if isinstance(v, (str, int, float, bool)) or v is None:
        return v
    return repr(v)


# ---------------------------------------------------------------------------------------------------- catalogue
SL = slice


def cases(tier):
    import synapgrad.functional as F
    cs = []
    ANY = "any"

    def add(name, key, leaves, call, ref, **kw):
        cs.append(FwdCase(name, key, [(n, s, d) for n, s, d in leaves], call, ref, functions=(FN + name.split(".")[-1],) if name.startswith("functional.") else (), **kw))
    # ---- broadcasting arithmetic: every pattern onto (3,), (2,3); cover onto (2,3,2); incompatible shapes must raise
    pats = []
    for Rsh in [(3,), (2, 3)]:
        sh = operand_shapes(Rsh)
        pats += [(a, b) for a in sh for b in sh if bshape(a, b) == Rsh]
    pats += [((), ()), ((2, 3, 2), (3, 1)), ((2, 1, 2), (1, 3, 1)), ((2, 3, 2), ()), ((1,), (2, 3, 2))]
    bad = [((2, 3), (2,)), ((3,), (2,)), ((2, 3), (3, 2)), ((2, 3, 2), (3,))]
    binops = [("functional.add", lambda a, b: F.add(a, b), lambda x, y: x + y, ANY), ("functional.mul", lambda a, b: F.mul(a, b), lambda x, y: x * y, ANY),
              ("Tensor.__sub__", lambda a, b: a - b, lambda x, y: x - y, ANY), ("Tensor.__truediv__", lambda a, b: a / b, lambda x, y: x / y, "nonzero"),
              ("Tensor.__add__", lambda a, b: a + b, lambda x, y: x + y, ANY), ("Tensor.__mul__", lambda a, b: a * b, lambda x, y: x * y, ANY)]
    for name, fn, rf, domb in binops:
        for sa, sb in (pats if name.startswith("functional") or tier == "thorough" else pats[::3]) + bad:
            add(name, {"shapes": [sa, sb]}, [("a", sa, ANY), ("b", sb, domb)], lambda T, fn=fn: fn(T["a"], T["b"]), lambda A, rf=rf: R.binary(A["a"], A["b"], rf))
    # python scalars and reflected forms
    for c in (3, -1.5, 0.5):
        for sa in [(), (3,), (2, 3)]:
            sc = [("Tensor.__add__(scalar)", lambda a: a + c, lambda x: x + c, ANY), ("Tensor.__radd__(scalar)", lambda a: c + a, lambda x: c + x, ANY),
                  ("Tensor.__sub__(scalar)", lambda a: a - c, lambda x: x - c, ANY), ("Tensor.__rsub__(scalar)", lambda a: c - a, lambda x: c - x, ANY),
                  ("Tensor.__mul__(scalar)", lambda a: a * c, lambda x: x * c, ANY), ("Tensor.__rmul__(scalar)", lambda a: c * a, lambda x: c * x, ANY),
                  ("Tensor.__truediv__(scalar)", lambda a: a / c, lambda x: x / S.of(c) if isinstance(x, S) else x / c, ANY),
                  ("Tensor.__rtruediv__(scalar)", lambda a: c / a, lambda x: c / x, "nonzero"), ("Tensor.__neg__", lambda a: -a, lambda x: -x, ANY)]
            for name, fn, rf, dom in sc:
                add(name, {"shape": sa, "scalar": c}, [("a", sa, dom)], lambda T, fn=fn: fn(T["a"]), lambda A, rf=rf: R.unary(A["a"], rf))
    # ---- matmul / addmm
    mm = [((2, 3), (3, 4)), ((1, 3), (3, 1)), ((2, 2, 3), (3, 2)), ((2, 3), (2, 3, 1)), ((2, 1, 2, 3), (3, 3, 2)), ((3, 1, 2), (1, 2, 2)),
          ((2, 3), (2, 3)), ((3,), (3, 2)), ((2, 3), (3,)), ((3,), (3,)), ((2, 2, 3), (3, 3, 2)), ((), (2, 2))]
    for sa, sb in mm:
        add("functional.matmul", {"shapes": [sa, sb]}, [("a", sa, ANY), ("b", sb, ANY)], lambda T: F.matmul(T["a"], T["b"]), lambda A: R.matmul(A["a"], A["b"]))
        add("Tensor.__matmul__", {"shapes": [sa, sb]}, [("a", sa, ANY), ("b", sb, ANY)], lambda T: T["a"] @ T["b"], lambda A: R.matmul(A["a"], A["b"]))
    for sa in [(2, 2), (2,), (1, 2), (2, 1), (), (3,), (3, 2)]:
        add("functional.addmm", {"shapes": [sa, (2, 3), (3, 2)]}, [("a", sa, ANY), ("b", (2, 3), ANY), ("c", (3, 2), ANY)],
            lambda T: F.addmm(T["a"], T["b"], T["c"]), lambda A: R.binary(A["a"], R.matmul(A["b"], A["c"]), lambda x, y: x + y))
    # ---- unary
    for name, fn, rf, dom in [("functional.neg", F.neg, lambda x: -x, ANY), ("functional.exp", F.exp, lambda x: S.of(x).exp(), ANY),
                              ("functional.log", F.log, lambda x: S.of(x).log(), "pos"), ("functional.sqrt", F.sqrt, lambda x: S.of(x).sqrt(), "pos"),
                              ("functional.clone", F.clone, lambda x: x, ANY)]:
        for s in [(), (3,), (2, 3)]:
            add(name, {"shape": s}, [("a", s, dom)], lambda T, fn=fn: fn(T["a"]), lambda A, rf=rf: R.unary(A["a"], rf))
    for n in [-2, -1, 0, 1, 2, 3, 0.5, -0.5, 1.5]:
        dom = "pos" if float(n) != int(n) else ("nonzero" if n <= 0 else ANY)
        add("functional.pow", {"shape": (2, 2), "n": n}, [("a", (2, 2), dom)], lambda T, n=n: F.pow(T["a"], n), lambda A, n=n: R.unary(A["a"], lambda x: S.of(x) ** n))
        add("Tensor.__pow__", {"shape": (3,), "n": n}, [("a", (3,), dom)], lambda T, n=n: T["a"] ** n, lambda A, n=n: R.unary(A["a"], lambda x: S.of(x) ** n))
    for base in [0.5, 2, 10]:
        add("functional.rpow", {"shape": (3,), "base": base}, [("a", (3,), ANY)], lambda T, base=base: F.rpow(T["a"], base), lambda A, base=base: R.unary(A["a"], lambda x: base ** S.of(x)))
        add("Tensor.__rpow__", {"shape": (3,), "base": base}, [("a", (3,), ANY)], lambda T, base=base: base ** T["a"], lambda A, base=base: R.unary(A["a"], lambda x: base ** S.of(x)))
    # ---- reductions: every dim in [-n, n), tuples, out-of-range dims
    shapes = [(), (3,), (2, 3), (2, 3, 2)] + ([(2, 1, 3, 2), (2, 2, 1, 2, 2)] if tier == "thorough" else [(1, 2, 1, 2)])
    for op in ("sum", "mean", "max", "min"):
        fn = getattr(F, op)
        for shape in shapes:
            n = len(shape)
            dims = dims_for(n, tier) + ([n, -n - 1] if n > 0 else [])      # a dim on a 0-d tensor: NumPy rejects, torch accepts 0/-1 -> unspecified, not enumerated
            if op in ("max", "min"):
                if int(np.prod(shape)) > 8:
                    continue
            for dim in dims:
                for keep in (False, True):
                    add("functional." + op, {"shape": shape, "dim": dim, "keepdims": keep}, [("a", shape, ANY)], lambda T, fn=fn, dim=dim, keep=keep: fn(T["a"], dim, keep),
                        lambda A, op=op, dim=dim, keep=keep: R.reduce(A["a"], dim, keep, op))
        add("Tensor." + op, {"shape": (2, 3), "dim": "default"}, [("a", (2, 3), ANY)], lambda T, op=op: getattr(T["a"], op)(), lambda A, op=op: R.reduce(A["a"], None, False, op))
    # ---- indexing (NumPy semantics)
    for shape, ix, tag in INDEX_CATALOGUE:
        add("Tensor.__getitem__", {"shape": shape, "index": index_repr(ix), "kind": tag}, [("a", shape, ANY)], lambda T, ix=ix: T["a"][ix], lambda A, ix=ix: R.index(A["a"], ix))
    for shape, ix in [((4,), 4), ((4,), -5), ((3, 4), (0, 4)), ((3, 4), (0, 0, 0)), ((), 0)]:
        add("Tensor.__getitem__", {"shape": shape, "index": index_repr(ix), "kind": "out of range"}, [("a", shape, ANY)], lambda T, ix=ix: T["a"][ix], lambda A, ix=ix: R.index(A["a"], ix))
    # ---- view ops: all dims / pairs, legal and illegal
    for shape in [(2, 3), (2, 3, 4)] + ([(2, 3, 1, 2), (2, 1, 2, 1, 2)] if tier == "thorough" else []):
        n = len(shape)
        rng_ = range(-n - 1, n + 1)
        for s_, d in itertools.product(rng_, rng_):
            add("functional.movedim", {"shape": shape, "source": s_, "destination": d}, [("a", shape, ANY)], lambda T, s_=s_, d=d: F.movedim(T["a"], s_, d),
                lambda A, s_=s_, d=d: R.movedim(A["a"], s_, d))
            add("functional.transpose", {"shape": shape, "dim0": s_, "dim1": d}, [("a", shape, ANY)], lambda T, s_=s_, d=d: F.transpose(T["a"], s_, d),
                lambda A, s_=s_, d=d: R.transpose(A["a"], s_, d))
    # tuple forms: every ordered choice of 2 or 3 source dims x every ordered choice of destinations on rank 3 (which pair is spelled first must not matter), repeated /
    # out-of-range / unequal-length tuples, negative spellings
    tuple_forms = [(s_, d) for r_ in (2, 3) for s_ in itertools.permutations(range(3), r_) for d in itertools.permutations(range(3), r_)]
    tuple_forms += [((-1, 0), (0, 1)), ((0, 0), (1, 2)), ((0, 1), (2,)), ((0, -1), (-1, 0)), ((-3, 1), (1, -3)), ((2, 0), (-2, -1)), ((0, 1), (1, 1)), ((0, 3), (1, 2)), ((0, 1), (1, -4)), ((), ())]
    for s_, d in tuple_forms:
        add("functional.movedim", {"shape": (2, 3, 4), "source": s_, "destination": d}, [("a", (2, 3, 4), ANY)], lambda T, s_=s_, d=d: F.movedim(T["a"], s_, d),
            lambda A, s_=s_, d=d: R.movedim(A["a"], s_, d))
    for shape in [(), (3,), (2, 3), (2, 3, 2)] + ([(2, 1, 2, 2), (1, 2, 1, 2, 2)] if tier == "thorough" else [(2, 1, 1, 2)]):
        n = max(len(shape), 1)
        for s_, e in itertools.product(range(-n - 1, n + 2), repeat=2):
            add("functional.flatten", {"shape": shape, "start": s_, "end": e}, [("a", shape, ANY)], lambda T, s_=s_, e=e: F.flatten(T["a"], s_, e),
                lambda A, s_=s_, e=e: R.flatten(A["a"], s_, e))
    # ---- zero-extent shapes (empty batches): "all shapes" includes them; results are empty/neutral, never an error
    Z = [(0,), (0, 3), (2, 0), (2, 0, 3)]
    for sh in Z:
        n = len(sh)
        add("functional.add", {"shapes": [sh, sh[-1:]], "zero_extent": True}, [("a", sh, ANY), ("b", sh[-1:], ANY)], lambda T: F.add(T["a"], T["b"]), lambda A: R.binary(A["a"], A["b"], lambda x, y: x + y))
        add("functional.mul", {"shapes": [sh, ()], "zero_extent": True}, [("a", sh, ANY), ("b", (), ANY)], lambda T: F.mul(T["a"], T["b"]), lambda A: R.binary(A["a"], A["b"], lambda x, y: x * y))
        add("functional.exp", {"shape": sh, "zero_extent": True}, [("a", sh, ANY)], lambda T: F.exp(T["a"]), lambda A: R.unary(A["a"], lambda x: S.of(x).exp()))
        for dim in [None] + list(range(-n, n)):
            for keep in (False, True):
                add("functional.sum", {"shape": sh, "dim": dim, "keepdims": keep, "zero_extent": True}, [("a", sh, ANY)], lambda T, dim=dim, keep=keep: F.sum(T["a"], dim, keep),
                    lambda A, dim=dim, keep=keep: R.reduce(A["a"], dim, keep, "sum"))
        for s_, e in itertools.product(range(-n, n), repeat=2):
            add("functional.flatten", {"shape": sh, "start": s_, "end": e, "zero_extent": True}, [("a", sh, ANY)], lambda T, s_=s_, e=e: F.flatten(T["a"], s_, e),
                lambda A, s_=s_, e=e: R.flatten(A["a"], s_, e))
        for d0, d1 in itertools.product(range(n), repeat=2):
            add("functional.transpose", {"shape": sh, "dim0": d0, "dim1": d1, "zero_extent": True}, [("a", sh, ANY)], lambda T, d0=d0, d1=d1: F.transpose(T["a"], d0, d1),
                lambda A, d0=d0, d1=d1: R.transpose(A["a"], d0, d1))
        for dim in range(-n - 1, n + 1):
            add("functional.unsqueeze", {"shape": sh, "dim": dim, "zero_extent": True}, [("a", sh, ANY)], lambda T, dim=dim: F.unsqueeze(T["a"], dim), lambda A, dim=dim: R.unsqueeze(A["a"], dim))
        add("functional.reshape", {"shape": sh, "target": (0, -1) if False else sh[::-1], "zero_extent": True}, [("a", sh, ANY)], lambda T, sh=sh: F.reshape(T["a"], sh[::-1]),
            lambda A, sh=sh: R.reshape(A["a"], sh[::-1]))
        add("functional.stack", {"shape": sh, "count": 2, "dim": 0, "zero_extent": True}, [("a", sh, ANY), ("b", sh, ANY)], lambda T: F.stack([T["a"], T["b"]], 0),
            lambda A: R.stack([A["a"], A["b"]], 0))
    add("functional.concat", {"shapes": [(0, 3), (2, 3)], "dim": 0, "zero_extent": True}, [("a", (0, 3), ANY), ("b", (2, 3), ANY)], lambda T: F.concat([T["a"], T["b"]], 0),
        lambda A: R.concat([A["a"], A["b"]], 0))
    add("functional.matmul", {"shapes": [(0, 3), (3, 2)], "zero_extent": True}, [("a", (0, 3), ANY), ("b", (3, 2), ANY)], lambda T: F.matmul(T["a"], T["b"]), lambda A: R.matmul(A["a"], A["b"]))
    add("functional.matmul", {"shapes": [(2, 0), (0, 2)], "zero_extent": True}, [("a", (2, 0), ANY), ("b", (0, 2), ANY)], lambda T: F.matmul(T["a"], T["b"]), lambda A: R.matmul(A["a"], A["b"]))
    for ix, tag in [(SL(0, 0), "empty slice"), ([], "empty list"), (SL(3, 1), "reversed bounds")]:
        add("Tensor.__getitem__", {"shape": (4, 3), "index": tag, "zero_extent": True}, [("a", (4, 3), ANY)], lambda T, ix=ix: T["a"][ix], lambda A, ix=ix: R.index(A["a"], ix))
    add("Tensor.flatten", {"shape": (2, 3, 2), "args": "defaults"}, [("a", (2, 3, 2), ANY)], lambda T: T["a"].flatten(), lambda A: R.flatten(A["a"]))
    for shape in [(1,), (1, 3), (2, 1), (1, 2, 1), (2, 3), (), (1, 1)]:
        n = len(shape)
        dims = [None] + list(range(-n - 1, n + 1)) + [(d,) for d in range(n)] + [(d - n,) for d in range(n)] + ([tuple(range(n))] if n >= 2 else [])
        for dim in dims:
            add("functional.squeeze", {"shape": shape, "dim": dim, "dim_kind": "none" if dim is None else ("int" if isinstance(dim, int) else "tuple")}, [("a", shape, ANY)],
                lambda T, dim=dim: F.squeeze(T["a"], dim), lambda A, dim=dim: R.squeeze(A["a"], dim))
    for shape in [(), (3,), (2, 3)]:
        n = len(shape)
        for dim in list(range(-n - 2, n + 2)) + [(0, 1), (0, -1), (0, 0)]:
            add("functional.unsqueeze", {"shape": shape, "dim": dim}, [("a", shape, ANY)], lambda T, dim=dim: F.unsqueeze(T["a"], dim), lambda A, dim=dim: R.unsqueeze(A["a"], dim))
    for shape, tgt in [((6,), (2, 3)), ((2, 3), (3, 2)), ((2, 3), (-1,)), ((2, 3), (6, -1)), ((2, 3), (-1, 2)), ((2, 3), (4, -1)), ((2, 3), (5,)), ((2, 3), (-1, -1)), ((), (1,)),
                       ((), ()), ((1,), ()), ((2, 1, 3), (3, 2)), ((2, 3), (1, 2, 3, 1))]:
        add("functional.reshape", {"shape": shape, "target": tgt}, [("a", shape, ANY)], lambda T, tgt=tgt: F.reshape(T["a"], tgt), lambda A, tgt=tgt: R.reshape(A["a"], tgt))
    for shape in [(5,), (2, 5), (4, 2), (2, 3, 4)]:
        n = len(shape)
        for dim in range(-n - 1, n + 1):
            ext = shape[dim] if -n <= dim < n else 3
            for size in range(0, ext + 2):
                for step in range(0, 4):
                    if n == 3 and (size, step) not in [(1, 1), (2, 1), (2, 2), (3, 2), (0, 1), (2, 0), (ext + 1, 1), (ext, 3)]:
                        continue
                    add("functional.unfold_dim", {"shape": shape, "dimension": dim, "size": size, "step": step}, [("a", shape, ANY)],
                        lambda T, dim=dim, size=size, step=step: F.unfold_dim(T["a"], dim, size, step), lambda A, dim=dim, size=size, step=step: R.unfold_dim(A["a"], dim, size, step))
    add("Tensor.unfold", {"shape": (2, 5), "dimension": -1, "size": 2, "step": 2}, [("a", (2, 5), ANY)], lambda T: T["a"].unfold(-1, 2, 2), lambda A: R.unfold_dim(A["a"], -1, 2, 2))
    # ---- concat / stack / unbind: order, every dim, mismatches
    groups = [([(2, 3), (1, 3)], 0), ([(2, 3), (1, 3)], -2), ([(2, 1), (2, 3)], 1), ([(2, 1), (2, 3)], -1), ([(2,), (3,), (1,)], 0), ([(2, 3, 1), (2, 3, 2), (2, 3, 1)], 2),
              ([(2, 3), (1, 3)], 1), ([(2, 3), (2, 3)], 2), ([(2, 3), (2, 3)], -3), ([(2,), (2, 1)], 0), ([(3,)], 0), ([(), ()], 0)]
    for shapes_, dim in groups:
        names = ["t%d" % i for i in range(len(shapes_))]
        add("functional.concat", {"shapes": shapes_, "dim": dim}, [(n_, s, ANY) for n_, s in zip(names, shapes_)], lambda T, names=names, dim=dim: F.concat([T[n_] for n_ in names], dim),
            lambda A, names=names, dim=dim: R.concat([A[n_] for n_ in names], dim))
    for shape, k in [((3,), 2), ((2, 3), 3), ((), 2), ((2, 1, 3), 2)]:
        names = ["t%d" % i for i in range(k)]
        for dim in range(-(len(shape) + 2), len(shape) + 2):
            add("functional.stack", {"shape": shape, "count": k, "dim": dim}, [(n_, shape, ANY) for n_ in names], lambda T, names=names, dim=dim: F.stack([T[n_] for n_ in names], dim),
                lambda A, names=names, dim=dim: R.stack([A[n_] for n_ in names], dim))
    add("functional.stack", {"shapes": [(2,), (3,)], "dim": 0}, [("t0", (2,), ANY), ("t1", (3,), ANY)], lambda T: F.stack([T["t0"], T["t1"]], 0), lambda A: R.stack([A["t0"], A["t1"]], 0))
    # operands of unequal shape are illegal for stack / concat even when they would broadcast (in either order)
    for sa, sb in [((3,), (1,)), ((1,), (3,)), ((3,), ()), ((), (3,)), ((2, 3), (3,)), ((3,), (2, 3)), ((2, 3), (1, 3)), ((2, 1), (2, 3))]:
        for dim in (0, -1):
            add("functional.stack", {"shapes": [sa, sb], "dim": dim, "broadcastable_but_unequal": True}, [("t0", sa, ANY), ("t1", sb, ANY)], lambda T, dim=dim: F.stack([T["t0"], T["t1"]], dim),
                lambda A, dim=dim: R.stack([A["t0"], A["t1"]], dim))
    for sa, sb, dim in [((2, 3), (3,), 0), ((3,), (1, 3), 0), ((2, 3), (2, 1, 1), 1), ((2, 3), (), 0)]:
        add("functional.concat", {"shapes": [sa, sb], "dim": dim, "rank_mismatch": True}, [("t0", sa, ANY), ("t1", sb, ANY)], lambda T, dim=dim: F.concat([T["t0"], T["t1"]], dim),
            lambda A, dim=dim: R.concat([A["t0"], A["t1"]], dim))
    for shape in [(3,), (2, 3), (2, 3, 2)]:
        for dim in range(-len(shape) - 1, len(shape) + 1):
            add("functional.unbind", {"shape": shape, "dim": dim}, [("a", shape, ANY)], lambda T, dim=dim: list(F.unbind(T["a"], dim)), lambda A, dim=dim: R.unbind(A["a"], dim))
    return cs


# ------------------------------------------------------------------------------------------- pyvc: unbounded argument logic
def pyvc_targets():
    from ..pyvc.engine import Executor, State, Obj, Opaque, Returned, Raised
    from ..pyvc.harness import Target
    from ..pyvc import tensor_models as TM
    ts = []

    # ---- flatten: for every rank n (shape as a symbolic-length sequence) and every (start, end)
    def setup_flat(ex, rank=None):
        s = TM.base_state()
        x = TM.new_tensor(s, "x", requires_grad=False)
        shp = z3.Const("shape", z3.SeqSort(z3.IntSort()))
        n = z3.Length(shp)
        ex.attr_models[("Tensor", "shape")] = lambda ex_, st, o: shp
        captured = {}

        def reshape_model(ex_, st, args, kw):
            st.glob["__reshape_target"] = args[1]          # ghost: what the wrapper hands to the kernel, recorded in the path's own state
            return Opaque("reshaped")
        ex.models["cpu_ops.reshape_forward"] = reshape_model
        ex.models["cpu_ops.reshape_backward"] = lambda ex_, st, a, k: Opaque("g")
        st_, en = z3.Ints("start_dim end_dim")
        s.pc.append(n <= 6)
        if rank is not None:
            s.pc.append(n == rank)
            for i in range(rank):
                s.pc.append(shp[i] >= 0)        # extents, zero included
        return s, [x, st_, en], {"shape": shp, "n": n, "start": st_, "end": en, "captured": captured, "rank": rank}

    def ens_flat(ctx, s, out):
        n, st_, en, shp = ctx["n"], ctx["start"], ctx["end"], ctx["shape"]
        m = z3.If(n > 0, n, 1)
        in_range = z3.And(st_ >= -m, st_ < m, en >= -m, en < m)
        ns = z3.If(st_ < 0, st_ + m, st_)
        ne = z3.If(en < 0, en + m, en)
        legal = z3.And(in_range, ns <= ne)
        if isinstance(out, Raised):
            return [("raises_only_for_illegal_dims", z3.Not(legal))]
        tgt = s.glob.get("__reshape_target")
        cl = [("accepts_only_legal_dims", legal)]
        if ctx["rank"] is not None and tgt is not None and z3.is_expr(tgt) and z3.is_seq(tgt):
            # the target handed to reshape must be one NumPy accepts and that means "dims a..b merged": prefix ++ [d] ++ suffix with
            # d = the product of the merged extents, or d = -1 where NumPy can infer it (the remaining extents are all non-zero)
            rank = ctx["rank"]
            ext = [shp[i] for i in range(rank)]
            if rank == 0:
                cl.append(("reshape_target_merges_dims_start_to_end", z3.Implies(legal, z3.And(z3.Length(tgt) == 1, z3.Or(tgt[0] == 1, tgt[0] == -1)))))
            for a in range(rank):
                for b in range(a, rank):
                    pre = z3.Solver()
                    pre.add(*s.pc)
                    pre.add(legal, ns == a, ne == b)
                    if pre.check() == z3.unsat:
                        continue                # this (a, b) cannot occur on this path (linear integer pre-check); the clause would be vacuous
                    mid, rest = z3.IntVal(1), z3.IntVal(1)
                    for i in range(rank):
                        if a <= i <= b:
                            mid = mid * ext[i]
                        else:
                            rest = rest * ext[i]
                    parts = [z3.Length(tgt) == rank - (b - a)] + [tgt[i] == ext[i] for i in range(a)] + [tgt[a + 1 + k] == ext[b + 1 + k] for k in range(rank - b - 1)]
                    parts.append(z3.Or(tgt[a] == mid, z3.And(tgt[a] == -1, rest != 0)))
                    cl.append(("reshape_target_merges_dims_start_to_end", z3.Implies(z3.And(legal, ns == a, ne == b), z3.And(*parts))))
        return cl
    def replay_flat(ctx, model, clause):
        """run the real flatten natively on zeros of the counter-model's shape (possible whenever the shape has few elements, e.g. a zero extent)"""
        from ..symreal import shim
        rank = ctx["rank"]
        if rank is None:
            return {"reproduced": False, "note": "no concrete rank"}
        shape = tuple(model.eval(ctx["shape"][i], model_completion=True).as_long() for i in range(rank))
        sd, ed = (model.eval(ctx[k], model_completion=True).as_long() for k in ("start", "end"))
        size = int(np.prod(shape)) if shape else 1
        rep = {"shape": list(shape), "start_dim": sd, "end_dim": ed}
        if size > 10**6:
            return {**rep, "reproduced": False, "note": "counter-model shape too large to allocate"}
        m = max(rank, 1)
        a, b = sd % m, ed % m
        want = shape[:a] + (int(np.prod(shape[a:b + 1])) if shape else 1,) + shape[b + 1:]
        with shim.native():
            import synapgrad.functional as F
            from synapgrad.tensor import Tensor
            try:
                got = tuple(F.flatten(Tensor(np.zeros(shape)), sd, ed).shape)
            except Exception as e:
                return {**rep, "reproduced": True, "expected_shape": list(want), "native_exception": "%s: %s" % (type(e).__name__, e)}
        return {**rep, "expected_shape": list(want), "actual_shape": list(got), "reproduced": got != want, "native_satisfies_contract": got == want}
    ts.append(Target(FN + "flatten[argument normalisation]", "synapgrad/functional.py", "flatten", setup_flat, ens_flat,
                     executor=lambda: TM.make_executor(havoc={"Device", "RuntimeError", "TypeError", "ValueError", "IndexError"})))
    for rank in range(0, 6):
        # the reshape target, rank by rank (symbolic extents, every integer start/end): z3's sequence solver needs a concrete length
        ts.append(Target(FN + "flatten[reshape target, rank %d]" % rank, "synapgrad/functional.py", "flatten", lambda ex, rank=rank: setup_flat(ex, rank), ens_flat, replay=replay_flat,
                         executor=lambda: TM.make_executor(havoc={"Device", "RuntimeError", "TypeError", "ValueError", "IndexError"}), key={"rank": rank}))

    # ---- unfold_dim: validation predicate for every rank / dimension / size / step
    def setup_unf(ex):
        s = TM.base_state()
        x = TM.new_tensor(s, "x", requires_grad=False)
        nd = z3.Int("ndim")
        s.pc.append(nd >= 1)
        s.attrs(x)["ndim"] = nd
        dim, size, step, ext = z3.Ints("dimension size step extent")
        s.pc.append(ext >= 1)
        cap = {}

        def fwd(ex_, st, args, kw):
            st.glob["__kernel_dimension"] = args[1]
            # contract of cpu_ops.unfold_dim_forward: raises ValueError iff size > extent of that dimension
            out = []
            for s2, b in ex_.branch(st, args[2] > ext):
                out.append((s2, Raised("ValueError") if b else Opaque("windows")))
            return out
        ex.models["cpu_ops.unfold_dim_forward"] = fwd
        return s, [x, dim, size, step], {"nd": nd, "dim": dim, "size": size, "step": step, "ext": ext, "cap": cap}

    def ens_unf(ctx, s, out):
        nd, dim, size, step, ext = ctx["nd"], ctx["dim"], ctx["size"], ctx["step"], ctx["ext"]
        legal = z3.And(dim >= -nd, dim < nd, size >= 1, size <= ext, step >= 1)
        if isinstance(out, Raised):
            return [("raises_only_for_illegal_arguments", z3.Not(legal))]
        cl = [("accepts_only_legal_arguments", legal)]
        if "__kernel_dimension" in s.glob:
            cl.append(("kernel_receives_normalised_dimension", s.glob["__kernel_dimension"] == z3.If(dim < 0, dim + nd, dim)))
        return cl
    ts.append(Target(FN + "unfold_dim[validation]", "synapgrad/functional.py", "unfold_dim", setup_unf, ens_unf,
                     executor=lambda: TM.make_executor(havoc={"Device", "RuntimeError", "TypeError", "ValueError"})))

    # ---- matmul rank guard
    def setup_mm(ex):
        s = TM.base_state()
        a, b = TM.new_tensor(s, "x1", requires_grad=False), TM.new_tensor(s, "x2", requires_grad=False)
        na, nb = z3.Ints("ndim1 ndim2")
        s.pc += [na >= 0, nb >= 0]
        s.attrs(a)["ndim"], s.attrs(b)["ndim"] = na, nb
        return s, [a, b], {"na": na, "nb": nb}

    def ens_mm(ctx, s, out):
        ok = z3.And(ctx["na"] >= 2, ctx["nb"] >= 2)
        if isinstance(out, Raised):
            return [("raises_only_below_rank_2", z3.Not(ok))] if out.exc == "ValueError" else []
        return [("accepts_only_rank_at_least_2", ok)]
    ts.append(Target(FN + "matmul[rank guard]", "synapgrad/functional.py", "matmul", setup_mm, ens_mm,
                     executor=lambda: TM.make_executor(havoc={"Device", "RuntimeError", "TypeError", "ValueError"})))
    return ts


# ---------------------------------------------------------------------------------------- native: iteration, constructors
def native_part(run):
    import synapgrad
    from synapgrad.tensor import Tensor
    tm = sys.modules["synapgrad.tensor"]
    # iteration over the first dimension; several simultaneous / nested iterations over one tensor
    for shape in [(3,), (2, 3), (3, 2, 2), (1, 4)]:
        a = np.arange(int(np.prod(shape)), dtype=np.float32).reshape(shape)
        t = Tensor(a.copy())
        run.rt(("iter", shape))
        rows = [r.data for r in t]
        ok = len(rows) == shape[0] and all(np.array_equal(r, a[i]) for i, r in enumerate(rows)) and len(t) == shape[0]
        if not ok:
            run.violation("Tensor.__iter__.yields_rows_in_order", "iteration over shape %s gave %d rows" % (shape, len(rows)), key={"shape": list(shape), "pattern": "single"}, replay={})
        nested = []
        for r in t:
            for q in t:
                nested.append((float(np.ravel(r.data)[0]), float(np.ravel(q.data)[0])))
        expect = [(float(np.ravel(a[i])[0]), float(np.ravel(a[j])[0])) for i in range(shape[0]) for j in range(shape[0])]
        run.rt(("iter-nested", shape))
        if nested != expect:
            run.violation("Tensor.__iter__.independent_iterations", "nested iteration over one tensor of shape %s yields %d pairs, expected %d (the iterations share state)"
                          % (shape, len(nested), len(expect)), key={"shape": list(shape), "pattern": "nested"}, replay={"actual_pairs": nested[:12], "expected_pairs": expect[:12]})
        z = list(zip(t, t))
        run.rt(("iter-zip", shape))
        if len(z) != shape[0] or not all(np.array_equal(p.data, q.data) and np.array_equal(p.data, a[i]) for i, (p, q) in enumerate(z)):
            run.violation("Tensor.__iter__.independent_iterations", "zip(t, t) over shape %s yields %d pairs, expected %d identical pairs" % (shape, len(z), shape[0]),
                          key={"shape": list(shape), "pattern": "simultaneous"}, replay={})
    # 0-d tensors are not iterable / have no len
    run.rt("iter-0d")
    try:
        list(Tensor(np.float32(3.0)))
        run.violation("Tensor.__iter__.rejects_0d", "iterating a 0-d tensor did not raise", key={"pattern": "0-d"}, replay={})
    except TypeError:
        pass
    # constructors: shape / value / dtype contracts
    np.random.seed(0)
    ctor = [("ones", lambda: synapgrad.ones(2, 3), np.ones((2, 3))), ("ones(tuple)", lambda: synapgrad.ones((2, 3)), np.ones((2, 3))),
            ("zeros", lambda: synapgrad.zeros(2, 3), np.zeros((2, 3))), ("zeros(list)", lambda: synapgrad.zeros([3]), np.zeros(3)),
            ("ones_like", lambda: synapgrad.ones_like(Tensor(np.zeros((2, 2), dtype=np.float32))), np.ones((2, 2))),
            ("zeros_like", lambda: synapgrad.zeros_like(Tensor(np.ones((2, 2), dtype=np.float32))), np.zeros((2, 2))),
            ("arange(5)", lambda: synapgrad.arange(5), np.arange(5.0)), ("arange(1,7,2)", lambda: synapgrad.arange(1, 7, 2), np.arange(1.0, 7, 2)),
            ("arange(-3,0)", lambda: synapgrad.arange(-3, 0), np.arange(-3.0, 0)), ("arange(3,0,-1)", lambda: synapgrad.arange(3, 0, -1), np.arange(3.0, 0, -1)),
            ("arange(0)", lambda: synapgrad.arange(0), np.arange(0.0)), ("arange(2,2)", lambda: synapgrad.arange(2, 2), np.arange(2.0, 2)), ("arange(0,3)", lambda: synapgrad.arange(0, 3), np.arange(0.0, 3)),
            ("arange(-2,0.0,0.5)", lambda: synapgrad.arange(-2, 0.0, 0.5), np.arange(-2, 0.0, 0.5)), ("arange(1,-1,-0.5)", lambda: synapgrad.arange(1, -1, -0.5), np.arange(1, -1, -0.5)),
            # spans the step does not divide (the last element is start + (n-1)*step, the spacing is the step, never stretched to fit)
            ("arange(0,10,3)", lambda: synapgrad.arange(0, 10, 3), np.arange(0.0, 10, 3)), ("arange(2.5)", lambda: synapgrad.arange(2.5), np.arange(2.5)),
            ("arange(5,0,-2)", lambda: synapgrad.arange(5, 0, -2), np.arange(5.0, 0, -2)), ("arange(0,1,0.3)", lambda: synapgrad.arange(0, 1, 0.3), np.arange(0, 1, 0.3)),
            ("arange(1,2,0.75)", lambda: synapgrad.arange(1, 2, 0.75), np.arange(1, 2, 0.75)), ("arange(-1,1,0.7)", lambda: synapgrad.arange(-1, 1, 0.7), np.arange(-1, 1, 0.7)),
            ("eye(3)", lambda: synapgrad.eye(3), np.eye(3)), ("tensor(list)", lambda: synapgrad.tensor([[1, 2], [3, 4]]), np.array([[1.0, 2], [3, 4]])),
            ("tensor(scalar)", lambda: synapgrad.tensor(2.5), np.array(2.5))]
    for name, mk, exp in ctor:
        run.rt(("ctor", name))
        try:
            t = mk()
            # values to single precision (a float32 arange computed in float32 and one computed in float64 and rounded differ in the last bit; both are the documented values)
            if t.shape != exp.shape or not np.allclose(t.data, exp, rtol=2e-6, atol=2e-6) or t.data.dtype != np.float32:
                run.violation("synapgrad.%s.value" % name.split("(")[0], "%s gave shape %s dtype %s" % (name, t.shape, t.data.dtype), key={"constructor": name}, replay={})
        except Exception as e:
            run.violation("synapgrad.%s.completes" % name.split("(")[0], "%s raised %s: %s" % (name, type(e).__name__, e), key={"constructor": name}, replay={})
    for name, mk, shape, chk in [("empty", lambda: synapgrad.empty(2, 3), (2, 3), None), ("rand", lambda: synapgrad.rand(2, 3), (2, 3), lambda d: (d >= 0).all() and (d < 1).all()),
                                 ("randn", lambda: synapgrad.randn(4), (4,), None), ("normal", lambda: synapgrad.normal(5.0, 0.001, 3, 2), (3, 2), lambda d: (abs(d - 5) < 0.1).all()),
                                 ("randint", lambda: synapgrad.randint(2, 5, (3, 3)), (3, 3), lambda d: (d >= 2).all() and (d < 5).all())]:
        run.rt(("ctor", name))
        t = mk()
        if t.shape != shape or (chk is not None and not chk(t.data)):
            run.violation("synapgrad.%s.value" % name, "%s gave shape %s" % (name, t.shape), key={"constructor": name}, replay={})


def dtype_mixed_part(run):
    """bounded, native: operator forms on tensors of EVERY dtype the constructors produce (float32, float64, int32, int64 as returned by randint / Tensor(int array))
    with python int / float scalars and with tensors: values equal the NumPy result on the same arrays (an integer tensor times 0.5 is not truncated)"""
    import operator as op
    import synapgrad
    from synapgrad.tensor import Tensor
    rng = np.random.RandomState(5)
    forms = [("__add__", op.add), ("__radd__", lambda a, c: c + a), ("__sub__", op.sub), ("__rsub__", lambda a, c: c - a), ("__mul__", op.mul), ("__rmul__", lambda a, c: c * a),
             ("__truediv__", op.truediv), ("__rtruediv__", lambda a, c: c / a)]
    for dt in (np.float32, np.float64, np.int32, np.int64):
        for shape in [(), (3,), (2, 3)]:
            base = np.asarray(rng.randint(1, 9, size=shape)).astype(dt) if np.issubdtype(dt, np.integer) else np.asarray(rng.rand(*shape) * 8 + 1).astype(dt)
            for c in (2, -3, 0.5, 0.25, -1.5):
                for name, f in forms:
                    if name == "__rtruediv__" and np.issubdtype(dt, np.integer):
                        continue        # scalar / integer tensor goes through tensor ** -1, which NumPy refuses for integers: not a documented form, left out
                    run.rt(("dtype-mixed", np.dtype(dt).name, shape, c, name))
                    key = {"op": "Tensor." + name, "dtype": np.dtype(dt).name, "shape": list(shape), "scalar": c, "scalar_type": type(c).__name__}
                    want = f(np.asarray(base, dtype=np.float64), c)
                    try:
                        got = f(Tensor(base.copy()), c)
                    except Exception as e:
                        run.violation("Tensor.%s.accepts_python_scalar" % name, "%s tensor %s %r raised %s: %s" % (np.dtype(dt).name, name, c, type(e).__name__, e), key=key, replay=key)
                        continue
                    tol = 1e-12 if dt == np.float64 else 1e-5      # "to rounding of the operand dtype"; integer operands: PyTorch answers in float32
                    if got.shape != want.shape or not np.allclose(np.asarray(got.data, dtype=np.float64), want, rtol=tol, atol=tol):
                        run.violation("Tensor.%s.value_with_python_scalar" % name, "%s tensor %s with scalar %r: got %s, NumPy/PyTorch give %s" %
                                      (np.dtype(dt).name, base.tolist(), c, np.asarray(got.data).tolist(), want.tolist()), key=key,
                                      replay={**key, "operand": base.tolist(), "actual": np.asarray(got.data).tolist(), "expected": want.tolist()})
    # reductions "to rounding of the operand dtype" for every floating dtype a tensor can hold, float16 included: the mean of representable values whose
    # SUM is not representable (NumPy and PyTorch accumulate a float16 mean in float32)
    import synapgrad.functional as F_
    for dt, big in ((np.float16, 1000.0), (np.float32, 1e30), (np.float64, 1e300)):      # float32/float64: NumPy and PyTorch accumulate in the operand dtype, so the sum must stay representable
        x = (big * (1.0 + 0.01 * rng.rand(4, 100))).astype(dt)
        for dim in (None, 0, 1, (0, 1)):
            for keep in (False, True):
                run.rt(("mean-large", np.dtype(dt).name, dim, keep))
                want = np.mean(x.astype(np.float64), axis=dim, keepdims=keep)
                got = np.asarray(F_.mean(Tensor(x.copy()), dim, keep).data)
                if got.shape != want.shape or not np.allclose(got.astype(np.float64), want, rtol=8 * float(np.finfo(dt).eps), atol=0):
                    run.violation("functional.mean.value_to_rounding_of_operand_dtype", "mean(dim=%s, keepdims=%s) of a %s tensor of shape (4, 100) with entries around %g: got %s, the mean is %s"
                                  % (dim, keep, np.dtype(dt).name, big, got.ravel()[:3].tolist(), want.ravel()[:3].tolist()), key={"op": "functional.mean", "dtype": np.dtype(dt).name, "dim": str(dim)},
                                  replay={"dtype": np.dtype(dt).name, "dim": str(dim), "keepdims": keep, "magnitude": big})
    t = synapgrad.randint(1, 9, (2, 3))
    run.rt(("dtype-mixed", "randint*0.5"))
    if not np.allclose(np.asarray((t * 0.5).data, dtype=np.float64), np.asarray(t.data, dtype=np.float64) * 0.5):
        run.violation("Tensor.__mul__.value_with_python_scalar", "randint(...) * 0.5 = %s for %s" % ((t * 0.5).data.tolist(), t.data.tolist()),
                      key={"op": "Tensor.__mul__", "dtype": str(t.data.dtype), "scalar": 0.5, "via": "randint"}, replay={})


def selftest(run):
    """refsem against NumPy and torch, natively"""
    import torch
    rng = np.random.RandomState(3)
    bad = []

    def eq(name, a, b):
        a = np.asarray(a, dtype=np.float64)
        b = np.asarray(b, dtype=np.float64)
        run.rt(("selftest", name))
        if a.shape != b.shape or not np.allclose(a, b):
            bad.append(name)
    x = rng.randn(2, 3, 4)
    for s_, d in itertools.product(range(-3, 3), repeat=2):
        eq("movedim", R.movedim(x, s_, d), torch.movedim(torch.tensor(x), s_, d).numpy())
        eq("movedim-np", R.movedim(x, s_, d), np.moveaxis(x, s_, d))
        eq("transpose", R.transpose(x, s_, d), torch.transpose(torch.tensor(x), s_, d).numpy())
    eq("movedim-tuple", R.movedim(x, (0, 1), (1, 2)), torch.movedim(torch.tensor(x), (0, 1), (1, 2)).numpy())
    for s_, e in itertools.product(range(-3, 3), repeat=2):
        try:
            t = torch.flatten(torch.tensor(x), s_, e).numpy()
        except Exception:
            t = None
        try:
            r = R.flatten(x, s_, e)
        except Reject:
            r = None
        run.rt(("selftest", "flatten"))
        if (t is None) != (r is None) or (t is not None and (t.shape != r.shape or not np.allclose(t, r))):
            bad.append("flatten(%d,%d)" % (s_, e))
    eq("flatten-0d", R.flatten(np.float64(2.0)), torch.flatten(torch.tensor(2.0)).numpy())
    for dim, size, step in [(0, 1, 1), (1, 2, 1), (2, 3, 2), (-1, 2, 3), (1, 3, 1)]:
        eq("unfold", R.unfold_dim(x, dim, size, step), torch.tensor(x).unfold(dim, size, step).numpy())
    y = rng.randn(1, 3, 1)
    for dim in [None, 0, 1, 2, -1, (0, 2), (1,)]:
        t = torch.squeeze(torch.tensor(y)) if dim is None else torch.squeeze(torch.tensor(y), dim)
        eq("squeeze", R.squeeze(y, dim), t.numpy())
    for dim in [0, 1, -1, 3, -4]:
        eq("unsqueeze", R.unsqueeze(x, dim), torch.unsqueeze(torch.tensor(x), dim).numpy())
    for dim in [None, 0, -1, (0, 2), (1, -1)]:
        for keep in (False, True):
            eq("sum", R.reduce(x, dim, keep, "sum"), np.sum(x, axis=dim, keepdims=keep))
            eq("mean", R.reduce(x, dim, keep, "mean"), np.mean(x, axis=dim, keepdims=keep))
            eq("max", R.reduce(x, dim, keep, "max"), np.max(x, axis=dim, keepdims=keep))
            eq("min", R.reduce(x, dim, keep, "min"), np.min(x, axis=dim, keepdims=keep))
    a, b = rng.randn(2, 1, 2, 3), rng.randn(3, 3, 2)
    eq("matmul", R.matmul(a, b), a @ b)
    eq("binary", R.binary(rng.randn(2, 1, 4) * 0 + 1.5, x, lambda p, q: p * q), 1.5 * x)
    eq("concat", R.concat([x, x[:, :1]], 1), np.concatenate([x, x[:, :1]], 1))
    for dim in range(-4, 4):
        eq("stack", R.stack([x, x * 2], dim), torch.stack([torch.tensor(x), torch.tensor(x * 2)], dim).numpy())
    for dim in range(-3, 3):
        for p, q in zip(R.unbind(x, dim), torch.unbind(torch.tensor(x), dim)):
            eq("unbind", p, q.numpy())
    eq("reshape", R.reshape(x, (4, -1)), x.reshape(4, -1))
    if bad:
        run.error("reference semantics self-test failed (the SPEC disagrees with NumPy/torch, checker bug): %s" % sorted(set(bad))[:10])


def process_state_part(run):
    """Bounded, native: forward values for overflowing / undefined arguments are NumPy's (inf, nan -- no exception), and stay so whatever the process did before: the
    library's entry points that loop, catch or re-raise (Trainer.fit / Trainer.test ending normally and by an exception out of a callback / the data pipeline, optimizer
    steps, no_grad / retain_grads blocks left by an exception, DataLoader passes) leave NumPy's process-wide error handling (np.geterr) as they found it."""
    import contextlib
    import io
    import warnings
    import synapgrad
    import synapgrad.functional as F
    from synapgrad.tensor import Tensor
    from ..props import c18
    c18.stub_pkg_resources()
    from ..rtc import trainlog as tl
    tm = sys.modules["synapgrad.tensor"]

    def probes():
        out = []
        with warnings.catch_warnings():
            warnings.simplefilter("ignore")
            for dt in (np.float32, np.float64):
                big = dt(3e38) if dt == np.float32 else dt(1e308)
                for name, fn in (("exp(1000)", lambda: F.exp(Tensor(np.array([1000.0], dtype=dt)))), ("sqrt(-1)", lambda: F.sqrt(Tensor(np.array([-1.0], dtype=dt)))),
                                 ("big*big", lambda: Tensor(np.array([big], dtype=dt)) * Tensor(np.array([big], dtype=dt))), ("(-2)**0.5", lambda: Tensor(np.array([-2.0], dtype=dt)) ** 0.5),
                                 ("sum of three big", lambda: F.sum(Tensor(np.array([big, big, big], dtype=dt)))), ("log(-1)", lambda: F.log(Tensor(np.array([-1.0], dtype=dt)))),
                                 ("1/0", lambda: Tensor(np.array([1.0], dtype=dt)) / Tensor(np.array([0.0], dtype=dt)))):
                    try:
                        v = np.asarray(fn().data, dtype=np.float64).ravel()
                        out.append((name, np.dtype(dt).name, "nan" if np.isnan(v[0]) else repr(float(v[0]))))
                    except Exception as e:
                        out.append((name, np.dtype(dt).name, "raised %s" % type(e).__name__))
        return out

    def fit_history(case, boom_in_callback=False):
        w = tl.World(dict(tl.DEFAULT, **case))
        cb = None
        if boom_in_callback:
            def cb(model, loader):
                raise tl.Boom("early stop")
        with contextlib.redirect_stdout(io.StringIO()):
            try:
                w.trainer.fit(w.train_loader, case.get("epochs", 1), w.val_loader, on_train_epoch=cb)
            except tl.Boom:
                pass
            try:
                w.trainer.model.eval()
                w.trainer.test(w.test_loader)
            except Exception:
                pass

    def ctx_history():
        for ctx in (tm.no_grad, tm.retain_grads):
            try:
                with ctx():
                    raise tl.Boom("left by an exception")
            except tl.Boom:
                pass
    histories = [("Trainer.fit, two epochs, returns normally", lambda: fit_history(dict(epochs=2, n_train=2, bs=2, val=1))),
                 ("Trainer.fit left by an exception raised in the validation data pipeline", lambda: fit_history(dict(epochs=1, n_train=1, bs=2, val=2, val_raises=True))),
                 ("Trainer.fit left by an exception raised by the epoch callback", lambda: fit_history(dict(epochs=2, n_train=1, bs=2), boom_in_callback=True)),
                 ("no_grad / retain_grads blocks left by an exception", ctx_history)]
    base_err, base = dict(np.geterr()), probes()
    expected_bad = [b for b in base if b[2].startswith("raised")]
    run.rt(("process-state", "fresh"))
    if expected_bad:
        run.violation("forward.overflow_and_undefined_values_follow_numpy", "in a process that did nothing else: %s" % expected_bad, key={"history": "none"}, replay={"probes": expected_bad})
    for label, h in histories:
        run.rt(("process-state", label))
        try:
            h()
        except Exception as e:
            run.error("process-state history %r failed in the harness: %s: %s" % (label, type(e).__name__, e))
            continue
        now_err, now = dict(np.geterr()), probes()
        if now_err != base_err or now != base:
            diff = [(a, b) for a, b in zip(base, now) if a != b]
            run.violation("forward.overflow_and_undefined_values_follow_numpy", "after the history '%s' np.geterr() is %s (before: %s) and these forward results changed: %s" % (label, now_err, base_err, diff[:4]),
                          key={"history": label}, replay={"history": label, "np.geterr before": base_err, "after": now_err, "changed": [list(map(list, d)) for d in diff]})
            np.seterr(**base_err)


def main(tier="quick", seed=0, procs=None, only=None):
    from ..pyvc.harness import TargetCase
    run = Run("C05", tier, seed, "proof")
    run.assume("reals", "numpy", "shims", "atoms", "engines", "bounded-shapes", "pyvc-encoding")
    run.assume("NumPy applied to INTEGER index arrays is the trusted definition of data movement in the reference semantics; arithmetic/reductions are spelled out in index notation; "
               "refsem is compared with NumPy and torch on every run (self-test)")
    run.assume("log is compared with the mathematical log at cpu_ops.epsilon := 0; result dtype and rounding are C10's run-time checks")
    run.bounds = {"symreal": "ranks 0-3 (4-5 in the thorough tier), extents <=4; every dim in [-n-1, n] incl. out-of-range, tuples of dims, keepdims, every (source,destination), (dim0,dim1), "
                             "(start,end), (dimension,size,step<=3) incl. illegal ones, 45 index expressions, operator and reflected forms with python scalars",
                  "pyvc": "flatten: every rank <=6 with symbolic extents and every integer (start,end); unfold_dim validation and matmul rank guard: all integers",
                  "native": "iteration patterns (single, nested, zip) on 4 shapes; 16 constructors; 8 operator forms x 4 tensor dtypes (float32/64, int32/64) x 3 shapes x 5 python scalars"}
    run.rule = "one case = one (op, shapes, arguments); legality and value come from vf/spec/refsem.py; each result element is one equality obligation"
    cs = cases(tier)
    if only:
        cs = [c for c in cs if only in c.name]
    cs = cs + [TargetCase(t) for t in pyvc_targets()]
    run_catalogue(run, cs, seed=seed, procs=procs)
    try:
        native_part(run)
        dtype_mixed_part(run)
        process_state_part(run)
        from ..rtc import flagindep
        from ..catalog import tensor_ops
        flagindep.run_part(run, tensor_ops.all_cases("quick"))
        selftest(run)
    except Exception as e:
        run.error("native part / self-test failed", e)
    return run.finish()
