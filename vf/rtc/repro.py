"""C19 reference programs, hashed.  `python -m vf.rtc.repro <seed>` prints one JSON object
     {"program": [[label, sha256], ...], "repeat": [[[label, sha256], ...] x 3], "hashseed": ..., "randomized": ...}
reference_program(seed): manual_seed(seed), then every random-consuming API of the library once, then 5 SGD steps of an MLP with dropout.
fixed_program(): no random draw at all - a fixed forward/backward on fixed data (shared sub-expressions, several consumers per node).
"""
import hashlib
import json
import os
import sys
import types

# label prefixes whose arrays must change with the seed (non-vacuity); everything else is deterministic by construction
RANDOM_GROUPS = ("rand", "randn", "normal", "randint", "stdlib.random", "init.uniform_", "init.normal_", "init.xavier_uniform_", "init.xavier_normal_",
                 "init.kaiming_uniform_", "init.kaiming_normal_", "layer.Linear", "layer.Conv1d", "layer.Conv2d", "dropout", "split", "train")


def stub_pkg_resources():
    """synapgrad.nn.utils imports pkbar, which needs pkg_resources (absent on 3.12). Harness-side stub, nothing is written to /repo."""
    if "pkg_resources" not in sys.modules:
        m = types.ModuleType("pkg_resources")

        class DistributionNotFound(Exception):
            pass

        def get_distribution(name):
            raise DistributionNotFound(name)
        m.DistributionNotFound, m.get_distribution = DistributionNotFound, get_distribution
        sys.modules["pkg_resources"] = m


def digest(a):
    import numpy as np
    a = np.ascontiguousarray(a)
    return hashlib.sha256(("%s|%s|" % (a.dtype.str, a.shape)).encode() + a.tobytes()).hexdigest()


def group(label):
    return max((g for g in RANDOM_GROUPS if label == g or label.startswith(g + ".")), key=len, default=label.split(".")[0])


def reference_program(seed):
    import random
    import numpy as np
    import synapgrad as sg
    from synapgrad import nn, optim
    from synapgrad.nn import init
    stub_pkg_resources()
    from synapgrad.nn.utils.data import split_dataset
    out = []

    def rec(label, arr):
        out.append([label, digest(arr.data if isinstance(arr, sg.Tensor) else arr)])

    sg.manual_seed(seed)
    rec("rand", sg.rand(3, 4))
    rec("randn", sg.randn(2, 5))
    rec("normal", sg.normal(0.5, 2.0, 3, 3))
    rec("randint", sg.randint(0, 100, (4, 4)))
    rec("stdlib.random", np.array([random.random(), random.randint(0, 10**9)], dtype=np.float64))
    for name in sorted(n for n in dir(init) if n.endswith("_") and not n.startswith("_") and callable(getattr(init, n))):
        t = sg.zeros(4, 6)
        getattr(init, name)(t, 0.25) if name == "constant_" else getattr(init, name)(t)
        rec("init." + name, t)
    for cls, args in (("Linear", (5, 3)), ("Conv1d", (2, 3, 2)), ("Conv2d", (2, 3, 2)), ("BatchNorm1d", (4,))):
        layer = getattr(nn, cls)(*args)
        for i, p in enumerate(layer.parameters()):
            rec("layer.%s.param%d" % (cls, i), p)
        for buf in ("running_mean", "running_var"):
            if getattr(layer, buf, None) is not None:
                rec("layer.%s.%s" % (cls, buf), getattr(layer, buf))
    drop = nn.Dropout(0.4)
    drop.train()
    rec("dropout.out1", drop(sg.ones(6, 7)))
    rec("dropout.out2", drop(sg.ones(6, 7)))
    X = np.arange(60, dtype=np.float32).reshape(20, 3)
    y = np.arange(20, dtype=np.float32)
    for part, pair in zip(("train", "test", "val"), split_dataset(X, y, test_split=0.25, val_split=0.2, shuffle=True)):
        rec("split.%s.X" % part, pair[0])
        rec("split.%s.y" % part, pair[1])
    model = nn.Sequential(nn.Linear(4, 8), nn.BatchNorm1d(8), nn.ReLU(), nn.Dropout(0.3), nn.Linear(8, 3))
    model.train()
    opt = optim.SGD(model.parameters(), lr=0.1, momentum=0.9)
    loss_fn = nn.MSELoss()
    data, target = sg.randn(16, 4), sg.randn(16, 3)
    for step in range(5):
        opt.zero_grad()
        loss = loss_fn(model(data), target)
        loss.backward()
        rec("train.step%d.loss" % step, loss)
        for i, p in enumerate(model.parameters()):
            rec("train.step%d.grad%d" % (step, i), p._grad)
        opt.step()
        for i, p in enumerate(model.parameters()):
            rec("train.step%d.param%d" % (step, i), p)
    return out


def fixed_program():
    """No RNG: fixed data, a DAG with shared nodes (accumulation order = traversal order), forward + backward, all arrays hashed."""
    import numpy as np
    import synapgrad as sg
    from synapgrad import nn
    F = sg.nn.functional
    k = np.arange(1, 4 * 6 + 1, dtype=np.float32)
    x = sg.tensor(np.sin(k).reshape(4, 6), requires_grad=True)
    w1 = sg.tensor(np.cos(0.37 * np.arange(48)).reshape(6, 8), requires_grad=True)
    b1 = sg.tensor(0.1 * np.arange(8) - 0.3, requires_grad=True)
    w2 = sg.tensor(np.sin(0.11 * np.arange(24) + 1).reshape(8, 3), requires_grad=True)
    img = sg.tensor(np.cos(0.05 * np.arange(2 * 2 * 5 * 5)).reshape(2, 2, 5, 5), requires_grad=True)
    ker = sg.tensor(np.sin(0.3 * np.arange(3 * 2 * 2 * 2)).reshape(3, 2, 2, 2), requires_grad=True)
    target = sg.tensor(np.cos(np.arange(12)).reshape(4, 3))
    h = F.tanh(x @ w1 + b1)
    h = h * h + h + F.relu(h) * h                   # h has four consumers
    logits = h @ w2
    conv = F.max_pool2d(F.conv2d(img, ker), 2)
    loss = F.mse_loss(logits, target).mean() + F.log_softmax(logits, 1).sum() * 0.01 + (conv * conv).mean() + F.sigmoid(x).sum() * 0.1
    loss.backward()
    out = [["fixed.loss", digest(loss.data)], ["fixed.logits", digest(logits.data)], ["fixed.conv", digest(conv.data)]]
    for name, t in (("x", x), ("w1", w1), ("b1", b1), ("w2", w2), ("img", img), ("ker", ker)):
        out.append(["fixed.grad." + name, digest(t._grad)])
    return out


def repeated_fixed(times=3):
    """fixed_program `times` times in one process, allocating (and partly keeping) garbage in between so object addresses differ."""
    import gc
    import numpy as np
    import synapgrad as sg
    runs, keep = [], []
    for r in range(times):
        runs.append(fixed_program())
        junk = [sg.tensor(np.zeros(1 + (i * 7 + r) % 13), requires_grad=bool(i % 2)) for i in range(300 * (r + 1))]
        junk += [object() for _ in range(1000 * (r + 1))] + [{i: str(i)} for i in range(257 * (r + 1))]
        keep.append(junk[::3])
        del junk
        if r % 2:
            gc.collect()
    return runs


if __name__ == "__main__":
    seed = int(sys.argv[1]) if len(sys.argv) > 1 else 0
    print("RESULT " + json.dumps({"program": reference_program(seed), "repeat": repeated_fixed(3), "hashseed": os.environ.get("PYTHONHASHSEED"),
                                  "randomized": bool(sys.flags.hash_randomization), "hash_of_str": hash("synapgrad") % 10**6}))
