"""Syntactic (AST) obligations over the real synapgrad sources, re-read from the imported package directory on every call.

C17: backward_recursion, init_children, wrapper_guards.      C19: random_sites, set_uses, manual_seed_check, backward_order.
Every finding is a dict with structured fields (`where` = file:function, `clause`, ...) that the property modules turn into
`run.violation(..., key=finding)`. Nothing here imports or executes synapgrad code.
"""
import ast
import importlib.util
import os


# ------------------------------------------------------------------------------------------------ sources
def package_dir():
    return os.path.dirname(importlib.util.find_spec("synapgrad").origin)


def all_files():
    out = []
    for d, _, fs in os.walk(package_dir()):
        out += [os.path.relpath(os.path.join(d, f), package_dir()) for f in fs if f.endswith(".py")]
    return sorted(out)


def parse(rel):
    with open(os.path.join(package_dir(), rel)) as f:
        tree = ast.parse(f.read(), filename=rel)
    annotate(tree)
    return tree


def annotate(tree):
    """node._p = parent, node._q = qualified name of the enclosing function/class ('<module>' at top level)"""
    def rec(node, parent, qual):
        node._p, node._q = parent, qual
        inner = qual
        if isinstance(node, (ast.FunctionDef, ast.AsyncFunctionDef, ast.ClassDef)):
            inner = node.name if qual == "<module>" else qual + "." + node.name
        for ch in ast.iter_child_nodes(node):
            rec(ch, node, inner)
    rec(tree, None, "<module>")


def dotted(e):
    parts = []
    while isinstance(e, ast.Attribute):
        parts.append(e.attr)
        e = e.value
    if isinstance(e, ast.Name):
        return ".".join([e.id] + parts[::-1])
    return None


def ancestors(n):
    while getattr(n, "_p", None) is not None:
        n = n._p
        yield n


def own_nodes(fn):
    """nodes of a function body, not descending into nested function definitions"""
    stack = list(fn.body)
    while stack:
        n = stack.pop()
        yield n
        if not isinstance(n, (ast.FunctionDef, ast.AsyncFunctionDef, ast.Lambda)):
            stack.extend(ast.iter_child_nodes(n))


def find_def(tree, *path):
    node = tree
    for name in path:
        node = next((n for n in node.body if isinstance(n, (ast.FunctionDef, ast.ClassDef)) and n.name == name), None)
        if node is None:
            raise LookupError("definition %s not found" % ".".join(path))
    return node


def mentions_attr(e, attr):
    return any(isinstance(n, ast.Attribute) and n.attr == attr for n in ast.walk(e))


# ------------------------------------------------------------------------------- C17 S1: recursion below backward
def backward_recursion(rel="tensor.py"):
    """Call graph rooted at Tensor.backward (nested defs, Tensor members, module-level functions; receivers that are module
    globals are not tensors). Returns {'reached': [...], 'cycles': [finding, ...]}."""
    tree = parse(rel)
    cls = find_def(tree, "Tensor")
    mod_globals = set()
    for n in tree.body:
        if isinstance(n, (ast.Import, ast.ImportFrom)):
            mod_globals |= {(a.asname or a.name).split(".")[0] for a in n.names}
        elif isinstance(n, (ast.FunctionDef, ast.ClassDef)):
            mod_globals.add(n.name)
        elif isinstance(n, (ast.Assign, ast.AnnAssign)):
            for t in (n.targets if isinstance(n, ast.Assign) else [n.target]):
                mod_globals |= {x.id for x in ast.walk(t) if isinstance(x, ast.Name)}
    mod_funcs = {n.name: n for n in tree.body if isinstance(n, ast.FunctionDef)}
    members = {}
    for n in cls.body:                                # property setters are separate nodes '<name>.setter'
        if isinstance(n, ast.FunctionDef):
            setter = any(isinstance(d, ast.Attribute) and d.attr == "setter" for d in n.decorator_list)
            members.setdefault(n.name + (".setter" if setter else ""), []).append(n)
    funcs = {}                                        # qualified name -> [FunctionDef]
    for k, v in mod_funcs.items():
        funcs[k] = [v]
    for k, v in members.items():
        funcs["Tensor." + k] = v

    def add_nested(fn, qual):
        for n in own_nodes(fn):
            if isinstance(n, ast.FunctionDef):
                funcs[qual + "." + n.name] = [n]
                add_nested(n, qual + "." + n.name)
    for k in list(funcs):
        for fn in funcs[k]:
            add_nested(fn, k)

    def visible_nested(qual, name):                  # resolve a bare name through the enclosing function scopes
        parts = qual.split(".")
        for i in range(len(parts), 0, -1):
            cand = ".".join(parts[:i] + [name])
            if cand in funcs:
                return cand
        return None

    def calls(qual):
        out = []                                      # (callee qualified name, node)
        for fn in funcs[qual]:
            for n in own_nodes(fn):
                if isinstance(n, ast.Call) and isinstance(n.func, ast.Name):
                    tgt = visible_nested(qual, n.func.id) or (n.func.id if n.func.id in mod_funcs else None)
                    if n.func.id == "Tensor":
                        tgt = "Tensor.__init__"
                    if tgt and tgt in funcs:
                        out.append((tgt, n))
                elif isinstance(n, ast.Attribute):
                    key = n.attr + (".setter" if isinstance(n.ctx, ast.Store) and n.attr + ".setter" in members else "")
                    if key not in members or isinstance(n.value, ast.Attribute):
                        continue                      # self.data.shape: an ndarray attribute, not a Tensor member
                    if isinstance(n.value, ast.Name) and n.value.id in mod_globals:
                        continue                      # utils.x / F.x / np.x: not a Tensor member
                    out.append(("Tensor." + key, n))
        return out

    graph = {q: calls(q) for q in funcs}

    def reach(src):
        seen, stack = set(), [src]
        while stack:
            for tgt, _ in graph[stack.pop()]:
                if tgt not in seen:
                    seen.add(tgt)
                    stack.append(tgt)
        return seen

    reached = {"Tensor.backward"} | reach("Tensor.backward")
    cycles = []
    for q in sorted(reached):
        back = [(t, n) for t, n in graph[q] if t == q or q in reach(t)]
        if not back:
            continue
        along = False
        for _, n in back:
            call = n if isinstance(n, ast.Call) else n._p
            if isinstance(call, ast.Call) and any(mentions_attr(a, "_children") for a in call.args):
                along = True
            for a in ancestors(n):
                if isinstance(a, (ast.For, ast.comprehension)) and mentions_attr(a.iter, "_children"):
                    along = True
                if isinstance(a, (ast.ListComp, ast.GeneratorExp, ast.SetComp)) and any(mentions_attr(g.iter, "_children") for g in a.generators):
                    along = True
        cycles.append({"where": "%s:%s" % (rel, q), "clause": "self_recursion" if any(t == q for t, _ in back) else "mutual_recursion",
                       "along_children": along, "via": sorted({t for t, _ in back}), "lines": sorted({n.lineno for _, n in back})})
    return {"reached": sorted(reached), "cycles": cycles}


# ------------------------------------------------------------ C17 S2a: Tensor.__init__ keeps no children when untracked
def init_children(rel="tensor.py"):
    """Abstractly execute Tensor.__init__ under the assumption 'the tensor does not require grad' and report the abstract
    value of self._children on every path that falls off the end (paths ending in return/raise construct nothing new)."""
    init = find_def(parse(rel), "Tensor", "__init__")
    falsy = {"self._requires_grad", "self.requires_grad"}
    for n in own_nodes(init):
        if isinstance(n, ast.Assign) and any(dotted(t) == "self._requires_grad" for t in n.targets):
            falsy.add(dotted(n.value) or ast.dump(n.value))

    def truth(e):
        if (dotted(e) or ast.dump(e)) in falsy:
            return False
        if isinstance(e, ast.Constant):
            return bool(e.value)
        if isinstance(e, ast.UnaryOp) and isinstance(e.op, ast.Not):
            t = truth(e.operand)
            return None if t is None else not t
        if isinstance(e, ast.BoolOp):
            ts = [truth(v) for v in e.values]
            if isinstance(e.op, ast.And):
                return False if False in ts else (True if all(t is True for t in ts) else None)
            return True if True in ts else (False if all(t is False for t in ts) else None)
        return None

    def val(e, env):
        if isinstance(e, ast.Tuple) and not e.elts:
            return "empty"
        if isinstance(e, ast.Call) and dotted(e.func) == "tuple" and not e.args:
            return "empty"
        if isinstance(e, ast.Name):
            return env.get(e.id, "other")
        if isinstance(e, ast.IfExp):
            t = truth(e.test)
            if t is not None:
                return val(e.body if t else e.orelse, env)
            a, b = val(e.body, env), val(e.orelse, env)
            return a if a == b else "other"
        return "other"

    def run(stmts, envs):
        for s in stmts:
            if not envs:
                break
            if isinstance(s, ast.Assign):
                for env in envs:
                    v = val(s.value, env)
                    for t in s.targets:
                        if isinstance(t, ast.Name):
                            env[t.id] = v
                        elif dotted(t) == "self._children":
                            env["self._children"] = v
                            env["#trace"] = env.get("#trace", []) + ["line %d: self._children = <%s>" % (s.lineno, v)]
                        elif isinstance(t, (ast.Tuple, ast.List)):
                            for x in ast.walk(t):
                                if isinstance(x, ast.Name):
                                    env[x.id] = "other"
            elif isinstance(s, (ast.AugAssign, ast.AnnAssign)) and (dotted(s.target) in ("self._children",) or isinstance(s.target, ast.Name)):
                for env in envs:
                    env[dotted(s.target)] = "other" if isinstance(s, ast.AugAssign) or s.value is None else val(s.value, env)
            elif isinstance(s, ast.If):
                t = truth(s.test)
                if t is None:
                    envs = run(s.body, [dict(e) for e in envs]) + run(s.orelse, [dict(e) for e in envs])
                else:
                    envs = run(s.body if t else s.orelse, envs)
            elif isinstance(s, (ast.Return, ast.Raise)):
                envs = []
            elif isinstance(s, ast.Try):
                envs = run(s.body + s.orelse + s.finalbody, envs)
            elif isinstance(s, (ast.With, ast.For, ast.While)):
                envs = envs + run(s.body, [dict(e) for e in envs])
        return envs

    finals = run(init.body, [{}])
    bad = [e for e in finals if e.get("self._children") != "empty"]
    return {"where": "%s:Tensor.__init__" % rel, "paths": len(finals), "ok": bool(finals) and not bad, "assumed_false": sorted(falsy),
            "trace": [e.get("#trace", ["self._children never assigned"]) for e in (bad or finals)][:4]}


# ------------------------------------------------------- C17 S2b: op wrappers attach grad_fn only under requires_grad
def wrapper_guards(rel):
    """For every public module-level function that builds a Tensor with children=...: each store to <t>.grad_fn sits in the body
    of `if <t>.requires_grad`, at least one such store exists, and the nested backward closure is referenced nowhere else."""
    tree = parse(rel)
    checked, bad = [], []
    for fn in tree.body:
        if not isinstance(fn, ast.FunctionDef) or fn.name.startswith("_"):
            continue
        nodes = list(ast.walk(fn))
        if not any(isinstance(n, ast.Call) and dotted(n.func) == "Tensor" and any(k.arg == "children" for k in n.keywords) for n in nodes):
            continue
        checked.append(fn.name)
        stores = [n for n in nodes if isinstance(n, ast.Assign) and any(isinstance(t, ast.Attribute) and t.attr in ("grad_fn", "_grad_fn") for t in n.targets)]
        for n in nodes:                               # setattr(t, "grad_fn", ...) would bypass the pattern: always flagged
            if isinstance(n, ast.Call) and dotted(n.func) == "setattr" and len(n.args) > 1 and getattr(n.args[1], "value", None) in ("grad_fn", "_grad_fn"):
                bad.append({"where": "%s:%s" % (rel, fn.name), "clause": "grad_fn_store_unguarded", "line": n.lineno})
        if not stores:
            bad.append({"where": "%s:%s" % (rel, fn.name), "clause": "no_grad_fn_store"})
        guarded = []
        for s in stores:
            recv = dotted(s.targets[0].value)
            ok, child = False, s
            for a in ancestors(s):
                if a is fn:
                    break
                if recv and isinstance(a, ast.If) and child in a.body and dotted(a.test) in (recv + ".requires_grad", recv + "._requires_grad"):
                    ok = True
                child = a
            if not ok and recv:
                # the guard written as an early exit: a statement of the function body in front of the store reads `if not <t>.requires_grad: return ...` (every path of its
                # body leaves the function, no else branch), so the store is only reached when the flag is set
                top = next((st for st in fn.body if st is s or s in list(ast.walk(st))), None)
                for st in fn.body:
                    if st is top:
                        break
                    if (isinstance(st, ast.If) and not st.orelse and isinstance(st.test, ast.UnaryOp) and isinstance(st.test.op, ast.Not)
                            and dotted(st.test.operand) in (recv + ".requires_grad", recv + "._requires_grad") and st.body and isinstance(st.body[-1], (ast.Return, ast.Raise))):
                        ok = True
            if ok:
                guarded.append(s)
            else:
                bad.append({"where": "%s:%s" % (rel, fn.name), "clause": "grad_fn_store_unguarded", "line": s.lineno})
        closures = {n.name for n in nodes if isinstance(n, ast.FunctionDef) and n is not fn}
        for n in nodes:
            if isinstance(n, ast.Name) and n.id in closures and isinstance(n.ctx, ast.Load) and not any(a in guarded for a in ancestors(n)):
                bad.append({"where": "%s:%s" % (rel, fn.name), "clause": "closure_escapes", "line": n.lineno, "name": n.id})
    return {"checked": checked, "bad": bad}


# --------------------------------------------------------------------------------- C19 O1: random call sites
NP_SEEDED = set("""rand randn randint random_integers random_sample random ranf sample choice bytes shuffle permutation beta binomial
 chisquare dirichlet exponential f gamma geometric gumbel hypergeometric laplace logistic lognormal logseries multinomial
 multivariate_normal negative_binomial noncentral_chisquare noncentral_f normal pareto poisson power rayleigh standard_cauchy
 standard_exponential standard_gamma standard_normal standard_t triangular uniform vonmises wald weibull zipf""".split())
PY_SEEDED = set("""random uniform triangular randint choice choices randrange sample shuffle betavariate expovariate gammavariate gauss
 lognormvariate normalvariate vonmisesvariate paretovariate weibullvariate getrandbits randbytes binomialvariate""".split())
STATE = {"seed", "get_state", "set_state", "getstate", "setstate"}
ENTROPY = {"os.urandom", "os.getrandom", "os.getpid", "time.time", "time.time_ns", "time.perf_counter", "time.perf_counter_ns", "time.monotonic",
           "time.monotonic_ns", "time.process_time", "datetime.datetime.now", "datetime.datetime.utcnow", "datetime.datetime.today", "datetime.date.today"}


def import_map(tree):
    m = {}
    for n in ast.walk(tree):
        if isinstance(n, ast.Import):
            for a in n.names:
                m[a.asname or a.name.split(".")[0]] = a.name if a.asname else a.name.split(".")[0]
        elif isinstance(n, ast.ImportFrom) and n.module and n.level == 0:
            for a in n.names:
                m[a.asname or a.name] = n.module + "." + a.name
    return m


def resolve(e, imp):
    d = dotted(e)
    if not d:
        return None
    root, _, rest = d.partition(".")
    return (imp[root] + ("." + rest if rest else "")) if root in imp else None


def classify_random(fq):
    """-> (class, api) with class in seeded / state / forbidden, or None when the name is not a source of randomness"""
    if fq.startswith("numpy.random."):
        fn = fq[len("numpy.random."):]
        return ("seeded" if fn in NP_SEEDED else "state" if fn in STATE else "forbidden"), "np.random." + fn
    if fq.startswith("random."):
        fn = fq[len("random."):]
        return ("seeded" if fn in PY_SEEDED else "state" if fn in STATE else "forbidden"), "random." + fn
    if fq in ("os.urandom", "os.getrandom") or fq.split(".")[0] in ("secrets", "uuid"):
        return "forbidden", fq
    return None


def random_sites(rel):
    """Every reference (call or not) to a randomness source in one file, plus dynamic-code escapes."""
    tree = parse(rel)
    imp = import_map(tree)
    sites = []
    for n in ast.walk(tree):
        if isinstance(n, (ast.Attribute, ast.Name)) and isinstance(n.ctx, ast.Load) and not (isinstance(n._p, ast.Attribute) and n._p.value is n):
            fq = resolve(n, imp)
            c = classify_random(fq) if fq else None
            if c and fq not in ("numpy.random", "random"):
                call = n._p if isinstance(n._p, ast.Call) and n._p.func is n else None
                site = {"where": "%s:%s" % (rel, n._q), "file": rel, "function": n._q, "callee": dotted(n), "api": c[1], "class": c[0], "line": n.lineno,
                        "called": call is not None}
                if call is not None:
                    ent = [resolve(x, imp) for a in list(call.args) + [k.value for k in call.keywords] for x in ast.walk(a) if isinstance(x, (ast.Attribute, ast.Name))]
                    site["entropy_args"] = sorted({e for e in ent if e in ENTROPY})
                sites.append(site)
        elif isinstance(n, ast.Call):
            d = dotted(n.func)
            fq = resolve(n.func, imp)
            if d in ("eval", "exec", "__import__", "compile"):
                sites.append({"where": "%s:%s" % (rel, n._q), "file": rel, "function": n._q, "callee": d, "api": d, "class": "dynamic", "line": n.lineno})
            elif fq == "importlib.import_module":
                arg = n.args[0] if n.args else None
                if not (isinstance(arg, ast.Constant) and isinstance(arg.value, str) and arg.value.split(".")[0] == "synapgrad"):
                    sites.append({"where": "%s:%s" % (rel, n._q), "file": rel, "function": n._q, "callee": d, "api": "importlib.import_module(<non-literal>)",
                                  "class": "dynamic", "line": n.lineno})
    return sites


def manual_seed_check(rel="utils.py"):
    """O3: manual_seed(seed) unconditionally calls np.random.seed(seed) and random.seed(seed)."""
    tree = parse(rel)
    fn = find_def(tree, "manual_seed")
    imp = import_map(tree)
    param = fn.args.args[0].arg if fn.args.args else None
    seeded = set()
    for s in fn.body:                                   # top-level statements only: unconditional
        if isinstance(s, ast.Expr) and isinstance(s.value, ast.Call):
            fq = resolve(s.value.func, imp)
            if fq in ("numpy.random.seed", "random.seed") and len(s.value.args) == 1 and isinstance(s.value.args[0], ast.Name) and s.value.args[0].id == param:
                seeded.add(fq)
    return {"where": "%s:manual_seed" % rel, "seeded": sorted(seeded), "missing": sorted({"numpy.random.seed", "random.seed"} - seeded)}


# --------------------------------------------------------------------- C19 O2: sets, id(), hash() on numeric paths
SET_OK_METHODS = {"add", "discard", "remove", "update", "clear", "__contains__"}
ITER_WRAPPERS = {"list", "tuple", "sorted", "enumerate", "iter", "next", "reversed", "zip", "map", "filter", "min", "max", "sum", "any", "all",
                 "np.array", "np.asarray", "np.stack", "np.concatenate", "dict.fromkeys"}


def is_set_expr(e):
    return isinstance(e, (ast.Set, ast.SetComp)) or (isinstance(e, ast.Call) and dotted(e.func) in ("set", "frozenset"))


def set_uses(rel):
    """All order-sensitive uses of set-typed values, and all id()/hash() uses, in one file."""
    tree = parse(rel)
    out = []

    def top_scope(n):                                   # outermost function (closures share it) or '<module>'
        q = n._q
        fns = [a for a in ancestors(n) if isinstance(a, (ast.FunctionDef, ast.Lambda))]
        return fns[-1] if fns else tree, q

    typed = {}                                          # (scope id, dotted name) -> True
    for n in ast.walk(tree):
        pairs = []
        if isinstance(n, ast.Assign):
            for t in n.targets:
                if isinstance(t, (ast.Tuple, ast.List)) and isinstance(n.value, (ast.Tuple, ast.List)) and len(t.elts) == len(n.value.elts):
                    pairs += list(zip(t.elts, n.value.elts))
                else:
                    pairs.append((t, n.value))
        elif isinstance(n, ast.AnnAssign):
            if dotted(n.annotation) in ("set", "frozenset", "Set", "FrozenSet", "typing.Set") or (n.value is not None and is_set_expr(n.value)):
                typed[(id(top_scope(n)[0]), dotted(n.target))] = True
        for t, v in pairs:
            if is_set_expr(v) and dotted(t):
                typed[(id(top_scope(n)[0]), dotted(t))] = True

    def finding(n, clause, name):
        out.append({"where": "%s:%s" % (rel, n._q), "clause": clause, "name": name, "line": n.lineno})

    for n in ast.walk(tree):
        if isinstance(n, (ast.Name, ast.Attribute)) and isinstance(n.ctx, ast.Load) and dotted(n) and (id(top_scope(n)[0]), dotted(n)) in typed:
            p, name = n._p, dotted(n)
            if isinstance(p, ast.Compare) and n in p.comparators and all(isinstance(o, (ast.In, ast.NotIn)) for o in p.ops):
                continue
            if isinstance(p, ast.Attribute) and p.value is n:
                if p.attr in SET_OK_METHODS:
                    continue
                finding(n, "set_pop_order" if p.attr == "pop" else "set_escapes", name)
            elif isinstance(p, ast.Call) and dotted(p.func) == "len":
                continue
            elif isinstance(p, (ast.For, ast.comprehension)) and p.iter is n:
                finding(n, "iterates_set", name)
            elif isinstance(p, ast.Call) and dotted(p.func) in ITER_WRAPPERS:
                finding(n, "iterates_set", name)
            else:
                finding(n, "set_escapes", name)
        if isinstance(n, (ast.For, ast.comprehension)):
            it = n.iter
            while isinstance(it, ast.Call) and dotted(it.func) in ITER_WRAPPERS and it.args:
                it = it.args[0]
            if is_set_expr(it):
                finding(n if isinstance(n, ast.For) else n.iter, "iterates_set", "<set expression>")
        if is_set_expr(n):
            # a set EXPRESSION (not bound to a name first) used anywhere but: bound to a name (tracked above), a membership test, len(), a boolean
            # test, a set-algebra operand, the receiver of a membership-only method. tuple(set(xs)), list({..}), *set(xs), f(set(xs)) all order by hash.
            p = n._p
            ok = isinstance(p, (ast.Assign, ast.AnnAssign, ast.AugAssign)) and getattr(p, "value", None) is n
            ok = ok or (isinstance(p, ast.Compare) and n in p.comparators and all(isinstance(o, (ast.In, ast.NotIn, ast.Eq, ast.NotEq, ast.LtE, ast.GtE, ast.Lt, ast.Gt)) for o in p.ops))
            ok = ok or (isinstance(p, ast.Call) and dotted(p.func) in ("len", "bool", "set", "frozenset") and n in p.args)
            ok = ok or (isinstance(p, ast.BinOp) and isinstance(p.op, (ast.BitOr, ast.BitAnd, ast.Sub, ast.BitXor)))
            ok = ok or (isinstance(p, ast.Attribute) and p.value is n and p.attr in SET_OK_METHODS | {"issubset", "issuperset", "isdisjoint", "union", "intersection", "difference", "copy"})
            ok = ok or isinstance(p, (ast.If, ast.While, ast.BoolOp, ast.UnaryOp, ast.IfExp)) and getattr(p, "test", n) is n
            ok = ok or (isinstance(p, (ast.For, ast.comprehension)) and p.iter is n)       # reported by the loop rule above
            if not ok:
                finding(n, "iterates_set" if isinstance(p, (ast.Call, ast.Starred)) else "set_escapes", "<set expression> in %s" % type(p).__name__)
        if isinstance(n, ast.Call):
            if dotted(n.func) in ("id", "hash"):
                finding(n, "uses_" + dotted(n.func), dotted(n.func))
            for k in n.keywords:
                if k.arg == "key" and dotted(k.value) in ("id", "hash"):
                    finding(n, "orders_by_identity", dotted(n.func) or "?")
            if dotted(n.func) == "Tensor":
                for k in n.keywords:
                    if k.arg == "children" and (is_set_expr(k.value) or (dotted(k.value) and (id(top_scope(n)[0]), dotted(k.value)) in typed)):
                        finding(n, "children_is_set", "children")
    return out


def backward_order(rel="tensor.py"):
    """The processing order of Tensor.backward comes from lists: every for-loop inside it -- and inside the helpers of the same file whose result it iterates --
    iterates (through enumerate/reversed/...) a local bound only to list displays, an attribute `_children` (tuples built by the op wrappers), range(), or the result of a
    helper (method of Tensor / function of the file) that returns such a list and obeys the same rule itself."""
    tree = parse(rel)
    fn = find_def(tree, "Tensor", "backward")
    cls = find_def(tree, "Tensor")
    methods = {m.name: m for m in cls.body if isinstance(m, ast.FunctionDef)}
    funcs = {m.name: m for m in tree.body if isinstance(m, ast.FunctionDef)}
    bad, loops = [], []

    def callee_of(call):
        f = call.func
        if isinstance(f, ast.Attribute) and isinstance(f.value, ast.Name) and f.value.id == "self":
            return methods.get(f.attr)
        if isinstance(f, ast.Name):
            return funcs.get(f.id)
        return None

    def analyse(fd, depth=0):
        """names of fd bound only to list-ordered values; for-loops of fd are judged on the way"""
        lists, other = set(), set()
        for n in ast.walk(fd):
            if isinstance(n, ast.Assign):
                for t in n.targets:
                    if isinstance(t, ast.Name):
                        v = n.value
                        is_list = isinstance(v, (ast.List, ast.ListComp)) or (isinstance(v, ast.Call) and dotted(v.func) == "list" and not v.args)
                        if not is_list and isinstance(v, ast.Call) and depth < 3:
                            cd = callee_of(v)
                            is_list = cd is not None and returns_list(cd, depth + 1)
                        (lists if is_list else other).add(t.id)
        for n in ast.walk(fd):
            if isinstance(n, (ast.For, ast.comprehension)):
                it = n.iter
                while isinstance(it, ast.Call) and dotted(it.func) in ("enumerate", "reversed", "list", "tuple", "zip", "iter") and it.args:
                    it = it.args[0]
                src = dotted(it) or (dotted(it.func) if isinstance(it, ast.Call) else ast.dump(it)[:40])
                ok = (isinstance(it, ast.Name) and it.id in lists and it.id not in other) or (isinstance(it, ast.Attribute) and it.attr == "_children") \
                    or (isinstance(it, ast.Call) and dotted(it.func) == "range") \
                    or (isinstance(it, ast.Call) and depth < 3 and callee_of(it) is not None and returns_list(callee_of(it), depth + 1))
                loops.append(src)
                if not ok:
                    bad.append({"where": "%s:%s" % (rel, getattr(n if isinstance(n, ast.For) else n.iter, "_q", fd.name)), "clause": "order_not_from_list", "name": src})
        return lists - other

    def returns_list(fd, depth):
        ok_names = analyse(fd, depth)
        rets = [r for r in ast.walk(fd) if isinstance(r, ast.Return)]
        return bool(rets) and all(isinstance(r.value, ast.Name) and r.value.id in ok_names for r in rets)
    annotate(tree)
    analyse(fn)
    return {"loops": loops, "bad": bad}


def visual_is_presentational(files):
    """Exemption condition for synapgrad/visual/*: it stores into no attribute/subscript (cannot change tensor state) and the numeric
    modules reach it only from Tensor.draw_graph."""
    problems = []
    for rel in files:
        tree = parse(rel)
        vis = rel.startswith("visual" + os.sep)
        for n in ast.walk(tree):
            if vis and isinstance(n, (ast.Attribute, ast.Subscript)) and isinstance(n.ctx, (ast.Store, ast.Del)):
                problems.append({"where": "%s:%s" % (rel, n._q), "clause": "visual_module_stores", "line": n.lineno})
            if not vis and os.path.basename(rel) != "__init__.py" and isinstance(n, (ast.Import, ast.ImportFrom)):
                names = [a.name for a in n.names] + ([n.module] if isinstance(n, ast.ImportFrom) and n.module else [])
                if any("visual" in x.split(".") for x in names) and n._q != "Tensor.draw_graph":
                    problems.append({"where": "%s:%s" % (rel, n._q), "clause": "visual_used_outside_draw_graph", "line": n.lineno})
    return problems


def masked_ufunc_outputs(rel):
    """calls with a `where=` keyword (NumPy ufuncs write only the selected positions) whose output buffer is not supplied by the caller: without `out=<an array the
    function initialised>` the other positions are whatever the allocator left behind.  Accepted: out= a name bound in the same function to np.zeros / zeros_like /
    ones / full / a copy / an arithmetic result; np.where(...) itself (a function, not a masked ufunc) is not concerned."""
    tree = parse(rel)
    annotate(tree)
    bad = []
    for fn in ast.walk(tree):
        if not isinstance(fn, (ast.FunctionDef, ast.AsyncFunctionDef)):
            continue
        bound = {}
        for n in own_nodes(fn):
            if isinstance(n, ast.Assign) and len(n.targets) == 1 and isinstance(n.targets[0], ast.Name):
                bound.setdefault(n.targets[0].id, []).append(n.value)
        for n in own_nodes(fn):
            if not isinstance(n, ast.Call) or not any(k.arg == "where" for k in n.keywords):
                continue
            out = next((k.value for k in n.keywords if k.arg == "out"), None)
            ok = False
            if isinstance(out, ast.Name) and out.id in bound:
                def init(v):
                    d = dotted(v.func) if isinstance(v, ast.Call) else None
                    return (d is not None and d.split(".")[-1] in ("zeros", "zeros_like", "ones", "ones_like", "full", "full_like", "copy", "array", "asarray", "astype")) or isinstance(v, (ast.BinOp, ast.UnaryOp))
                ok = all(init(v) for v in bound[out.id])
            if not ok:
                bad.append({"where": "%s:%s" % (rel, fn.name), "line": n.lineno, "call": (dotted(n.func) or "?"), "out": ast.unparse(out) if out is not None else "absent"})
    return bad
