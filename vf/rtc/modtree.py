"""C12 helper: module-building programs, the ghost model (ordered abstract registries) and the run-time contracts.

A *program* is a tuple of operations on module slots M0..M3 and parameter slots P0..P3 (sizes 1,2,3,5):
   ("set", m, name, val, via)   Mm.name = val / Mm.register_module|parameter(name, val);  val = ("M",j)|("P",k)|("none",)|("int",)
   ("seq", kind, j, children)   Mj = Sequential(*children) (kind "pos") / Sequential(OrderedDict(unsorted keys)) (kind "od")
   ("call", m, meth)            Mm.train() / eval() / freeze() / unfreeze() / zero_grad()
Every slot that is not defined by a "seq" operation is a plain test module T (forward: log own slot, x -> x*mul+add).
The ghost is a function of the program text only; flags (training / requires_grad / grad) are taken from the real objects
before the last operation (old-state of the contract), so one defect does not cascade into the clauses of later calls.
"""
from collections import OrderedDict

import numpy as np
from synapgrad.nn.modules import Module, Parameter, Sequential
from synapgrad.tensor import Tensor
import sys as _sys
TM = _sys.modules["synapgrad.tensor"]

SIZES = (1, 2, 3, 5)
OD_KEYS = ("z", "k", "m")           # deliberately not in sorted order
FRESH = ("a", "_b")           # one public and one underscore-prefixed name: registration must not depend on how a name is spelled
METHS = ("train", "eval", "freeze", "unfreeze", "zero_grad")
KIND = {"M": "module", "P": "param", "none": "none", "int": "int"}
INT = 7


class Invalid(Exception):
    """the operation sequence is not a program of the space (cycle, Sequential slot already in use)"""


# ------------------------------------------------------------------------------------------------------------ ghost
class Ghost:
    """cur[m]: name -> value now held; order X[m][kind]: names in registration order.  Variant S keeps the slot of a name that
    was de-registered and registered again (torch), variant A appends it (dict with deletion); both are accepted as
    'registration order'.  Replacing a registered name by a value of the same kind keeps its position in both."""

    def __init__(self):
        self.cur, self.oS, self.oA, self.seq, self.usedM, self.usedP = {}, {}, {}, {}, [], []

    def copy(self):
        g = Ghost()
        g.cur = {m: dict(d) for m, d in self.cur.items()}
        g.oS = {m: {k: list(v) for k, v in d.items()} for m, d in self.oS.items()}
        g.oA = {m: {k: list(v) for k, v in d.items()} for m, d in self.oA.items()}
        g.seq, g.usedM, g.usedP = dict(self.seq), list(self.usedM), list(self.usedP)
        return g

    def useM(self, m):
        if m not in self.cur:
            self.cur[m] = {}
            self.oS[m] = {"M": [], "P": []}
            self.oA[m] = {"M": [], "P": []}
            self.usedM.append(m)

    def useP(self, k):
        if k not in self.usedP:
            self.usedP.append(k)

    def children(self, m, order=None):
        c = self.cur[m]
        return [c[n][1] for n in (order or self.oS)[m]["M"] if c[n][0] == "M"]

    def reach_mods(self, m, acc=None):
        acc = [] if acc is None else acc
        if m not in acc:
            acc.append(m)
            for j in self.children(m):
                self.reach_mods(j, acc)
        return acc

    def params(self, m, order, acc=None, seen=None):
        """own parameters in registration order, then submodules in registration order (pre-order); first occurrence only"""
        acc = [] if acc is None else acc
        seen = set() if seen is None else seen
        if m in seen:
            return acc
        seen.add(m)
        c = self.cur[m]
        for n in order[m]["P"]:
            if c[n][0] == "P" and c[n][1] not in acc:
                acc.append(c[n][1])
        for j in self.children(m, order):
            self.params(j, order, acc, seen)
        return acc

    def _register(self, m, name, val):
        old = self.cur[m].get(name)
        for k in ("M", "P"):
            if old is not None and old[0] == k and val[0] != k:
                self.oA[m][k].remove(name)
            if val[0] == k:
                if name not in self.oS[m][k]:
                    self.oS[m][k].append(name)
                if name not in self.oA[m][k]:
                    self.oA[m][k].append(name)
        self.cur[m][name] = val

    def apply(self, op):
        if op[0] == "set":
            _, m, name, val, _via = op
            self.useM(m)
            if val[0] == "M":
                self.useM(val[1])
                if m in self.reach_mods(val[1]):
                    raise Invalid("cycle")
            elif val[0] == "P":
                self.useP(val[1])
            self._register(m, name, val)
        elif op[0] == "seq":
            _, kind, j, ch = op
            for c in ch:
                self.useM(c)
            if j in self.cur:
                raise Invalid("Sequential slot already in use")
            self.useM(j)
            self.seq[j] = kind
            for i, c in enumerate(ch):
                self._register(j, str(i) if kind == "pos" else OD_KEYS[i], ("M", c))
        else:
            if op[1] not in self.cur:
                self.useM(op[1])
        return self


def ghost_of(prog):
    g = Ghost()
    for op in prog:
        g.apply(op)
    return g


# ---------------------------------------------------------------------------------------------------- enumeration
def next_ops(g, via, max_mods=4, max_pars=4, max_children=2, fresh_names=FRESH, meths=METHS):
    """all operations that extend a program with ghost g.  Symmetry reduction: unused module / parameter slots are
    interchangeable, so only the lowest unused one may be introduced; per module only the first unused fresh name."""
    mods = list(g.usedM)
    freshM = [len(mods)] if len(mods) < max_mods else []
    pars = list(g.usedP) + ([len(g.usedP)] if len(g.usedP) < max_pars else [])
    out = []
    for m in mods + freshM:
        names = list(g.cur.get(m, {}))
        fr = [n for n in fresh_names if n not in names][:1]
        nm = len(mods) + (1 if m in freshM else 0)                 # modules in use once m has been touched
        cand = [j for j in mods if j != m] + ([nm] if nm < max_mods else [])
        for name in names + fr:
            for j in cand:
                if j in g.cur and m in g.reach_mods(j):
                    continue
                out.append(("set", m, name, ("M", j), via))
            out.extend(("set", m, name, ("P", k), via) for k in pars)
            if via == "setattr":
                out.append(("set", m, name, ("none",), via))
                out.append(("set", m, name, ("int",), via))
    def tuples(prefix, used):
        yield prefix, used
        if len(prefix) < max_children:
            for c in used + ([len(used)] if len(used) < max_mods else []):
                yield from tuples(prefix + (c,), used if c in used else used + [c])
    for ch, used in tuples((), list(g.usedM)):
        if len(used) < max_mods:
            for kind in ("pos", "od"):
                out.append(("seq", kind, len(used), ch))
    for m in mods + freshM:
        out.extend(("call", m, f) for f in meths)
    return out


def enumerate_from(prefix, depth, via, **kw):
    """all programs that extend `prefix` (a tuple of ops) by 0..depth further operations, prefix included, as
    (program, ghost after, ghost before the last operation)"""
    def rec(prog, g, g0, d):
        yield prog, g, g0
        if d:
            for op in next_ops(g, via, **kw):
                yield from rec(prog + (op,), g.copy().apply(op), g, d - 1)
    prefix = tuple(prefix)
    yield from rec(prefix, ghost_of(prefix), ghost_of(prefix[:-1]), depth)


# ------------------------------------------------------------------------------------------------------ real world
LOG = []
MUL = (2, 3, 5, 7)
ADD = (1, 10, 100, 1000)


class T(Module):
    def __init__(self, slot):
        super().__init__()
        object.__setattr__(self, "slot", slot)

    def forward(self, x):
        LOG.append(self.slot)
        return x * MUL[self.slot] + ADD[self.slot]


class World:
    def __init__(self):
        self.M, self.P, self.outside = {}, {}, {}
        self.ambient_no_grad = False

    def mod(self, j):
        if j not in self.M:
            self.M[j] = T(j)
        return self.M[j]

    def par(self, k):
        if k not in self.P:
            # every parameter is made the way a user makes one from an existing tensor, Parameter(t); the source tensor and a second Parameter made from the same source
            # stay OUTSIDE every module: they belong to the frame of every operation (flags and gradient slots are per object, only the data buffer may be shared)
            src = Tensor(np.full(SIZES[k], k + 1.0, dtype=np.float32), requires_grad=True)
            p, twin = Parameter(src), Parameter(src)
            for j_, t_ in enumerate((p, src, twin)):
                t_._grad = np.full(SIZES[k], 10.0 + k + 100 * j_, dtype=np.float32)
            self.P[k] = p
            self.outside["src%d" % k], self.outside["twin%d" % k] = src, twin
        return self.P[k]

    def value(self, val):
        return {"M": self.mod, "P": self.par}[val[0]](val[1]) if val[0] in "MP" else (None if val[0] == "none" else INT)

    def run(self, op):
        if op[0] == "set":
            _, m, name, val, via = op
            tgt, v = self.mod(m), self.value(val)
            if via == "setattr":
                setattr(tgt, name, v)
            elif val[0] == "M":
                tgt.register_module(name, v)
            else:
                tgt.register_parameter(name, v)
        elif op[0] == "seq":
            _, kind, j, ch = op
            cs = [self.mod(c) for c in ch]
            s = Sequential(*cs) if kind == "pos" else Sequential(OrderedDict((OD_KEYS[i], c) for i, c in enumerate(cs)))
            object.__setattr__(s, "slot", j)
            self.M[j] = s
        elif self.ambient_no_grad:
            with TM.no_grad():          # the ambient gradient mode is none of these methods' business (unfreeze inside no_grad() still unfreezes)
                getattr(self.mod(op[1]), op[2])()
        else:
            getattr(self.mod(op[1]), op[2])()

    def flags(self):
        return ({j: m.training for j, m in self.M.items()},
                {k: (p.requires_grad, p._grad, None if p._grad is None else np.array(p._grad, copy=True)) for k, p in list(self.P.items()) + list(self.outside.items())})


def api_of(op):
    if op[0] == "set":
        if op[4] == "setattr":
            return "nn.Module.__setattr__"
        return "nn.Module.register_module" if op[3][0] == "M" else "nn.Module.register_parameter"
    return "nn.Sequential.__init__" if op[0] == "seq" else "nn.Module." + op[2]


def seq_expect(g, j, x, order, log):
    """ghost semantics of calling module j on x: Sequential folds its registered submodules in registration order"""
    if j not in g.seq:
        log.append(j)
        return x * MUL[j] + ADD[j]
    for c in g.children(j, order):
        x = seq_expect(g, c, x, order, log)
    return x


def consistent(w, g):
    """registry invariant Inv: the real registries (_submodules / _parameters, None entries ignored) hold exactly the ghost's
    current registrations.  Every contract assumes Inv before the call; the operation that breaks it is the one blamed."""
    pid = {id(p): k for k, p in w.P.items()}
    for j, mod in w.M.items():
        em, ep = {}, {}
        for name, v in g.cur.get(j, {}).items():
            if v[0] == "M":
                em[name] = v[1]
            elif v[0] == "P":
                ep[name] = v[1]
        if {nm: getattr(m, "slot", "?") for nm, m in mod._submodules.items() if m is not None} != em:
            return False
        if {nm: pid.get(id(q), "?") for nm, q in mod._parameters.items() if q is not None} != ep:
            return False
    return True


def check(prog, g=None, g0=None):
    """run the program on real objects, evaluate the contracts of its LAST operation and of the observers on the final
    state.  Returns (n_clause_evaluations, fails, downstream) with entries (obligation, what, detail); `downstream` holds
    failures seen in a state whose registry invariant an EARLIER clause failure already broke (reported there, counted here).
    Raises Invalid for non-programs.  g / g0: ghost after / before the last operation (recomputed when not supplied)."""
    if not prog:
        return 0, [], []
    if g is None:
        g0 = ghost_of(prog[:-1])
        g = g0.copy().apply(prog[-1])
    w = World()
    # programs written with explicit register_* calls run their train/eval/freeze/unfreeze/zero_grad calls inside no_grad(), the others in the default mode
    w.ambient_no_grad = any(op[0] == "set" and op[4] == "register" for op in prog)
    fails, down = [], []
    n = 0
    pre_ok = True
    for i, op in enumerate(prog):
        if i == len(prog) - 1:
            for s in g0.usedM:
                w.mod(s)
            for s in g0.usedP:
                w.par(s)
            if op[0] == "call":
                w.mod(op[1])
            old_tr, old_p = w.flags()
            pre_ok = consistent(w, g0)
        try:
            w.run(op)
        except Exception as e:  # the space contains only legal calls
            ok = pre_ok and i == len(prog) - 1
            (fails if ok else down).append((api_of(op) + ".completes", "legal call raised %s: %s" % (type(e).__name__, e), {"step": i}))
            return n + 1, fails, down
        if i < len(prog) - 1:
            # intermediate observation: every Sequential built so far is applied once after every step, so the final observation below
            # is made on objects that have already been called in earlier states (forward must be a function of the CURRENT registry)
            for m_ in list(w.M.values()):
                if isinstance(m_, Sequential):
                    try:
                        m_(1)
                    except Exception:
                        pass        # reported by the check of that prefix, where this call is the final observation
    for s in g.usedM:
        w.mod(s)
    for s in g.usedP:
        w.par(s)
    api = api_of(op)
    new_tr, new_p = w.flags()
    pid = {id(p): k for k, p in w.P.items()}
    post_ok = consistent(w, g)
    sink = fails if pre_ok else down

    def ck(cond, obligation, fmt, args=(), detail=None):
        nonlocal n
        n += 1
        if not cond:
            sink.append((obligation, fmt % args, detail or {}))

    def nm(x):
        return "P%s" % pid[id(x)] if id(x) in pid else ("M%s" % x.slot if isinstance(x, Module) else repr(x))

    def pub(f):
        try:
            return [nm(x) for x in f()]
        except Exception as e:
            return "raised " + type(e).__name__

    # ---- contract of the last operation: effect on exactly the reachable set, frame for everything else
    exp_tr = dict(old_tr)
    exp_rg = {k: v[0] for k, v in old_p.items()}
    zeroed, reach, rp = (), (), ()
    if op[0] == "call":
        reach = g.reach_mods(op[1])
        rp = g.params(op[1], g.oS)
        if op[2] in ("train", "eval"):
            for j in reach:
                exp_tr[j] = op[2] == "train"
        elif op[2] in ("freeze", "unfreeze"):
            for k in rp:
                exp_rg[k] = op[2] == "unfreeze"
        else:
            zeroed = rp
    mode_call = op[0] == "call" and op[2] in ("train", "eval")
    frz_call = op[0] == "call" and op[2] in ("freeze", "unfreeze")
    for j, tr in old_tr.items():
        ck(new_tr[j] == exp_tr[j], api + (".sets_every_reachable_submodule" if mode_call and j in reach else ".leaves_other_modules_alone"),
           "M%d.training is %s, contract says %s", (j, new_tr[j], exp_tr[j]), {"module": j})
    for k, (orq, _, gold) in old_p.items():
        nrq, _, gnew = new_p[k]
        ck(nrq == exp_rg[k], api + (".acts_on_every_reachable_parameter" if frz_call and k in rp else ".leaves_other_parameters_alone"),
           "P%s.requires_grad is %s, contract says %s", (k, nrq, exp_rg[k]), {"param": k})
        same = gnew is not None and gold is not None and gnew.shape == gold.shape and bool((gnew == gold).all())
        if k in zeroed:
            iszero = gnew is not None and gnew.shape == (SIZES[k],) and not gnew.any()
            # a reachable but frozen parameter: the property admits both readings (zeroed or skipped)
            ck(iszero or (same and not orq), api + ".zeroes_every_reachable_trainable_parameter", "P%s._grad is %r, expected zeros", (k, gnew), {"param": k})
        else:
            ck(same, api + ".leaves_other_gradients_alone", "P%s._grad changed from %r to %r", (k, gold, gnew), {"param": k})
    if op[0] == "set":
        tgt, v, name = w.M[op[1]], w.value(op[3]), op[2]
        old = g0.cur.get(op[1], {}).get(name)
        got = getattr(tgt, name, "<missing>")
        ck(got is v, api + ".getattr_returns_new_value", "M%d.%s is %s", (op[1], name, nm(got)))
        rm, rq = tgt._submodules.get(name), tgt._parameters.get(name)
        ok = (rm is v if op[3][0] == "M" else rm is None) and (rq is v if op[3][0] == "P" else rq is None)
        ck(ok, api + ".replaces_registration", "after M%d.%s = %s the old registration is still there (registered under that name: module=%s parameter=%s); M%d.parameters() = %s, M%d.submodules() = %s",
           (op[1], name, nm(v), nm(rm), nm(rq), op[1], pub(tgt.parameters), op[1], pub(tgt.submodules)),
           {"old_kind": KIND[old[0]] if old else "absent", "new_kind": KIND[op[3][0]]})
        if ok:
            ck(post_ok, api + ".leaves_other_registrations_alone", "registries differ from the ghost after M%d.%s = %s", (op[1], name, nm(v)))
    else:
        ck(post_ok, api + (".registers_its_arguments" if op[0] == "seq" else ".leaves_registrations_alone"), "registries differ from the ghost after %s", (op,))
    sink = fails if post_ok else down      # observers assume Inv on the state they observe
    # ---- observers on the final state, every module taken as root
    for j in g.usedM:
        mod = w.M[j]
        try:
            real = [pid.get(id(p), "?") for p in mod.parameters()]
            counts = (mod.num_params(), mod.num_params(trainable=True), mod.num_params(non_trainable=True))
        except Exception as e:
            ck(False, "nn.Module.parameters.completes", "M%d.parameters() raised %s: %s", (j, type(e).__name__, e), {"root": j})
            continue
        eS = g.params(j, g.oS)
        sr, se = set(real), set(eS)
        d = {"root": j, "actual": real, "expected": eS}
        ck(len(sr) == len(real), "nn.Module.parameters.each_once", "M%d.parameters() = P%s lists a parameter more than once (reachable: P%s)", (j, real, eS), d)
        ck(se <= sr, "nn.Module.parameters.every_reachable", "M%d.parameters() = P%s misses a reachable parameter of P%s", (j, real, eS), d)
        ck(sr <= se, "nn.Module.parameters.only_reachable", "M%d.parameters() = P%s contains a parameter that is no longer registered (reachable: P%s)", (j, real, eS), d)
        if sr == se:
            first = list(dict.fromkeys(real))
            ck(first == eS or first == g.params(j, g.oA), "nn.Module.parameters.registration_order", "M%d.parameters() order P%s, registration order P%s", (j, first, eS), d)
        tot = tr = 0
        for k in eS:
            tot += SIZES[k]
            tr += SIZES[k] if w.P[k].requires_grad else 0
        for which, a, e in (("total", counts[0], tot), ("trainable", counts[1], tr), ("non_trainable", counts[2], tot - tr)):
            ck(a == e, "nn.Module.num_params." + which, "M%d.num_params(%s) = %d, the reachable parameters P%s have %d such elements", (j, which, a, eS, e),
               {"root": j, "actual": a, "expected": e})
        if j in g.seq:
            del LOG[:]
            elogS, elogA = [], []
            eoutS, eoutA = seq_expect(g, j, 1, g.oS, elogS), seq_expect(g, j, 1, g.oA, elogA)
            try:
                out = mod(1)
            except Exception as e:
                ck(False, "nn.Sequential.forward.completes", "M%d(x) raised %s: %s (registered submodules: M%s)", (j, type(e).__name__, e, g.children(j)),
                   {"root": j, "n_submodules": len(g.children(j))})
                continue
            ck((LOG, out) == (elogS, eoutS) or (LOG, out) == (elogA, eoutA), "nn.Sequential.forward.registration_order",
               "M%d(1) applied M%s -> %r, registration order is M%s -> %r", (j, list(LOG), out, elogS, eoutS), {"root": j, "actual": list(LOG), "expected": elogS})
    for m, d in g.cur.items():
        for name, val in d.items():
            ck(getattr(w.M[m], name, "<missing>") is w.value(val), "nn.Module.__getattr__.returns_assigned_value", "M%d.%s is not the value last assigned", (m, name))
    return n, fails, down


# ------------------------------------------------------------------------------------------------------- features
PRIORITY = ("reassign_", "shared_submodule", "shared_parameter", "empty_sequential", "plain_attribute", "call_", "sequential_", "explicit_register")


def features(prog):
    """mechanical description of what the program contains (not of what fails)"""
    g = Ghost()
    f = set()
    for op in prog:
        if op[0] == "set":
            old = g.cur.get(op[1], {}).get(op[2])
            if old is not None and old[0] in "MP":
                f.add("reassign_%s_to_%s" % (KIND[old[0]], KIND[op[3][0]]))
            elif op[3][0] in ("none", "int"):
                f.add("plain_attribute")
            if op[4] == "register":
                f.add("explicit_register")
        elif op[0] == "seq":
            f.add("sequential_positional" if op[1] == "pos" else "sequential_ordered_dict")
            if not op[3]:
                f.add("empty_sequential")
        else:
            f.add("call_" + op[2])
        g.apply(op)
    inM, inP = {}, {}
    for m, d in g.cur.items():
        for v in d.values():
            if v[0] == "M":
                inM[v[1]] = inM.get(v[1], 0) + 1
            elif v[0] == "P":
                inP[v[1]] = inP.get(v[1], 0) + 1
    if any(c > 1 for c in inM.values()):
        f.add("shared_submodule")
    if any(c > 1 for c in inP.values()):
        f.add("shared_parameter")
    for j in g.seq:
        if not g.children(j):
            f.add("empty_sequential")
    return frozenset(f)


def primary(feats):
    """the feature reported as the trigger: kind-changing re-assignments first (to None, to a plain value, parameter<->module),
    then sharing, empty Sequential, same-kind replacement, ..."""
    def rank(x):
        old, new = x[len("reassign_"):].split("_to_")
        return (("none", "int", "param", "module").index(new), x)
    re_ = [x for x in feats if x.startswith("reassign_")]
    cross = sorted((x for x in re_ if rank(x)[1].split("_")[1] != x.rsplit("_", 1)[1]), key=rank)
    if cross:
        return cross[0]
    for p in PRIORITY[1:4]:
        if p in feats:
            return p
    if re_:
        return sorted(re_)[0]
    for p in PRIORITY[4:]:
        hit = sorted(x for x in feats if x.startswith(p))
        if hit:
            return hit[0]
    return "basic"


def family(feat):
    return "reassign" if feat.startswith("reassign_") else "sharing" if feat.startswith("shared_") else feat


def shrink(prog, obligation):
    """drop operations while the same obligation still fails (greedy delta debugging to a 1-minimal program)"""
    prog = tuple(prog)
    changed = True
    while changed:
        changed = False
        for i in range(len(prog)):
            cand = prog[:i] + prog[i + 1:]
            try:
                if cand and any(o[0] == obligation for o in check(cand)[1]):
                    prog, changed = cand, True
                    break
            except Invalid:
                pass
    return prog


def source(prog):
    """the program as a standalone Python script"""
    g = ghost_of(prog)
    seqs = {op[2] for op in prog if op[0] == "seq"}
    L = ["import numpy as np", "from collections import OrderedDict", "from synapgrad.nn.modules import Module, Parameter, Sequential",
         "class T(Module):", "    def forward(self, x): return x"]
    L += ["M%d = T()" % j for j in sorted(g.usedM) if j not in seqs]
    L.insert(3, "from synapgrad.tensor import Tensor")
    for k in sorted(g.usedP):
        L += ["src%d = Tensor(np.ones(%d, dtype=np.float32), requires_grad=True)" % (k, SIZES[k]), "P%d, twin%d = Parameter(src%d), Parameter(src%d)   # src and twin stay outside every module" % (k, k, k, k),
              "for t in (P%d, src%d, twin%d): t._grad = np.ones(%d, dtype=np.float32)" % (k, k, k, SIZES[k])]
    built = []
    amb = any(op[0] == "set" and op[4] == "register" for op in prog)
    if amb:
        L[0] = "import numpy as np, synapgrad"
    for oi, op in enumerate(prog):
        if oi > 0:
            L += ["M%d(1)    # intermediate observation (forward must depend on the current registry only)" % j for j in built]
        if op[0] == "seq":
            built.append(op[2])
        if op[0] == "set":
            v = {"M": "M%s", "P": "P%s"}.get(op[3][0], "")
            v = v % op[3][1] if v else ("None" if op[3][0] == "none" else str(INT))
            if op[4] == "setattr":
                L.append("M%d.%s = %s" % (op[1], op[2], v) if op[2].isidentifier() else "setattr(M%d, %r, %s)" % (op[1], op[2], v))
            else:
                L.append("M%d.register_%s(%r, %s)" % (op[1], "module" if op[3][0] == "M" else "parameter", op[2], v))
        elif op[0] == "seq":
            if op[1] == "pos":
                L.append("M%d = Sequential(%s)" % (op[2], ", ".join("M%d" % c for c in op[3])))
            else:
                L.append("M%d = Sequential(OrderedDict([%s]))" % (op[2], ", ".join("(%r, M%d)" % (OD_KEYS[i], c) for i, c in enumerate(op[3]))))
        elif amb:
            L.append("with synapgrad.no_grad(): M%d.%s()" % (op[1], op[2]))
        else:
            L.append("M%d.%s()" % (op[1], op[2]))
    return "\n".join(L)
