"""Bounded, native: the forward result of an operation (shape, dtype, every byte) does not depend on whether its operands take part in autograd -- the same call with
every subset of operands requiring grad, with gradient mode on and off, returns the same value.  Shared by C05 (tensor operations) and C06 (nn operations)."""
import itertools
import random
import sys

import numpy as np


def pick(cases, per_op=2, per_op_values=12):
    """per op: the first cases, plus every case that shows a configuration value not seen yet for that op (each-value coverage)"""
    seen, picked = {}, []
    for c in cases:
        if c.key.get("layer_reused_before_backward") or "dropout" in c.name.lower() or "Dropout" in c.name:
            continue
        k = (c.name, len(c.leaves))
        vals = seen.setdefault((k, "values"), set())
        new = {(kk, repr(v)) for kk, v in c.key.items()} - vals
        whole = any(c.name.endswith("." + r) for r in ("sum", "mean", "max", "min", "squeeze", "unsqueeze", "reshape", "flatten"))   # cheap ops whose result SHAPE logic has many argument combinations: every configuration
        if whole or seen.get(k, 0) < per_op or (new and seen.get(k, 0) < per_op_values):
            seen[k] = seen.get(k, 0) + 1
            vals |= new
            picked.append(c)
    return picked


def run_part(run, cases, obligation_suffix="result_independent_of_requires_grad_flags_and_mode"):
    from ..symreal import shim
    from ..symreal.harness import sample_point, _native_leaves
    tm = sys.modules["synapgrad.tensor"]
    rng = random.Random(5)
    for c in pick(cases):
        p = sample_point(c, rng)
        L = len(c.leaves)
        base = None
        saved = [l.requires_grad for l in c.leaves]
        try:
            for flags in itertools.product([False, True], repeat=L):
                for mode in (True, False):
                    for l, f in zip(c.leaves, flags):
                        l.requires_grad = f
                    with shim.native():
                        tm.gradient__ = True
                        T, K = _native_leaves(c, p)
                        tm.gradient__ = mode
                        try:
                            with np.errstate(all="ignore"):
                                out = c.build(T, K)
                            outs = out if isinstance(out, (tuple, list)) else [out]
                            sig = [("ok", tuple(o.data.shape), str(o.data.dtype), np.ascontiguousarray(o.data).tobytes()) for o in outs]
                        except Exception as e:
                            sig = [("raised", type(e).__name__)]
                        finally:
                            tm.gradient__ = True
                    run.rt(("flag-independence", c.name, str(sorted(c.key.items(), key=lambda kv: kv[0]))[:160], flags, mode))
                    if base is None:
                        base = (sig, flags, mode)
                    elif [s[:3] if s[0] == "ok" else s for s in sig] != [s[:3] if s[0] == "ok" else s for s in base[0]] or (sig[0][0] == "ok" and any(a[3] != b[3] for a, b in zip(sig, base[0]))):
                        def show(sg):
                            return [("shape %s dtype %s" % (s[1], s[2])) if s[0] == "ok" else "raised %s" % s[1] for s in sg]
                        run.violation("%s.%s" % (c.name, obligation_suffix), "%s %s: with operand flags %s, gradient mode %s the call gives %s; with flags %s, mode %s it gives %s%s" %
                                      (c.name, {k: v for k, v in c.key.items() if k != "op"}, list(flags), mode, show(sig), list(base[1]), base[2], show(base[0]),
                                       "" if show(sig) != show(base[0]) else " with different values"),
                                      key={"op": c.name, "flags": list(flags), "mode": mode, "config": str(c.key)[:200]}, replay={"config": c.describe(), "flags": list(flags), "mode": mode})
                        raise StopIteration
        except StopIteration:
            pass
        finally:
            for l, f in zip(c.leaves, saved):
                l.requires_grad = f
