"""rtc - run-time contracts over bounded enumerations (DESIGN 2.4): helpers shared by the bounded stand-ins (C09, C10).

A *case* is one call of a real library function on one point of a stated finite space.  A *clause* is one predicate of the
function's contract evaluated on that call.  Every clause evaluation is counted with run.rt(); failing evaluations are
grouped by `Collector` into failure classes (obligation name + the structured class fields of the key) so that one
run.violation() - with the first, i.e. smallest, failing case as the replay and the number of failing cases - is emitted
per class instead of one replay file per grid point.  Known findings match on the class fields.
"""
import sys
import traceback

import numpy as np


def synapgrad_modules():
    """import the library under contract (never torch); returns (Tensor, functional, nn, nn.functional)"""
    import synapgrad  # noqa: F401
    from synapgrad import functional as F, nn
    from synapgrad.nn import functional as NF
    return sys.modules["synapgrad.tensor"].Tensor, F, nn, NF


class LibraryRaised(Exception):
    """the function under contract raised: a contract outcome (`completes` clause), not a harness error"""

    def __init__(self, exc):
        super().__init__("%s: %s" % (type(exc).__name__, str(exc)[:200]))


def lib(fn, *a, **kw):
    """call library code; NumPy floating-point warnings are silenced (inf/nan are judged by the contracts, not by warnings)"""
    try:
        with np.errstate(all="ignore"):
            return fn(*a, **kw)
    except Exception as e:  # noqa: BLE001 - any exception of the library is an outcome
        raise LibraryRaised(e) from e


class Collector:
    """groups failing clause evaluations into classes; flush() reports one violation per class"""

    def __init__(self, run, max_examples=3):
        self.run = run
        self.classes = {}
        self.max_examples = max_examples

    def ok(self, obligation, case_id):
        """case_id None: the caller registers its distinct cases itself (run.rt(key, n=0))"""
        self.run.rt(None if case_id is None else (obligation, case_id))

    def fail(self, obligation, what, cls, case_id, replay, member=None):
        """cls: dict of class fields (matchable); replay: exact inputs / expected / actual of this failing case;
        member: optional label (e.g. the op) collected per class and listed in the key as `members`"""
        self.run.rt(None if case_id is None else (obligation, case_id))
        k = (obligation, tuple(sorted((a, repr(b)) for a, b in cls.items())))
        c = self.classes.get(k)
        if c is None:
            self.classes[k] = c = {"obligation": obligation, "what": what, "cls": dict(cls), "n": 0, "first": replay, "more": [], "members": set()}
        elif len(c["more"]) < self.max_examples:
            c["more"].append(replay)
        c["n"] += 1
        if member is not None:
            c["members"].add(member)

    def flush(self):
        for c in self.classes.values():
            key = dict(c["cls"])
            key["failing_cases_in_class"] = c["n"]
            if c["members"]:
                key["members"] = sorted(c["members"])
            rep = dict(c["first"])
            rep["failing_cases_in_class"] = c["n"]
            rep["further_examples"] = c["more"]
            self.run.violation(c["obligation"], "%s [%d failing case(s) in this class; first shown]" % (c["what"], c["n"]), key=key, replay=rep)
        n = len(self.classes)
        self.classes = {}
        return n


def guarded(run, where, fn, *a, **kw):
    """run a piece of the harness; its own exceptions become checker errors (exit 3), never violations"""
    try:
        return fn(*a, **kw)
    except Exception as e:  # noqa: BLE001
        tb = traceback.extract_tb(e.__traceback__)[-1]
        run.error("%s [%s:%d in %s]" % (where, tb.filename.rsplit("/", 1)[-1], tb.lineno, tb.name), e)
        return None
