"""Poisoned-allocation run (C19: results do not depend on allocation layout / repetition).

    python -m vf.rtc.poison <seed>

Every uninitialised allocation the library makes (np.empty, np.empty_like, np.ndarray(shape)) is filled with NaN (floats) or a huge sentinel
(integers) in this interpreter, then the whole C10 operation catalogue (every public op / layer / loss form, both floating dtypes, with the
geometry variants) is run forward and backward on finite operands.  A NaN or the sentinel in a result or in a gradient means that some cell of an
uninitialised buffer was read before it was written: the value a user gets there is whatever the allocator left behind, i.e. it depends on the heap
layout and on what ran before.  Deterministic (no need to "age" the heap), bounded by the catalogue.  Prints one JSON line.
"""
import json
import sys

import numpy as np

SENTINEL = 2 ** 30 + 12345


def install():
    real_empty, real_empty_like = np.empty, np.empty_like

    def poison(a):
        if a.dtype.kind == "f" or a.dtype.kind == "c":
            a.fill(np.nan)
        elif a.dtype.kind in "iu":
            a.fill(SENTINEL if a.dtype.itemsize >= 4 else 77)
        elif a.dtype.kind == "b":
            a.fill(True)
        return a

    def empty(*a, **k):
        return poison(real_empty(*a, **k))

    def empty_like(*a, **k):
        return poison(real_empty_like(*a, **k))
    np.empty, np.empty_like = empty, empty_like
    return real_empty, real_empty_like


def bad(arr):
    a = np.asarray(arr)
    if a.dtype.kind == "f":
        return bool(np.isnan(a).any())
    if a.dtype.kind in "iu":
        return bool((a == SENTINEL).any())
    return False


def main(seed):
    install()
    from ..props import c10
    Tensor, F, NF, nn = None, None, None, None
    Tensor, F, nn, NF = c10.synapgrad_modules()
    specs = c10.catalogue(F, NF, nn)
    fails, n = [], 0
    for si, spec in enumerate(specs):
        if spec["api"] in ("synapgrad.empty", "empty") or "empty" in spec["api"].split(".")[-1]:
            continue                    # the constructor documented as uninitialised
        rng = np.random.default_rng([seed, si])
        data = [None if o[0] in "SI" else (rng.uniform(0.1, 0.9, o[1]) if o[0] in "PU" else rng.uniform(0.5, 2.0, o[1])) for o in spec["ops"]]
        for dt in (np.float32, np.float64):
            ops = []
            for o, d in zip(spec["ops"], data):
                if o[0] == "S":
                    ops.append(o[1])
                elif o[0] == "I":
                    ops.append(Tensor(np.array(o[1])))
                else:
                    ops.append(Tensor(d.astype(dt), requires_grad=o[0] in "TP"))
            n += 1
            try:
                with np.errstate(all="ignore"):
                    out = spec["fn"](ops, dt)
                    outs = list(out) if isinstance(out, (tuple, list)) else [out]
                    where = None
                    for k, o in enumerate(outs):
                        if bad(o.data):
                            where = "result %d" % k
                    root = outs[0]
                    if where is None and root.requires_grad:
                        root.backward(Tensor(np.ones(root.shape, dtype=root.data.dtype)))
                        for k, t in enumerate(ops):
                            if hasattr(t, "_grad") and t._grad is not None and bad(t._grad):
                                where = "gradient of operand %d" % k
            except Exception:
                continue                # completion is C01/C02/C05/C06's business
            if where:
                fails.append({"api": spec["api"], "pattern": spec["pattern"], "dtype": np.dtype(dt).name, "where": where})
    # constructors: every parameter / buffer of a freshly built (and of a re-initialised) layer is fully written, for ordinary and for degenerate sizes
    # (zero input features, zero channels), with and without bias
    import itertools
    grid = []
    for i, o, bias in itertools.product((0, 1, 3), (0, 1, 2), (True, False)):
        grid.append(("nn.Linear(%d, %d, bias=%s)" % (i, o, bias), lambda i=i, o=o, bias=bias: nn.Linear(i, o, bias=bias)))
    for i in (0, 1, 4):
        grid.append(("nn.Neuron(%d)" % i, lambda i=i: nn.Neuron(i)))
    for ci, co, k, bias in itertools.product((0, 2), (0, 3), (1, 2), (True, False)):
        grid.append(("nn.Conv1d(%d, %d, %d, bias=%s)" % (ci, co, k, bias), lambda ci=ci, co=co, k=k, bias=bias: nn.Conv1d(ci, co, k, bias=bias)))
        grid.append(("nn.Conv2d(%d, %d, %d, bias=%s)" % (ci, co, k, bias), lambda ci=ci, co=co, k=k, bias=bias: nn.Conv2d(ci, co, k, bias=bias)))
    for c, aff, tr in itertools.product((0, 3), (True, False), (True, False)):
        grid.append(("nn.BatchNorm1d(%d, affine=%s, track_running_stats=%s)" % (c, aff, tr), lambda c=c, aff=aff, tr=tr: nn.BatchNorm1d(c, affine=aff, track_running_stats=tr)))
        grid.append(("nn.BatchNorm2d(%d, affine=%s, track_running_stats=%s)" % (c, aff, tr), lambda c=c, aff=aff, tr=tr: nn.BatchNorm2d(c, affine=aff, track_running_stats=tr)))
    for label, mk in grid:
        n += 1
        try:
            with np.errstate(all="ignore"):
                L = mk()
                tensors = [("parameter %d" % k, p) for k, p in enumerate(L.parameters())]
                tensors += [(nm, getattr(L, nm)) for nm in ("running_mean", "running_var") if getattr(L, nm, None) is not None]
                hit = [nm for nm, t in tensors if bad(t.data)]
                if not hit and hasattr(L, "reset_parameters"):
                    L.reset_parameters()
                    hit = [nm + " after reset_parameters()" for nm, t in tensors if bad(t.data)]
        except Exception:
            continue                    # refusing a degenerate size is fine
        if hit:
            fails.append({"api": label, "pattern": "constructor", "dtype": "default", "where": "freshly constructed " + hit[0]})
    print("RESULT " + json.dumps({"evaluations": n, "failures": fails[:40], "n_failures": len(fails)}))


if __name__ == "__main__":
    main(int(sys.argv[1]) if len(sys.argv) > 1 else 0)
